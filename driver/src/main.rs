// cascette-facts: rustc_private fact extractor for /verif (static analysis of cascette-rs).
//
// Used as RUSTC_WORKSPACE_WRAPPER: argv = [self, rustc, rustc-args...].
// For every body of the crate being compiled (functions, methods, closures, coroutines,
// consts) it dumps the *pre-borrowck* MIR (`mir_promoted`, phase Analysis(Initial)) as one
// JSON object per line, plus an ADT table and an impl table, into
// $VERIF_FACTS_DIR/<crate>.<kind>.jsonl (one write per process).
//
// The MIR is taken inside an override of the `mir_borrowck` query because after analysis
// `mir_promoted` of every coroutine body is already stolen.
#![feature(rustc_private)]

extern crate rustc_abi;
extern crate rustc_data_structures;
extern crate rustc_driver;
extern crate rustc_hir;
extern crate rustc_interface;
extern crate rustc_middle;
extern crate rustc_session;
extern crate rustc_span;

use rustc_hir::def::DefKind;
use rustc_hir::def_id::{DefId, LocalDefId, LOCAL_CRATE};
use rustc_middle::mir::{
    AggregateKind, BasicBlock, Body, Const, Operand, Place, PlaceRef, ProjectionElem, Rvalue,
    StatementKind, TerminatorKind, UnwindAction,
};
use rustc_middle::ty::print::{with_no_trimmed_paths, with_no_visible_paths, with_resolve_crate_name};

macro_rules! np {
    ($e:expr) => {
        with_no_visible_paths!(with_resolve_crate_name!(with_no_trimmed_paths!($e)))
    };
}
use rustc_middle::ty::{self, Instance, Ty, TyCtxt, TypingEnv};
use rustc_span::Span;
use std::collections::HashSet;
use std::fmt::Write as _;
use std::sync::Mutex;

static OUT: Mutex<Vec<String>> = Mutex::new(Vec::new());
static SEEN: Mutex<Option<HashSet<u32>>> = Mutex::new(None);

fn esc(s: &str, out: &mut String) {
    out.push('"');
    for c in s.chars() {
        match c {
            '"' => out.push_str("\\\""),
            '\\' => out.push_str("\\\\"),
            '\n' => out.push_str("\\n"),
            '\r' => out.push_str("\\r"),
            '\t' => out.push_str("\\t"),
            c if (c as u32) < 0x20 => {
                let _ = write!(out, "\\u{:04x}", c as u32);
            }
            c => out.push(c),
        }
    }
    out.push('"');
}

fn trunc(mut s: String, n: usize) -> String {
    if s.len() > n {
        let mut i = n;
        while !s.is_char_boundary(i) {
            i -= 1;
        }
        s.truncate(i);
        s.push('…');
    }
    s
}

fn canon_id(tcx: TyCtxt<'_>, did: DefId) -> String {
    format!(
        "{}{}",
        tcx.crate_name(did.krate),
        tcx.def_path(did).to_string_no_crate_verbose()
    )
}

fn ty_str<'tcx>(ty: Ty<'tcx>) -> String {
    trunc(np!(format!("{}", ty)), 400)
}

struct Cx<'a, 'tcx> {
    tcx: TyCtxt<'tcx>,
    body: &'a Body<'tcx>,
    def: LocalDefId,
    tenv: TypingEnv<'tcx>,
}

impl<'a, 'tcx> Cx<'a, 'tcx> {
    fn line(&self, sp: Span) -> (u32, bool, String) {
        let expn = sp.from_expansion();
        let cs = sp.source_callsite();
        let sm = self.tcx.sess.source_map();
        let loc = sm.lookup_char_pos(cs.lo());
        let file = format!("{}", loc.file.name.prefer_remapped_unconditionally());
        (loc.line as u32, expn, file)
    }

    fn place(&self, p: Place<'tcx>, out: &mut String) {
        self.place_ref(p.as_ref(), out)
    }

    fn place_ref(&self, p: PlaceRef<'tcx>, out: &mut String) {
        let _ = write!(out, "[{}", p.local.as_u32());
        for (base, elem) in p.iter_projections() {
            out.push(',');
            match elem {
                ProjectionElem::Deref => out.push_str("\"*\""),
                ProjectionElem::Field(f, fty) => {
                    let bty = base.ty(&self.body.local_decls, self.tcx);
                    let mut name = String::new();
                    let mut adt_name = String::new();
                    match bty.ty.kind() {
                        ty::Adt(adt, _) => {
                            let vi = bty.variant_index.unwrap_or(rustc_abi::FIRST_VARIANT);
                            if adt.is_enum() || adt.is_struct() || adt.is_union() {
                                let v = adt.variant(vi);
                                if let Some(fd) = v.fields.get(f) {
                                    name = fd.name.to_string();
                                }
                            }
                            adt_name = canon_id(self.tcx, adt.did());
                        }
                        ty::Closure(did, _) | ty::Coroutine(did, _) | ty::CoroutineClosure(did, _) => {
                            if let Some(ld) = did.as_local() {
                                let caps = self.tcx.closure_captures(ld);
                                if let Some(c) = caps.get(f.as_usize()) {
                                    name = format!("upvar:{}", c.to_symbol());
                                }
                            }
                        }
                        _ => {}
                    }
                    let _ = write!(out, "{{\"f\":{},\"n\":", f.as_u32());
                    esc(&name, out);
                    out.push_str(",\"a\":");
                    esc(&adt_name, out);
                    out.push_str(",\"t\":");
                    esc(&trunc(ty_str(fty), 160), out);
                    out.push('}');
                }
                ProjectionElem::Index(l) => {
                    let _ = write!(out, "{{\"i\":{}}}", l.as_u32());
                }
                ProjectionElem::ConstantIndex { offset, from_end, .. } => {
                    let _ = write!(out, "{{\"ci\":{},\"e\":{}}}", offset, from_end);
                }
                ProjectionElem::Subslice { from, to, from_end } => {
                    let _ = write!(out, "{{\"ss\":[{},{}],\"e\":{}}}", from, to, from_end);
                }
                ProjectionElem::Downcast(sym, vi) => {
                    out.push_str("{\"d\":");
                    esc(&sym.map(|s| s.to_string()).unwrap_or_default(), out);
                    let _ = write!(out, ",\"v\":{}}}", vi.as_u32());
                }
                ProjectionElem::OpaqueCast(_) => out.push_str("\"oc\""),
                ProjectionElem::UnwrapUnsafeBinder(_) => out.push_str("\"ub\""),
            }
        }
        out.push(']');
    }

    fn fn_ref(&self, did: DefId, args: ty::GenericArgsRef<'tcx>, out: &mut String) {
        // resolved callee
        let tcx = self.tcx;
        let mut rid = did;
        let mut rargs = args;
        let mut resolved = false;
        let mut kind = "item";
        if let Ok(Some(inst)) = Instance::try_resolve(tcx, self.tenv, did, args) {
            rid = inst.def_id();
            rargs = inst.args;
            resolved = true;
            kind = match inst.def {
                ty::InstanceKind::Item(_) => "item",
                ty::InstanceKind::Virtual(..) => "virtual",
                ty::InstanceKind::Intrinsic(_) => "intrinsic",
                ty::InstanceKind::ClosureOnceShim { .. } => "closure_once",
                ty::InstanceKind::FnPtrShim(..) => "fnptr_shim",
                ty::InstanceKind::DropGlue(..) => "drop_glue",
                ty::InstanceKind::CloneShim(..) => "clone_shim",
                ty::InstanceKind::VTableShim(..) => "vtable_shim",
                ty::InstanceKind::ReifyShim(..) => "reify_shim",
                _ => "other",
            };
        }
        let trait_of = tcx.trait_of_assoc(rid);
        out.push_str("{\"id\":");
        esc(&canon_id(tcx, rid), out);
        out.push_str(",\"name\":");
        esc(&np!(tcx.def_path_str(rid)), out);
        out.push_str(",\"full\":");
        esc(
            &trunc(np!(tcx.def_path_str_with_args(rid, rargs)), 500),
            out,
        );
        if rid != did {
            out.push_str(",\"orig\":");
            esc(&canon_id(tcx, did), out);
            out.push_str(",\"orig_name\":");
            esc(&np!(tcx.def_path_str(did)), out);
        }
        let _ = write!(
            out,
            ",\"res\":{},\"kind\":\"{}\",\"local\":{},\"trait_method\":{}}}",
            resolved,
            kind,
            rid.is_local(),
            trait_of.is_some()
        );
    }

    fn constant(&self, c: &rustc_middle::mir::ConstOperand<'tcx>, out: &mut String) {
        let ty = c.const_.ty();
        out.push_str("{\"k\":");
        match ty.kind() {
            ty::FnDef(did, args) => {
                out.push_str("\"fn\",\"fn\":");
                self.fn_ref(*did, args, out);
            }
            _ => {
                out.push_str("\"c\",\"ty\":");
                esc(&trunc(ty_str(ty), 120), out);
                // scalar value
                let mut done = false;
                if ty.is_integral() || ty.is_bool() || ty.is_char() {
                    if let Some(si) = c.const_.try_eval_scalar_int(self.tcx, self.tenv) {
                        let size = si.size();
                        let bits = si.to_bits(size);
                        let v: i128 = if ty.is_signed() {
                            size.sign_extend(bits) as i128
                        } else {
                            bits as i128
                        };
                        let _ = write!(out, ",\"v\":\"{}\"", v);
                        done = true;
                    }
                } else if ty.is_floating_point() {
                    if let Some(si) = c.const_.try_eval_scalar_int(self.tcx, self.tenv) {
                        let size = si.size();
                        let bits = si.to_bits(size);
                        let f = if size.bytes() == 8 {
                            f64::from_bits(bits as u64)
                        } else if size.bytes() == 4 {
                            f32::from_bits(bits as u32) as f64
                        } else {
                            f64::NAN
                        };
                        let _ = write!(out, ",\"fv\":\"{}\"", f);
                        done = true;
                    }
                }
                if !done {
                    // textual rendering (string literals, unevaluated consts, ZSTs)
                    let s = np!(format!("{}", c.const_));
                    out.push_str(",\"s\":");
                    esc(&trunc(s, 200), out);
                    if let Const::Unevaluated(uv, _) = c.const_ {
                        out.push_str(",\"uneval\":");
                        esc(&canon_id(self.tcx, uv.def), out);
                        if let Some(p) = uv.promoted {
                            let _ = write!(out, ",\"promoted\":{}", p.as_u32());
                        }
                    }
                }
            }
        }
        out.push('}');
    }

    fn operand(&self, o: &Operand<'tcx>, out: &mut String) {
        match o {
            Operand::Copy(p) => {
                out.push_str("{\"k\":\"cp\",\"p\":");
                self.place(*p, out);
                out.push('}');
            }
            Operand::Move(p) => {
                out.push_str("{\"k\":\"mv\",\"p\":");
                self.place(*p, out);
                out.push('}');
            }
            Operand::Constant(c) => self.constant(c, out),
            #[allow(unreachable_patterns)]
            _ => {
                out.push_str("{\"k\":\"other\",\"s\":");
                esc(&format!("{:?}", o), out);
                out.push('}');
            }
        }
    }

    fn rvalue(&self, rv: &Rvalue<'tcx>, out: &mut String) {
        match rv {
            Rvalue::Use(op, ..) => {
                out.push_str("{\"k\":\"Use\",\"o\":[");
                self.operand(op, out);
                out.push_str("]}");
            }
            Rvalue::Repeat(op, ct) => {
                out.push_str("{\"k\":\"Repeat\",\"o\":[");
                self.operand(op, out);
                out.push_str("],\"n\":");
                esc(&format!("{}", ct), out);
                out.push('}');
            }
            Rvalue::Ref(_, bk, p) => {
                let m = matches!(bk, rustc_middle::mir::BorrowKind::Mut { .. });
                let _ = write!(out, "{{\"k\":\"Ref\",\"mut\":{},\"p\":", m);
                self.place(*p, out);
                out.push('}');
            }
            Rvalue::RawPtr(_, p) => {
                out.push_str("{\"k\":\"RawPtr\",\"p\":");
                self.place(*p, out);
                out.push('}');
            }
            Rvalue::ThreadLocalRef(d) => {
                out.push_str("{\"k\":\"Tls\",\"s\":");
                esc(&canon_id(self.tcx, *d), out);
                out.push('}');
            }
            Rvalue::Cast(kind, op, ty) => {
                out.push_str("{\"k\":\"Cast\",\"ck\":");
                esc(&trunc(format!("{:?}", kind), 80), out);
                out.push_str(",\"o\":[");
                self.operand(op, out);
                out.push_str("],\"ty\":");
                esc(&trunc(ty_str(*ty), 160), out);
                out.push('}');
            }
            Rvalue::BinaryOp(op, ab) => {
                let _ = write!(out, "{{\"k\":\"Bin\",\"op\":\"{:?}\",\"o\":[", op);
                self.operand(&ab.0, out);
                out.push(',');
                self.operand(&ab.1, out);
                out.push_str("]}");
            }
            Rvalue::UnaryOp(op, a) => {
                let _ = write!(out, "{{\"k\":\"Un\",\"op\":\"{:?}\",\"o\":[", op);
                self.operand(a, out);
                out.push_str("]}");
            }
            Rvalue::Discriminant(p) => {
                out.push_str("{\"k\":\"Discr\",\"p\":");
                self.place(*p, out);
                out.push('}');
            }
            Rvalue::Aggregate(kind, ops) => {
                out.push_str("{\"k\":\"Agg\",\"ak\":");
                match &**kind {
                    AggregateKind::Array(_) => out.push_str("\"array\""),
                    AggregateKind::Tuple => out.push_str("\"tuple\""),
                    AggregateKind::Adt(did, vi, _, _, _) => {
                        out.push_str("\"adt\",\"adt\":");
                        esc(&canon_id(self.tcx, *did), out);
                        let adt = self.tcx.adt_def(*did);
                        let v = adt.variant(*vi);
                        out.push_str(",\"variant\":");
                        esc(&v.name.to_string(), out);
                        out.push_str(",\"fields\":[");
                        for (i, f) in v.fields.iter().enumerate() {
                            if i > 0 {
                                out.push(',');
                            }
                            esc(&f.name.to_string(), out);
                        }
                        out.push(']');
                    }
                    AggregateKind::Closure(did, _) => {
                        out.push_str("\"closure\",\"body\":");
                        esc(&canon_id(self.tcx, *did), out);
                    }
                    AggregateKind::Coroutine(did, _) => {
                        out.push_str("\"coroutine\",\"body\":");
                        esc(&canon_id(self.tcx, *did), out);
                    }
                    AggregateKind::CoroutineClosure(did, _) => {
                        out.push_str("\"coroutine_closure\",\"body\":");
                        esc(&canon_id(self.tcx, *did), out);
                    }
                    AggregateKind::RawPtr(..) => out.push_str("\"rawptr\""),
                }
                out.push_str(",\"o\":[");
                for (i, o) in ops.iter().enumerate() {
                    if i > 0 {
                        out.push(',');
                    }
                    self.operand(o, out);
                }
                out.push_str("]}");
            }
            Rvalue::CopyForDeref(p) => {
                out.push_str("{\"k\":\"Use\",\"o\":[{\"k\":\"cp\",\"p\":");
                self.place(*p, out);
                out.push_str("}]}");
            }
            #[allow(unreachable_patterns)]
            other => {
                out.push_str("{\"k\":\"Other\",\"s\":");
                esc(&trunc(format!("{:?}", other), 200), out);
                out.push('}');
            }
        }
    }

    fn span_fields(&self, sp: Span, body_file: &str, out: &mut String) {
        let (line, expn, file) = self.line(sp);
        let _ = write!(out, "\"l\":{},\"x\":{}", line, if expn { 1 } else { 0 });
        if file != body_file {
            out.push_str(",\"file\":");
            esc(&file, out);
        }
    }

    fn unwind(&self, u: &UnwindAction) -> Option<BasicBlock> {
        match u {
            UnwindAction::Cleanup(bb) => Some(*bb),
            _ => None,
        }
    }
}


fn body_json<'a, 'tcx>(cx: &Cx<'a, 'tcx>, file: &str, out: &mut String) {
    let body = cx.body;
    let tcx = cx.tcx;
    // locals
    out.push_str(",\"locals\":[");
    let mut names: Vec<Option<String>> = vec![None; body.local_decls.len()];
    for vdi in &body.var_debug_info {
        if let rustc_middle::mir::VarDebugInfoContents::Place(p) = vdi.value {
            if p.projection.is_empty() {
                names[p.local.as_usize()] = Some(vdi.name.to_string());
            }
        }
    }
    for (i, (_l, decl)) in body.local_decls.iter_enumerated().enumerate() {
        if i > 0 {
            out.push(',');
        }
        out.push_str("{\"ty\":");
        esc(&trunc(ty_str(decl.ty), 300), out);
        if let Some(n) = &names[i] {
            out.push_str(",\"n\":");
            esc(n, out);
        }
        if decl.is_user_variable() {
            out.push_str(",\"u\":1");
        }
        out.push('}');
    }
    out.push(']');
    // upvar debug names (closure captures by field path)
    out.push_str(",\"blocks\":[");
    for (bi, (_bb, data)) in body.basic_blocks.iter_enumerated().enumerate() {
        if bi > 0 {
            out.push(',');
        }
        let _ = write!(out, "{{\"c\":{},\"s\":[", if data.is_cleanup { 1 } else { 0 });
        let mut first = true;
        for st in &data.statements {
            match &st.kind {
                StatementKind::Assign(b) => {
                    if !first {
                        out.push(',');
                    }
                    first = false;
                    out.push_str("{\"p\":");
                    cx.place(b.0, out);
                    out.push_str(",\"r\":");
                    cx.rvalue(&b.1, out);
                    out.push(',');
                    cx.span_fields(st.source_info.span, file, out);
                    out.push('}');
                }
                StatementKind::SetDiscriminant { place, variant_index } => {
                    if !first {
                        out.push(',');
                    }
                    first = false;
                    out.push_str("{\"p\":");
                    cx.place(**place, out);
                    let _ = write!(
                        out,
                        ",\"r\":{{\"k\":\"SetDiscr\",\"v\":{}}},",
                        variant_index.as_u32()
                    );
                    cx.span_fields(st.source_info.span, file, out);
                    out.push('}');
                }
                _ => {}
            }
        }
        out.push_str("],\"t\":");
        let term = data.terminator();
        let sp = term.source_info.span;
        match &term.kind {
            TerminatorKind::Goto { target } => {
                let _ = write!(out, "{{\"k\":\"Goto\",\"t\":{}}}", target.as_u32());
            }
            TerminatorKind::FalseEdge { real_target, .. } => {
                let _ = write!(out, "{{\"k\":\"Goto\",\"t\":{}}}", real_target.as_u32());
            }
            TerminatorKind::FalseUnwind { real_target, .. } => {
                let _ = write!(out, "{{\"k\":\"Goto\",\"t\":{}}}", real_target.as_u32());
            }
            TerminatorKind::SwitchInt { discr, targets } => {
                out.push_str("{\"k\":\"Switch\",\"d\":");
                cx.operand(discr, out);
                out.push_str(",\"v\":[");
                for (i, (v, t)) in targets.iter().enumerate() {
                    if i > 0 {
                        out.push(',');
                    }
                    let _ = write!(out, "[\"{}\",{}]", v, t.as_u32());
                }
                let _ = write!(out, "],\"o\":{},", targets.otherwise().as_u32());
                cx.span_fields(sp, file, out);
                out.push('}');
            }
            TerminatorKind::Return => out.push_str("{\"k\":\"Return\"}"),
            TerminatorKind::Unreachable => out.push_str("{\"k\":\"Unreachable\"}"),
            TerminatorKind::UnwindResume => out.push_str("{\"k\":\"Resume\"}"),
            TerminatorKind::UnwindTerminate(_) => out.push_str("{\"k\":\"Terminate\"}"),
            TerminatorKind::CoroutineDrop => out.push_str("{\"k\":\"CoroutineDrop\"}"),
            TerminatorKind::Drop { place, target, unwind, .. } => {
                out.push_str("{\"k\":\"Drop\",\"p\":");
                cx.place(*place, out);
                let pty = place.ty(&body.local_decls, tcx).ty;
                out.push_str(",\"ty\":");
                esc(&trunc(ty_str(pty), 200), out);
                let _ = write!(out, ",\"t\":{}", target.as_u32());
                if let Some(u) = cx.unwind(unwind) {
                    let _ = write!(out, ",\"u\":{}", u.as_u32());
                }
                out.push(',');
                cx.span_fields(sp, file, out);
                out.push('}');
            }
            TerminatorKind::Call { func, args, destination, target, unwind, fn_span, .. } => {
                out.push_str("{\"k\":\"Call\",\"f\":");
                cx.operand(func, out);
                out.push_str(",\"a\":[");
                for (i, a) in args.iter().enumerate() {
                    if i > 0 {
                        out.push(',');
                    }
                    cx.operand(&a.node, out);
                }
                out.push_str("],\"at\":[");
                for (i, a) in args.iter().enumerate() {
                    if i > 0 {
                        out.push(',');
                    }
                    let aty = a.node.ty(&body.local_decls, tcx);
                    esc(&trunc(ty_str(aty), 200), out);
                }
                out.push_str("],\"d\":");
                cx.place(*destination, out);
                if let Some(t) = target {
                    let _ = write!(out, ",\"t\":{}", t.as_u32());
                }
                if let Some(u) = cx.unwind(unwind) {
                    let _ = write!(out, ",\"u\":{}", u.as_u32());
                }
                out.push(',');
                cx.span_fields(*fn_span, file, out);
                out.push('}');
            }
            TerminatorKind::TailCall { func, args, fn_span } => {
                out.push_str("{\"k\":\"Call\",\"tail\":1,\"f\":");
                cx.operand(func, out);
                out.push_str(",\"a\":[");
                for (i, a) in args.iter().enumerate() {
                    if i > 0 {
                        out.push(',');
                    }
                    cx.operand(&a.node, out);
                }
                out.push_str("],\"at\":[],\"d\":[0],");
                cx.span_fields(*fn_span, file, out);
                out.push('}');
            }
            TerminatorKind::Assert { cond, expected, msg, target, unwind } => {
                out.push_str("{\"k\":\"Assert\",\"c\":");
                cx.operand(cond, out);
                let mk = match &**msg {
                    rustc_middle::mir::AssertKind::BoundsCheck { .. } => "BoundsCheck".to_string(),
                    rustc_middle::mir::AssertKind::Overflow(op, ..) => format!("Overflow({:?})", op),
                    rustc_middle::mir::AssertKind::OverflowNeg(..) => "OverflowNeg".to_string(),
                    rustc_middle::mir::AssertKind::DivisionByZero(..) => "DivisionByZero".to_string(),
                    rustc_middle::mir::AssertKind::RemainderByZero(..) => "RemainderByZero".to_string(),
                    _ => "Other".to_string(),
                };
                let _ = write!(
                    out,
                    ",\"e\":{},\"m\":\"{}\",\"t\":{}",
                    expected,
                    mk,
                    target.as_u32()
                );
                if let Some(u) = cx.unwind(unwind) {
                    let _ = write!(out, ",\"u\":{}", u.as_u32());
                }
                out.push(',');
                cx.span_fields(sp, file, out);
                out.push('}');
            }
            TerminatorKind::Yield { value, resume, drop, .. } => {
                out.push_str("{\"k\":\"Yield\",\"v\":");
                cx.operand(value, out);
                let _ = write!(out, ",\"t\":{}", resume.as_u32());
                if let Some(d) = drop {
                    let _ = write!(out, ",\"drop\":{}", d.as_u32());
                }
                out.push(',');
                cx.span_fields(sp, file, out);
                out.push('}');
            }
            TerminatorKind::InlineAsm { targets, .. } => {
                out.push_str("{\"k\":\"Asm\",\"ts\":[");
                for (i, t) in targets.iter().enumerate() {
                    if i > 0 {
                        out.push(',');
                    }
                    let _ = write!(out, "{}", t.as_u32());
                }
                out.push_str("]}");
            }
        }
        out.push('}');
    }
    out.push(']');
}

fn dump_body<'tcx>(tcx: TyCtxt<'tcx>, def: LocalDefId) {
    {
        let mut seen = SEEN.lock().unwrap();
        let set = seen.get_or_insert_with(HashSet::new);
        if !set.insert(def.local_def_index.as_u32()) {
            return;
        }
    }
    let (steal, _promoted) = tcx.mir_promoted(def);
    if steal.is_stolen() {
        let mut s = String::new();
        s.push_str("{\"rec\":\"stolen\",\"id\":");
        esc(&canon_id(tcx, def.to_def_id()), &mut s);
        s.push('}');
        OUT.lock().unwrap().push(s);
        return;
    }
    let body = steal.borrow();
    let body: &Body<'tcx> = &body;
    let did = def.to_def_id();
    let tenv = TypingEnv::post_analysis(tcx, did);
    let cx = Cx { tcx, body, def, tenv };
    let _ = cx.def;
    let mut out = String::with_capacity(4096);
    let kind = tcx.def_kind(did);
    let (l0, _, file) = cx.line(body.span);
    let sm = tcx.sess.source_map();
    let l1 = sm.lookup_char_pos(body.span.source_callsite().hi()).line as u32;
    out.push_str("{\"rec\":\"body\",\"id\":");
    esc(&canon_id(tcx, did), &mut out);
    out.push_str(",\"name\":");
    esc(&np!(tcx.def_path_str(did)), &mut out);
    out.push_str(",\"krate\":");
    esc(&tcx.crate_name(LOCAL_CRATE).to_string(), &mut out);
    let _ = write!(out, ",\"kind\":\"{:?}\"", kind);
    let _ = write!(out, ",\"coroutine\":{}", body.coroutine.is_some());
    let _ = write!(out, ",\"expn\":{}", body.span.from_expansion());
    // parent body (closures / coroutines / inline consts)
    let tr = tcx.typeck_root_def_id(did);
    if tr != did {
        out.push_str(",\"root\":");
        esc(&canon_id(tcx, tr), &mut out);
        let parent = tcx.parent(did);
        out.push_str(",\"parent\":");
        esc(&canon_id(tcx, parent), &mut out);
    }
    // item name, impl self type and trait
    let owner = tr;
    if let Some(name) = tcx.opt_item_name(owner) {
        out.push_str(",\"item\":");
        esc(&name.to_string(), &mut out);
    }
    if matches!(tcx.def_kind(owner), DefKind::AssocFn | DefKind::AssocConst { .. }) {
        if let Some(imp) = tcx.impl_of_assoc(owner) {
            let sty = tcx.type_of(imp).instantiate_identity().skip_norm_wip();
            out.push_str(",\"self_ty\":");
            esc(&ty_str(sty), &mut out);
            if let ty::Adt(adt, _) = sty.kind() {
                out.push_str(",\"self_adt\":");
                esc(&canon_id(tcx, adt.did()), &mut out);
            }
            if let Some(trf) = tcx.impl_opt_trait_ref(imp) {
                let trf = trf.instantiate_identity().skip_norm_wip();
                out.push_str(",\"trait\":");
                esc(&np!(tcx.def_path_str(trf.def_id)), &mut out);
                if let Some(ai) = tcx.opt_associated_item(owner) {
                    if let Some(ti) = ai.trait_item_def_id() {
                        out.push_str(",\"trait_item\":");
                        esc(&canon_id(tcx, ti), &mut out);
                    }
                }
            }
        } else if let Some(tr) = tcx.trait_of_assoc(owner) {
            out.push_str(",\"in_trait\":");
            esc(&np!(tcx.def_path_str(tr)), &mut out);
        }
    }
    if matches!(tcx.def_kind(owner), DefKind::Fn | DefKind::AssocFn) {
        let vis = tcx.visibility(owner);
        let _ = write!(out, ",\"pub\":{}", vis.is_public());
        // #[target_feature(enable = "..")] of the owning function (C09: feature-gated dispatch)
        let attrs = tcx.codegen_fn_attrs(owner);
        if !attrs.target_features.is_empty() {
            out.push_str(",\"tf\":[");
            let mut first = true;
            for f in attrs.target_features.iter() {
                // only what the attribute names; features the ISA implies are the rules' business
                if format!("{:?}", f.kind) == "Implied" {
                    continue;
                }
                if !first {
                    out.push(',');
                }
                first = false;
                esc(&f.name.to_string(), &mut out);
            }
            out.push(']');
        }
    }
    out.push_str(",\"file\":");
    esc(&file, &mut out);
    let _ = write!(out, ",\"lines\":[{},{}]", l0, l1);
    let _ = write!(out, ",\"argc\":{}", body.arg_count);
    body_json(&cx, &file, &mut out);
    out.push_str(",\"promoted\":[");
    for (pi, (_p, pbody)) in _promoted.borrow().iter_enumerated().enumerate() {
        if pi > 0 {
            out.push(',');
        }
        let pcx = Cx { tcx, body: pbody, def, tenv };
        out.push_str("{\"x\":0");
        body_json(&pcx, &file, &mut out);
        out.push('}');
    }
    out.push_str("]}");
    OUT.lock().unwrap().push(out);
}

fn dump_tables<'tcx>(tcx: TyCtxt<'tcx>) {
    let mut lines = Vec::new();
    for id in tcx.hir_free_items() {
        let did = id.owner_id.to_def_id();
        match tcx.def_kind(did) {
            DefKind::Struct | DefKind::Enum | DefKind::Union => {
                let adt = tcx.adt_def(did);
                let mut s = String::new();
                s.push_str("{\"rec\":\"adt\",\"id\":");
                esc(&canon_id(tcx, did), &mut s);
                s.push_str(",\"name\":");
                esc(&np!(tcx.def_path_str(did)), &mut s);
                let _ = write!(s, ",\"kind\":\"{:?}\",\"variants\":[", tcx.def_kind(did));
                for (vi, v) in adt.variants().iter_enumerated() {
                    if vi.as_u32() > 0 {
                        s.push(',');
                    }
                    s.push_str("{\"name\":");
                    esc(&v.name.to_string(), &mut s);
                    if adt.is_enum() {
                        let d = adt.discriminant_for_variant(tcx, vi);
                        let _ = write!(s, ",\"discr\":\"{}\"", d.val);
                    }
                    s.push_str(",\"fields\":[");
                    for (fi, f) in v.fields.iter().enumerate() {
                        if fi > 0 {
                            s.push(',');
                        }
                        s.push_str("{\"n\":");
                        esc(&f.name.to_string(), &mut s);
                        s.push_str(",\"ty\":");
                        let fty = tcx.type_of(f.did).instantiate_identity().skip_norm_wip();
                        esc(&trunc(ty_str(fty), 300), &mut s);
                        if f.vis.is_public() {
                            s.push_str(",\"pub\":true");
                        }
                        s.push('}');
                    }
                    s.push_str("]}");
                }
                s.push_str("]}");
                lines.push(s);
            }
            DefKind::Impl { .. } => {
                let mut s = String::new();
                s.push_str("{\"rec\":\"impl\",\"id\":");
                esc(&canon_id(tcx, did), &mut s);
                let sty = tcx.type_of(did).instantiate_identity().skip_norm_wip();
                s.push_str(",\"self_ty\":");
                esc(&ty_str(sty), &mut s);
                if let ty::Adt(adt, _) = sty.kind() {
                    s.push_str(",\"self_adt\":");
                    esc(&canon_id(tcx, adt.did()), &mut s);
                }
                if let Some(trf) = tcx.impl_opt_trait_ref(did) {
                    let trf = trf.instantiate_identity().skip_norm_wip();
                    s.push_str(",\"trait\":");
                    esc(&np!(tcx.def_path_str(trf.def_id)), &mut s);
                    s.push_str(",\"trait_full\":");
                    esc(&trunc(np!(format!("{:?}", trf)), 300), &mut s);
                }
                s.push_str(",\"items\":[");
                let mut first = true;
                for ai in tcx.associated_items(did).in_definition_order() {
                    if !matches!(ai.kind, ty::AssocKind::Fn { .. }) {
                        continue;
                    }
                    if !first {
                        s.push(',');
                    }
                    first = false;
                    s.push_str("{\"name\":");
                    esc(&ai.name().to_string(), &mut s);
                    s.push_str(",\"id\":");
                    esc(&canon_id(tcx, ai.def_id), &mut s);
                    if let Some(ti) = ai.trait_item_def_id() {
                        s.push_str(",\"trait_item\":");
                        esc(&canon_id(tcx, ti), &mut s);
                    }
                    s.push('}');
                }
                s.push_str("]}");
                lines.push(s);
            }
            DefKind::Trait => {
                // provided (default) methods: a trait-method call that stays unresolved may run these
                let mut s = String::new();
                s.push_str("{\"rec\":\"trait\",\"id\":");
                esc(&canon_id(tcx, did), &mut s);
                s.push_str(",\"name\":");
                esc(&np!(tcx.def_path_str(did)), &mut s);
                s.push_str(",\"items\":[");
                let mut first = true;
                for ai in tcx.associated_items(did).in_definition_order() {
                    if !matches!(ai.kind, ty::AssocKind::Fn { .. }) {
                        continue;
                    }
                    if !first {
                        s.push(',');
                    }
                    first = false;
                    s.push_str("{\"name\":");
                    esc(&ai.name().to_string(), &mut s);
                    s.push_str(",\"id\":");
                    esc(&canon_id(tcx, ai.def_id), &mut s);
                    let _ = write!(s, ",\"default\":{}}}", ai.defaultness(tcx).has_value());
                }
                s.push_str("]}");
                lines.push(s);
            }
            _ => {}
        }
    }
    OUT.lock().unwrap().extend(lines);
}

struct Cb;

impl rustc_driver::Callbacks for Cb {
    fn config(&mut self, config: &mut rustc_interface::Config) {
        config.override_queries = Some(|_sess, providers| {
            providers.queries.mir_borrowck = |tcx, def| {
                dump_body(tcx, def);
                for n in tcx.nested_bodies_within(def) {
                    dump_body(tcx, n);
                }
                (rustc_interface::DEFAULT_QUERY_PROVIDERS.queries.mir_borrowck)(tcx, def)
            };
        });
    }

    fn after_analysis<'tcx>(
        &mut self,
        _compiler: &rustc_interface::interface::Compiler,
        tcx: TyCtxt<'tcx>,
    ) -> rustc_driver::Compilation {
        // make sure every body owner went through borrowck (and therefore through dump_body)
        for def in tcx.hir_body_owners() {
            let root = tcx.typeck_root_def_id(def.to_def_id());
            if root == def.to_def_id() {
                let _ = tcx.mir_borrowck(def);
            }
        }
        dump_tables(tcx);
        let dir = match std::env::var("VERIF_FACTS_DIR") {
            Ok(d) => d,
            Err(_) => return rustc_driver::Compilation::Continue,
        };
        let krate = tcx.crate_name(LOCAL_CRATE).to_string();
        let ctypes: Vec<String> =
            tcx.crate_types().iter().map(|c| format!("{:?}", c).to_lowercase()).collect();
        let is_test = tcx.sess.opts.test;
        let mut fname = format!("{}.{}", krate, ctypes.join("-"));
        if is_test {
            fname.push_str(".test");
        }
        // distinguish several bin/example targets with the same crate name/type by source file
        let src = tcx
            .sess
            .local_crate_source_file()
            .map(|p| format!("{:?}", p))
            .unwrap_or_default();
        let mut h: u32 = 2166136261;
        for b in src.bytes() {
            h = (h ^ (b as u32)).wrapping_mul(16777619);
        }
        let path = format!("{}/{}.{:08x}.jsonl", dir, fname, h);
        let mut data = String::new();
        let mut hdr = String::new();
        hdr.push_str("{\"rec\":\"crate\",\"krate\":");
        esc(&krate, &mut hdr);
        hdr.push_str(",\"src\":");
        esc(&src, &mut hdr);
        let _ = write!(hdr, ",\"test\":{},\"types\":\"{}\"}}", is_test, ctypes.join("-"));
        data.push_str(&hdr);
        data.push('\n');
        for l in OUT.lock().unwrap().drain(..) {
            data.push_str(&l);
            data.push('\n');
        }
        let tmp = format!("{}.tmp{}", path, std::process::id());
        std::fs::write(&tmp, data).expect("write facts");
        std::fs::rename(&tmp, &path).expect("rename facts");
        rustc_driver::Compilation::Continue
    }
}

fn main() {
    let mut args: Vec<String> = std::env::args().collect();
    // RUSTC_WORKSPACE_WRAPPER: argv[1] is the real rustc; drop it.
    if args.len() > 1 {
        args.remove(1);
    }
    rustc_driver::run_compiler(&args, &mut Cb);
}
