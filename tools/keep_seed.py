#!/usr/bin/env python3
"""keep_seed.py <Cxx> <mN> <detected: yes|no|partial> <by-rule-or-reason...>  -> /verif/seeded/<Cxx>-<mN>/"""
import json, os, shutil, sys, re
pid, m, det = sys.argv[1], sys.argv[2], sys.argv[3]
by = " ".join(sys.argv[4:])
root = os.environ.get("SEED_ROOT", "/tmp/seed_out")
tag = os.environ.get("SEED_TAG", "")
src = "%s/%s/%s" % (root, pid, m)
dst = "/verif/seeded/%s-%s%s" % (pid, tag, m)
os.makedirs(dst, exist_ok=True)
shutil.copy(os.path.join(src, "patch.diff"), dst)
shutil.copy(os.path.join(src, "demo.rs"), dst)
ver = json.load(open(os.path.join(src, "verify.json")))
readme = open(os.path.join(src, "README.md")).read()
demo_path = re.search(r"crates/[A-Za-z0-9_./-]+\.rs", open(os.path.join(src, "demo_path.txt")).read()).group(0)
meta = {
  "property": pid, "seed": tag + m, "round": 2 if tag else 1,
  "breaks": readme.strip().split("\n\n")[0][:600],
  "needs_to_manifest": "see readme_excerpt",
  "readme_excerpt": readme[:2500],
  "demo_path_in_repo": demo_path,
  "what_i_ran": ["tools/verify_seed.sh %s %s  (scratch worktree /tmp/wt/%s at the pinned commit): git apply patch; cargo nextest run --workspace --no-fail-fast --offline; cargo test --test <demo> with the patch; git apply -R; cargo test --test <demo> without" % (pid, m, pid),
                 "tools/try_seed.sh seeded/%s-%s/patch.diff %s  (git -C /repo apply; ./check %s; git -C /repo checkout -- .)" % (pid, m, pid, pid)],
  "verification": ver,
  "detected_by_check": det, "detected_by": by,
}
if os.environ.get("DET_BEFORE"):
    # round 2: what the checks said BEFORE any rule was added or changed in response to this seed
    meta["detected_before_strengthening"] = os.environ["DET_BEFORE"]
if os.environ.get("BATTERY_PROPERTY"):
    meta["battery_property"] = os.environ["BATTERY_PROPERTY"]
json.dump(meta, open(os.path.join(dst, "meta.json"), "w"), indent=1)
print("kept", dst)
