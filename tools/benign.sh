#!/bin/bash
# benign.sh [dir-of-/verif] : the benign battery - 24 behaviour-preserving refactorings written by sub-agents that saw no part of /verif
# (benign/rf*.diff, each with its no-op argument in rf*.md; the existing suite passes with each). Every check must stay silent on every one.
V=${1:-/verif}
cd $V
FAIL=0
for f in $V/benign/rf*.diff; do
  echo "=== $(basename $f)"
  tools/try_all.sh $f || FAIL=1
done
exit $FAIL
