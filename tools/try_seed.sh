#!/bin/bash
# try_seed.sh <patch.diff> <Cxx> : apply a seeded patch to /repo, run ./check <Cxx>, undo. (never commits)
set -u
P=$(readlink -f "$1"); ID=$2
cd /repo && git diff --quiet || { echo "/repo dirty, refusing"; exit 2; }
git -C /repo apply "$P" || { git -C /repo apply --3way "$P" || { echo "patch does not apply"; exit 2; }; }
cd /verif && VERIF_EVIDENCE_DIR=${TMPDIR:-/tmp}/verif-try-evidence ./check $ID; RC=$?
git -C /repo checkout -- . ; git -C /repo reset -q
echo "check rc=$RC"
exit $RC
