#!/bin/bash
# try_seed.sh <patch.diff> <Cxx> : apply a seeded patch to /repo (as the battery does: patch_current.diff if present, patch -p1 --fuzz=3),
# run ./check <Cxx>, undo. Never commits; /repo is restored with `git reset --hard HEAD` on every exit path.
set -u
P=$(readlink -f "$1"); ID=$2
[ -f "$(dirname $P)/patch_current.diff" ] && [ "$(basename $P)" = "patch.diff" ] && P=$(dirname $P)/patch_current.diff
cd /repo && [ -z "$(git status --porcelain)" ] || { echo "/repo dirty, refusing"; exit 2; }
restore() { git -C /repo reset -q --hard HEAD; git -C /repo clean -fdq -e target; }
if ! patch -p1 --fuzz=3 -s -i "$P" >/dev/null 2>&1; then restore; echo "patch does not apply"; exit 2; fi
find /repo/crates -name "*.orig" -delete 2>/dev/null
cd /verif && VERIF_EVIDENCE_DIR=${TMPDIR:-/tmp}/verif-try-evidence ./check $ID; RC=$?
restore
echo "check rc=$RC"
exit $RC
