#!/bin/bash
# verify_seed.sh <Cxx> <mN> : confirm a seeded change in its scratch worktree:
#   with patch: workspace tests pass, demo fails; without patch: demo passes.
# Writes /tmp/seed_out/<id>/<m>/verify.json
set -u
ID=$1; M=$2
WT=${WT_PREFIX:-/tmp/wt/}$ID; OUT=${SEED_ROOT:-/tmp/seed_out}/$ID/$M
export CARGO_NET_OFFLINE=true
cd $WT || exit 2
git checkout -q -- . ; git clean -fdq -e target
DEMO_PATH=$(grep -oE 'crates/[A-Za-z0-9_./-]+\.rs' $OUT/demo_path.txt | head -1)
[ -z "$DEMO_PATH" ] && { echo "no demo path"; exit 2; }
CRATE=$(echo $DEMO_PATH | cut -d/ -f2)
KIND=$(echo $DEMO_PATH | cut -d/ -f3)
NAME=$(basename $DEMO_PATH .rs)
git apply $OUT/patch.diff || { echo '{"applies":false}' > $OUT/verify.json; exit 1; }
# 1. existing suite with the patch
cargo nextest run --workspace --no-fail-fast --offline > $OUT/verify_suite.log 2>&1
SUITE_RC=$?
SUITE_SUMMARY=$(grep -E "Summary|tests run" $OUT/verify_suite.log | tail -1)
# 2. demo with the patch
mkdir -p $(dirname $DEMO_PATH); cp $OUT/demo.rs $DEMO_PATH
if [ "$KIND" = "examples" ]; then
  cargo run -p $CRATE --example $NAME --offline > $OUT/verify_demo_with.log 2>&1; WITH_RC=$?
else
  cargo test -p $CRATE --test $NAME --offline > $OUT/verify_demo_with.log 2>&1; WITH_RC=$?
fi
# 3. demo without the patch
git apply -R $OUT/patch.diff
if [ "$KIND" = "examples" ]; then
  cargo run -p $CRATE --example $NAME --offline > $OUT/verify_demo_without.log 2>&1; WITHOUT_RC=$?
else
  cargo test -p $CRATE --test $NAME --offline > $OUT/verify_demo_without.log 2>&1; WITHOUT_RC=$?
fi
rm -f $DEMO_PATH; git checkout -q -- . ; git clean -fdq -e target
python3 - <<PY
import json
json.dump({"applies":True,"suite_rc_with_patch":$SUITE_RC,"suite_summary":"""$SUITE_SUMMARY""".strip(),
 "demo_rc_with_patch":$WITH_RC,"demo_rc_without_patch":$WITHOUT_RC,
 "confirmed": ($SUITE_RC==0 and $WITH_RC!=0 and $WITHOUT_RC==0)}, open("$OUT/verify.json","w"), indent=1)
PY
cat $OUT/verify.json
