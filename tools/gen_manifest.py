#!/usr/bin/env python3
"""Generates /verif/MANIFEST.json from the table below + which rules/<cxx>.py exist."""
import json, os
V = os.path.dirname(os.path.dirname(os.path.abspath(__file__)))
props = [json.loads(l) for l in open(os.path.join(V, "properties.jsonl"))]

CLAIMS = {
 "C05": dict(
    text="Decides structural necessary conditions of the persistent-map property on every path of the analysed functions: no capacity-limited append result is dropped (so a mutator's bool cannot lie), add_entry's flush-and-retry shape, update-section-first / newest-first / tombstone precedence with sibling agreement, dirty marking of every ResidencyDb mutator and clear-after-rename in save, and superset maintenance of the residency fast-path filter. Does not decide map equivalence over histories (value level).",
    note="Trusted: rustc MIR + callee resolution; rules/c05.py tables (method names matched by (type, method)); flow-insensitive slices. Not decided: merge ordering, reload equality.",
    technique="MIR dataflow: result-consumption (E-gate), must-pass-through on CFG, iterator-direction typing, who-may-call on a field",
    ref="§3 C05"),
 "C06": dict(
    text="Decides the publish protocol of every save routine on all CFG paths (= all crash points between steps): temp path distinct from destination, truncating create, explicit BufWriter flush before sync, sync on every path to the rename with its error edge not reaching the rename, no write after sync, rename only after the writer's Ok; no in-place rewrite of checksummed state in the state modules; loaders filter on the final name. Does not execute crashes; what a reopen shows is not decided.",
    note="Trusted: POSIX rename/fsync semantics; modelled-externals table (fs/tokio::fs/libc calls) in rules/c06.py; holder tracking of the File through BufWriter/refs. Directory fsync not required by the property.",
    technique="MIR must-pass-through / ordering analysis between file creation, flush, sync and rename; who-writes-in-place discovery",
    ref="§3 C06"),
 "C12": dict(
    text="Decides on every path: no lock is re-acquired (directly or transitively in a callee) while its guard is live (self-deadlock => 'every call returns' fails on all schedules); validation failure/error edges never reach a serving return or a layer put and purge the key first; layers are searched first-to-last with miss/error fall-through; remove/clear/batch operations run the per-layer/per-item operation on every loop iteration; no sync guard across await. Does not decide coherence over histories with eviction.",
    note="Trusted: lock identity by (struct, field) with &self denoting one object; modelled lock APIs (std, parking_lot, tokio, dashmap) in rules/locks.py; pre-borrowck MIR drop placement.",
    technique="guard-liveness dataflow + transitive acquire summaries over the call graph (E-lock); edge-reachability gating on Result/bool switches",
    ref="§3 C12"),
}
NA = {
 "C08": "round-trip equality over all accepted inputs is value-level; the only structural proxy (reader/writer primitive-sequence matching) is a frozen-shape match that would fire on behaviour-preserving edits",
 "C09": "cipher/hash functional correctness and SIMD=scalar equivalence are value-level; comparing unrolled source tables with published constants is a frozen-fragment proxy",
}

checks, na = [], []
for p in props:
    pid = p["id"]
    have = os.path.exists(os.path.join(V, "rules", pid.lower() + ".py"))
    if pid in CLAIMS and have:
        c = CLAIMS[pid]
        checks.append({
            "property_id": pid,
            "quick_cmd": "./check %s --tier quick" % pid,
            "thorough_cmd": "./check %s --tier thorough" % pid,
            "evidence_file": "evidence/%s.json" % pid,
            "replay_cmd_template": "./check %s --replay {path}" % pid,
            "engine": "mir-rules",
            "level_claimed": {"category": "other", "text": c["text"], "design_ref": c["ref"]},
            "level_note": c["note"],
            "technique": "static analysis: " + c["technique"],
        })
    elif pid in NA:
        na.append({"property_id": pid, "reason": NA[pid]})
    else:
        na.append({"property_id": pid, "reason": "static check designed in DESIGN.md but not yet built/armed in this revision; not claimed until its rules run clean on the pinned tree"})

m = {
 "version": 1,
 "setup_cmd": "cd driver && CARGO_NET_OFFLINE=true cargo +nightly build --release --offline",
 "hooks": {"guard": "cascette_verif", "enable": "none needed: static analysis reads /repo as it is (no instrumentation)",
           "baseline_off_cmd": "cd /repo && cargo nextest run --workspace --no-fail-fast --offline || cargo test --workspace --no-fail-fast --offline",
           "source_commits": [], "add_only": True},
 "engines": [
   {"name": "mir-facts", "path": "driver/", "serves_properties": [c["property_id"] for c in checks],
    "kind_free_text": "rustc_private driver (nightly) dumping pre-borrowck MIR of every workspace body as JSON facts; run as RUSTC_WORKSPACE_WRAPPER under cargo check on /repo's working tree"},
   {"name": "mir-rules", "path": "rules/", "serves_properties": [c["property_id"] for c in checks],
    "kind_free_text": "Python rule engines over the facts: call graph, CFG dominators / must-pass-through, backward slices, result gating, guard liveness and lock summaries; per-property rule tables; fail-closed anchors and floors; known_findings.json"},
 ],
 "checks": checks,
 "not_applicable": na,
 "notes": "All checks are static analyses of /repo's current working tree (facts are re-extracted whenever any .rs/Cargo file changes; cache under .cache/). Exit 0 = rules hold (KNOWN-FINDING lines for recorded genuine defects), 1 = new violation, 2 = checker error.",
}
json.dump(m, open(os.path.join(V, "MANIFEST.json"), "w"), indent=1)
print("checks:", [c["property_id"] for c in checks], "na:", [n["property_id"] for n in na])
