#!/usr/bin/env python3
"""Generates /verif/MANIFEST.json from the table below + which rules/<cxx>.py exist."""
import json, os
V = os.path.dirname(os.path.dirname(os.path.abspath(__file__)))
props = [json.loads(l) for l in open(os.path.join(V, "properties.jsonl"))]

CLAIMS = {
 "C01": dict(
    text="Decides structural necessary conditions of BLTE identity on every path: each cipher block index an encoder hands out derives from the chunk's global position (the decoder's enumerate index), mode-byte / supported-mode / cipher-type tables agree between encoder and decoder, decoder size bounds equal the documented cap, chunk-table fields derive from the chunk they describe. Does not decide that compress/decompress or encrypt/decrypt are inverse functions (value level). Also: the decoder's block index enumerates the unfiltered chunk list; an absolute seek in the BLTE readers restores a saved position; what is encrypted is the inner payload (mode byte + data) on every path.",
    note="Trusted: rustc MIR; flow-insensitive slices; anchors by (type, method). Not decided: codec inverses, boundary sizes, >4 GiB casts.",
    technique="MIR backward slicing (provenance of the block index), table extraction from SwitchInt/discriminants, sibling agreement", ref="§3 C01"),
 "C02": dict(
    text="Decides, over the call-graph closure of every byte-parser entry (role discovery, 240+ entries, 800+ bodies): no explicit panic API is reachable (R1); no allocation size derives from an input integer wider than 16 bits without a bound, binrw-argument sizes being decided at the parser callers (R2); every slice / array / Vec index, range index, split_at and copy_from_slice is PROVEN in bounds by a relational abstract interpretation (E-bounds: linear facts over immutable value atoms, helper preconditions checked at call sites, validator postconditions) or, when unproven and its index or length derives from parser input, reported unless discharged by key with the missing arithmetic written down and its premise re-checked (R3); no u8/u16/u32 addition, multiplication or subtraction on input-derived operands (and no u64 multiplication of a number parsed from text) can leave its type (R4); every recursive call-graph cycle in the closure carries a depth counter compared with a limit (R5). Unproven sites that do not derive from input, wide-integer overflow, subtraction underflow and loop termination are NOT decided and are counted in the evidence.",
    note="Trusted: dependency-aware over-approximate dispatch; per-(struct,field)/per-local taint; E-bounds models integers as mathematical values and containers by (local, version) with conservative invalidation; helper preconditions are checked at in-closure call sites only. 25 R3 sites in 6 functions (non-linear bounds), 1 R2 site and 2 R1 sites are discharged by exact key with a written reason; one discharge re-checks its premise on every run.",
    technique="call-graph reachability (E-reach) + interprocedural taint slicing with sanitizer idioms (E-slice) + relational abstract interpretation of index bounds over MIR (E-bounds, rules/bounds.py)", ref="§3 C02"),
 "C03": dict(
    text="Decides two sibling-agreement clauses only: the root header-layout predicate of the version detector equals the reader's (comparison atoms on the first two u32 values), and every archive-index page-to-entry mapping uses the footer-derived records-per-page. Lookup correctness itself is value-level and not decided. Also: the k-way archive-group merge advances the popped source on every iteration path; every FileDataId delta decoder reachable from the root block parsers yields one id per delta.",
    note="Trusted: atom extraction from Bin comparisons / Range::contains incl. promoted constants. Everything else in C03 is declared not decided.",
    technique="sibling cross-check of extracted predicate atoms (E-table)", ref="§3 C03"),
 "C04": dict(
    text="Decides on every path: the archive read snapshot is re-established after a growing write unless skipped by a pure fresh-length vs mapped-length comparison; decoded bytes never flow into a second BLTE decoder; write-position/index bookkeeping only after a successful archive write with that write's results; the reader sniffs the writer's own record layout first; index de-duplication keeps the newest record. Byte equality and reopen behaviour are not decided. Also: the Err of every fallible persistence call (save/flush/sync/write/rename/append/put) in cascette-client-storage is propagated or escapes - swallow sites are a frozen, reasoned table of 7 (E-err); the index lookup precedence of C05.R3 is an obligation here as well.",
    note="Trusted: decoder discovery by transitive BlteFile::parse callers within the crate; anchors by (type, method).",
    technique="MIR must-pass-through on the CFG, forward value flow between decoder calls, result-edge gating", ref="§3 C04"),
 "C05": dict(
    text="Decides structural necessary conditions of the persistent-map property on every path of the analysed functions: no capacity-limited append result is dropped (so a mutator's bool cannot lie), add_entry's flush-and-retry shape, update-section-first / newest-first / tombstone precedence with sibling agreement, latest-wins de-duplication, dirty marking of every ResidencyDb mutator and clear-after-rename in save, superset maintenance of the residency fast-path filter. Does not decide map equivalence over histories (value level). Also: the flush merge matches every update key (tombstones included) against the sorted section; save_all / flush_all_updates persist every bucket.",
    note="Trusted: rustc MIR + callee resolution; rules/c05.py tables (method names matched by (type, method)); flow-insensitive slices. Not decided: merge ordering, reload equality.",
    technique="MIR dataflow: result-consumption (E-gate), must-pass-through on CFG, iterator-direction typing, who-may-call on a field", ref="§3 C05"),
 "C06": dict(
    text="Decides the publish protocol of every save routine on all CFG paths (= all crash points between steps): temp path distinct from destination, truncating create, explicit BufWriter flush before sync, sync on every path to the rename with its error edge not reaching the rename, no write after sync, rename only after the writer's Ok; no in-place rewrite of checksummed state in the state modules; loaders filter on the final name. Does not execute crashes; what a reopen shows is not decided. Also: on no definition path is the written file the destination itself; a previous-generation file is deleted only after the replacement was written successfully; loaders never read or probe a temp-suffixed path.",
    note="Trusted: POSIX rename/fsync semantics; modelled-externals table (fs/tokio::fs/libc calls) in rules/c06.py; holder tracking of the File through BufWriter/refs. Directory fsync not required by the property.",
    technique="MIR must-pass-through / ordering analysis between file creation, flush, sync and rename; who-writes-in-place discovery", ref="§3 C06"),
 "C07": dict(
    text="Decides: every discovered digest-comparing validator that protects an object the property lists has a caller on a load path and lies on every loader-loop iteration; its failing edge cannot reach an accepting return and its verdict is never discarded; the validated buffer is the one parsed afterwards; comparisons are full width; validate_with_hooks reports valid for a keyed value only through validate_content or the validated flag; skip hooks are pure functions of size; the content-addressed cache serves/stores only through the is_valid edge. That each protected byte is covered by the digest is not decided. Also: a pre-validated keyed value is minted only behind a successful validation; validators that receive the stored bytes hash those bytes (no re-serialisation); an optional epilogue checksum is skipped only through the None edge of its own Option; no read_exact into a provably empty buffer; a validator inside an iterator closure is quantified over all items; the hook fast path is taken only on the validated flag's true edge (edge-sensitive).",
    note="Trusted: validator discovery (digest call + comparison in one body); in-scope table keyed by (type, method) with the protected object's name.",
    technique="validator discovery + call-graph callers + result-edge gating (E-gate) + loop coverage (E-dom)", ref="§3 C07"),
 "C09": dict(
    text="Decides four structural necessary conditions only, none of them a value-level statement: (R1) every call of a #[target_feature] function lies behind the true edge of a test of the CPU-feature flag that implies the feature in the x86 ISA hierarchy, and every construction of the flag struct fills each flag from the matching is_x86_feature_detected (or constant false) - otherwise the helper executes an illegal instruction on some supported host instead of returning what the portable fallback returns; (R2) every x86 vector load/store through slice.as_ptr().add(i).cast() is PROVEN inside the slice (offset + vector width <= len) by the relational abstract interpretation E-bounds; (R3) the two hand-unrolled lookup3 functions add the same key bytes with the same shifts into the same accumulators in each of the 13 tail cases and in the 12-byte block step, each tail case is the next one minus its last byte, the 12-byte case equals the block step, and both run the same mixing functions (symbolic table extraction, sibling agreement - no comparison with a frozen published table); (R4) of each encrypt/decrypt pair one delegates to the other forwarding every parameter unchanged. NOT decided: that Salsa20 / ARC4 / lookup3 / MD5 produce the published outputs, SIMD == scalar equality of results beyond memory safety and dispatch soundness, piecewise == at-once keystream, counter carry.",
    note="Trusted: rustc MIR + codegen_fn_attrs (target features); ISA implication table in rules/c09.py; E-bounds pointer model covers slice.as_ptr().add(i).cast() over u8 only (any other pointer reaching a vector intrinsic is reported as unproven). The CPU-feature struct is assumed to be built by the library's own constructors.",
    technique="dominator analysis of feature-flag tests over resolved #[target_feature] callees, relational abstract interpretation of raw vector accesses (E-bounds), symbolic extraction and sibling comparison of unrolled switch tables", ref="§3 C09 (revised, 10.6)"),
 "C10": dict(
    text="Decides: every config limit in the slice of an eviction trigger is in the slice of the eviction size (else the limit can never be enforced) and the target is not clamped upward; every serving path passes an expiry test whose expired edge does not serve, expired disk entries lose their file; every map insert/remove/clear is paired, on the same path and conditional on its own result, with the matching update of both counters on the cache's own fields. Numeric bounds after each operation are not decided. Also: every path of every single-key put* to an Ok return passes the store (map insert or delegated put); persistence errors in cascette-cache are not swallowed (E-err).",
    note="Trusted: map/counter identification by field name tables per cache type; option_edges for if-let / is_some forms.",
    technique="backward slices over config fields (sibling agreement trigger vs sizing), must-pass-through, paired-effect analysis on Option result edges", ref="§3 C10"),
 "C11": dict(
    text="Decides structural race windows that exist on every schedule: removal acting on a check whose guard/lock section ended without re-validation, byte deltas taken from a stale snapshot, temp-name sharing in routines reachable through &self, lock re-entrancy / lock-order cycles / sync guards across await, non-atomic load..store counter updates, non-exclusive archive allocation. Linearizability itself needs schedules and is not decided. Also: no insert of a value read from the same map under a released guard (snapshot write-back); no exact read sized by a path-based stat; counter decrements sit on the success edge of a removal; a temp name keeps its destination's file name.",
    note="Trusted: lock identity by (struct, field); guard liveness on pre-borrowck MIR; receiver-type reasoning for exclusivity (&mut self).",
    technique="guard-liveness dataflow (E-lock), dominance between look and removal, provenance slices of counter deltas, lock-order graph", ref="§3 C11"),
 "C12": dict(
    text="Decides on every path: no lock is re-acquired (directly or transitively in a callee) while its guard is live (self-deadlock => 'every call returns' fails on all schedules); validation failure/error edges never reach a serving return or a layer put and purge the key first; layers are searched first-to-last with miss/error fall-through; remove/clear/batch operations run the per-layer/per-item operation on every loop iteration; no sync guard across await. Does not decide coherence over histories with eviction. Also: the validation hook fast path (shared with C07.R5).",
    note="Trusted: lock identity by (struct, field) with &self denoting one object; modelled lock APIs (std, parking_lot, tokio, dashmap) in rules/locks.py; pre-borrowck MIR drop placement.",
    technique="guard-liveness dataflow + transitive acquire summaries over the call graph (E-lock); edge-reachability gating on Result/bool switches", ref="§3 C12"),
 "C13": dict(
    text="Decides on every path: HTTPS->HTTP->TCP order, a later protocol only through the earlier one's Err edge and should_retry()==true on that error, success returns at once; cache store unreachable from error edges, stored bytes derive from the built network answer, every successful answer passes the store; validation and cache lookup dominate the network; should_retry's variant/status table contains no definitive refusal; the Ribbit read loop re-evaluates its format sniff per segment. TTL timing and full segmentation independence are not decided. Also: a present V1-MIME epilogue checksum is always validated before the answer is accepted (shared with C07.R10); the document parsers in the clients are given the wire bytes, not a lossily decoded text.",
    note="Trusted: protocol identification by the self field the receiver slices back to; transient-variant table taken from the property text. wasm32 variants not analysed.",
    technique="dominator / edge-reachability analysis on the coroutine CFG, table extraction from SwitchInt (E-table)", ref="§3 C13"),
 "C14": dict(
    text="Decides for RetryPolicy::execute: closed-form attempt bound from counter init, unique +1 per back edge and the exit comparison; every backoff value incl. the initial one is capped by max_backoff; no panicking float->Duration conversion on an unclamped policy value; retry only after should_retry(); Retry-After precedence with an unfiltered hint accessor; jitter in [0,0.3] and added; 429/5xx mapping of closures run under the policy. Wall-clock delays are not decided. Also: the always-retryable ServerError is built only on the is_server_error() edge; the retry hint is read from the Retry-After header only.",
    note="Trusted: loop/counter extraction on Analysis(Initial) MIR (tracing expansions ignored via from_expansion); f64::min/max absorb NaN.",
    technique="loop-counter extraction and closed form (E-table), clamp-presence slices (E-slice), edge gating", ref="§3 C14"),
 "C15": dict(
    text="Decides: no explicit panic reachable from server entry points; every socket read under a timeout and a size bound; one spawned task per connection and no error edge leaves the accept loop; header/row column arity equal and typed columns fed by validated fields (syn AST of format! templates + MIR of BuildRecord::validate); newest build = descending build_time; request arity tests are equalities. End-to-end field equality is not decided. Also: a count-returning read in a loop leaves the loop on its own Ok(0); a response cell is the database field itself (only borrowing / defaulting adaptors); nothing is awaited between accept() and spawn; the product is looked up verbatim; every index / range operation in the server closure is proven in bounds (E-bounds).",
    note="Trusted: astx (syn) template extraction; field-to-validator mapping from MIR slices; config-derived columns are outside the quantifier and only reported as information.",
    technique="call-graph reachability, dominator analysis, AST template/arity matching joined with MIR validator slices (E-ast)", ref="§3 C15"),
 "C16": dict(
    text="Decides: both patchers apply the seek additively and every builder-emitted control triple carries a relative seek (0 or a difference); Ok(output) only through output.len() == parsed header.output_size; a computed seek is emitted on every path of its iteration and applied on every patcher iteration path except seek==0. patch(old,diff(old,new))==new itself is not decided. Also: control entries reach the control block unfiltered; the chunked builder advances its old-file cursor only together with an emitted diff of the same length; the count returned by a read() bounds what is consumed.",
    note="Trusted: position variables identified by name in the patchers (premise check fails closed if they disappear).",
    technique="provenance slices of the seek operand (sibling agreement builder vs patcher), dominator gating of Ok returns", ref="§3 C16"),
 "C17": dict(
    text="Decides slot conservation as an ownership rule (a slot taken out of key_map is pushed to free_list, re-inserted or returned, callers inherit) and sibling agreement of the release protocol (unlink with head and tail maintained, slot blanked) in every releasing body. Recency order equal to a textbook LRU is not decided. Also: the checkpoint serialiser writes the whole slot table it is given.",
    note="Trusted: release sites discovered as HashMap::remove on field key_map; obligations anchored at the Some edge of the removal.",
    technique="ownership/escape analysis of the released slot value over the call graph; sibling cross-check of release actions", ref="§3 C17"),
 "C18": dict(
    text="Decides: overlap validation dominates every file mutation and its Err edge reaches none; the walked slice is sorted in place; validate_spans sorts then scans all adjacent pairs with end(i) > offset(i+1); in-place move only under source > cursor with cursor advance on every iteration; every planned move passed the capacity test; the destination cursor is initialised consistently. Resulting file contents are not decided. Also: the adjacent-pair overlap comparison is evaluated on every iteration.",
    note="Trusted: variables identified by role (write cursor = the local advanced by span.length).",
    technique="dominator / edge-reachability analysis, contradiction rule on cursor initialisation provenance", ref="§3 C18"),
 "C19": dict(
    text="Decides: every bit selector in install/download/size code is 0x80 >> (x % 8) with byte index x / 8 of the same x; every mask allocation has a ceiling division; remove_file rebuilds every tag's mask on every iteration; upper-bound guards on an old-mask read derive from that mask's length; remove_tag re-establishes the name->index map for every remaining tag. Query results against a set model are not decided. Also: selectors are applied as set / clear / test, never toggled; a mask combination in a loop folds its own accumulator.",
    note="Trusted: selector discovery by shift-amount slices reaching Rem 8 / BitAnd 7; recognised re-index idioms (full rebuild, decrement loop).",
    technique="discovery + sibling agreement on extracted shift/divide shapes (E-table), loop coverage", ref="§3 C19"),
 "C20": dict(
    text="Decides: key/endpoint/name strings reach Path::join/push/with_extension only through a confinement check or a charset-safe encoding (slices cut at integers); constant-range slices of runtime-length strings in URL/key builders are guarded or fixed width; CacheKey eq/hash ignore memo fields and every identity field feeds the key string; endpoint whitelist covers every character; the entry's file name contains the key string itself. Filesystem behaviour for long names is not decided. Also: eq/hash reach no memo field through the type's own methods when identity fields are public; String fields of endpoint/key struct parameters are taint sources; a hex piece in a key builder has a fixed width; the key string reaches the file name unmodified.",
    note="Trusted: source tables (as_cache_key results, named string parameters incl. captured upvars of async fns); recognised confinement idioms (Path::components walk, '..'/absolute tests).",
    technique="taint slicing from named string sources to path sinks with encoder cut-offs, dominator-guard search, type-table checks over impl CacheKey", ref="§3 C20"),
}
NA = {
 "C08": "round-trip equality over all accepted inputs is value-level; the only structural proxy (reader/writer primitive-sequence matching) is a frozen-shape match that would fire on behaviour-preserving edits",
}

checks, na = [], []
for p in props:
    pid = p["id"]
    have = os.path.exists(os.path.join(V, "rules", pid.lower() + ".py"))
    if pid in CLAIMS and have:
        c = CLAIMS[pid]
        checks.append({
            "property_id": pid,
            "quick_cmd": "./check %s --tier quick" % pid,
            "thorough_cmd": "./check %s --tier thorough" % pid,
            "evidence_file": "evidence/%s.json" % pid,
            "replay_cmd_template": "./check %s --replay {path}" % pid,
            "engine": "mir-rules",
            "level_claimed": {"category": "other", "text": c["text"], "design_ref": c["ref"]},
            "level_note": c["note"],
            "technique": "static analysis: " + c["technique"],
        })
    elif pid in NA:
        na.append({"property_id": pid, "reason": NA[pid]})
    else:
        na.append({"property_id": pid, "reason": "no claim in this revision"})

m = {
 "version": 1,
 "setup_cmd": "(cd driver && CARGO_NET_OFFLINE=true cargo +nightly build --release --offline) && (cd astx && CARGO_NET_OFFLINE=true cargo build --release --offline)",
 "hooks": {"guard": "cascette_verif", "enable": "none needed: static analysis reads /repo as it is (no instrumentation)",
           "baseline_off_cmd": "cd /repo && cargo nextest run --workspace --no-fail-fast --offline || cargo test --workspace --no-fail-fast --offline",
           "source_commits": [], "add_only": True},
 "engines": [
   {"name": "mir-facts", "path": "driver/", "serves_properties": [c["property_id"] for c in checks],
    "kind_free_text": "rustc_private driver (nightly) dumping pre-borrowck MIR of every workspace body as JSON facts; run as RUSTC_WORKSPACE_WRAPPER under cargo check on /repo's working tree"},
   {"name": "astx", "path": "astx/", "serves_properties": ["C15"],
    "kind_free_text": "syn-based AST extractor for format! templates and their arguments (facts that MIR has already lowered beyond recognition)"},
   {"name": "selftest", "path": "selftest/", "serves_properties": [c["property_id"] for c in checks],
    "kind_free_text": "witness crate analysed by the same driver in the same run: per engine family a function that must be reported and a twin that must stay silent; a mismatch makes the check exit 2"},
   {"name": "mir-rules", "path": "rules/", "serves_properties": [c["property_id"] for c in checks],
    "kind_free_text": "Python rule engines over the facts: call graph, CFG dominators / must-pass-through, backward slices, result gating, guard liveness and lock summaries; per-property rule tables; fail-closed anchors and floors; known_findings.json"},
 ],
 "checks": checks,
 "not_applicable": na,
 "notes": "All checks are static analyses of /repo's current working tree (facts are re-extracted whenever any .rs/Cargo file changes; cache under .cache/). Exit 0 = rules hold (KNOWN-FINDING lines for recorded genuine defects), 1 = new violation, 2 = checker error.",
}
json.dump(m, open(os.path.join(V, "MANIFEST.json"), "w"), indent=1)
print("checks:", [c["property_id"] for c in checks], "na:", [n["property_id"] for n in na])
