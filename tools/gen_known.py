#!/usr/bin/env python3
"""Writes /verif/known_findings.json from the triage table below. Every entry was confirmed as a genuine defect with a
concrete failing input/sequence against the real code in a scratch worktree (demos under findings/<ref>/)."""
import json, os, re, subprocess
V = os.path.dirname(os.path.dirname(os.path.abspath(__file__)))

# (key regex, what fails, confirmation reference)
KNOWN = [
 (r"^C08\.R1\|cascette_formats::patch_index::header::<PatchIndexHeader>::build\|usize\ as\ u16\|extra_data/self\.len$", "PatchIndexHeader { extra_data: 65536 bytes }.build() (public struct, returns Vec<u8>): 65555 bytes written with extra_header_len = 1, parse gives extra_data of length 0 (65535 bytes: 'attempt to add with overflow' in the debug profile); PatchIndexBuilder always passes empty extra_data; build() cannot report an error without a public signature change", "findings/T12/site8"),
 (r"^C08\.R1\|cascette_formats::tvfs::vfs_table::<VfsTable>::build\|usize\ as\ u8\|entries/entry/iter\.len$", "VfsTable::build (public, returns Vec<u8>) with an entry of 256 spans: 2315 bytes written that do not parse ('VFS table truncated at offset 1903'); TvfsBuilder writes one span per file and cannot reach it; build() cannot report an error without a public signature change", "findings/T12/site5"),
 (r"^C01\.R1\|.*add_encrypted_data\|caller-chosen-index$", "add_encrypted_data(.., block_index=1) for the chunk at position 0: build/parse/decompress_with_keys all Ok, decode yields 65 garbage bytes instead of the 64 input bytes or an error (an in-tree unit test passes index 1 on purpose, so no fix without editing tests)", "findings/A2"),
 (r"^C03\.R1\|root\|layout-predicate$", "RootBuilder V2 with 20 files / 0 named (all 840 combinations of total 16..=99 x named 0..=9): detect() says V2, the header is read as V3V4, parse is Ok and no inserted FileDataID resolves; the format is ambiguous there, a repair is a design decision", "findings/A7"),
 (r"^C06\.R3\|.*LruManager>::checkpoint_to_disk.*\|write$", "crash image with a valid generation 1 next to a half-written generation 2: run_cycle returns Err(invalid LRU file) with 0 entries, generation 1 is never tried (needs temp+fsync+rename AND fallback to the older generation)", "findings/C4"),
 (r"^C07\.R1\|.*UpdateEntry>::validate_hash_guard\|never-called$", "a bit-flipped update entry in a saved .idx loads fine and lookup serves (3, 20480, 244) instead of (3, 4096, 500); wiring the guard in changes load behaviour for existing Agent-written files", "findings/C5"),
 (r"^C07\.R1\|.*LocalHeader>::validate_checksums\|never-called$", "a local header with wrong key, size and checksum still gives read_content Ok", "findings/C5"),
 (r"^C07\.R5\|.*NgdpBytes>::validate_with_hooks.*\|skip-edge$", "100 MiB + 1 byte with a wrong content key: put_with_validation Ok(is_valid=true, hash_time 0), get_with_validation returns Some although the md5 differs from the requested key (Md5ValidationHooks::should_skip_validation skips > 100 MB by documented policy)", "findings/B9"),
 (r"^C10\.R1\|memory\|max_memory_bytes$", "max_memory_bytes=1000, max_entries=1000, 100 puts of 100 B: entries=100, memory_usage=10000, all readable (perform_eviction returns early because 100 <= 900); a repair is a loop to both targets", "findings/B3"),
 (r"^C10\.R1\|disk\|max_disk_bytes$", "max_disk_bytes=1000: 100 files / 10000 B remain after more than 20 cleanup ticks because excess_count is 0", "findings/B5"),
 (r"^C10\.R2\|.*DiskCache as AsyncCache>::get.*\|serves-without-expiry-test$", "instance 1 put_with_ttl 50 ms; instance 2 on the same directory serves the value at +200 ms and +400 ms (re-indexed with expires_at: None; TTL is not persisted)", "findings/B6"),
 (r"^C10\.R3\|.*MemoryCache>::start_cleanup_task.*\|remove-without-books$", "after expiry plus more than 10 cleanup ticks size()=10, memory_usage=1000 (the task even works on a deep copy of the DashMap)", "findings/B4"),
 (r"^C10\.R3\|.*DiskCache>::start_cleanup_task.*\|own-counter\|entry_count$", "the task deleted 10 files and index entries, stats still show entries=10 (decrements go to fresh local Arcs)", "findings/B5"),
 (r"^C10\.R3\|.*DiskCache>::start_cleanup_task.*\|own-counter\|disk_usage$", "same for bytes=1000", "findings/B5"),
 (r"^C10\.R3\|.*DiskCache as AsyncCache>::get.*\|remove-result-dropped$", "two racing readers on the expired branch wrap entry_count to 18446744073709551615 and disk_usage to 2^64-100", "findings/B7"),
 (r"^C10\.R3\|.*DiskCache as AsyncCache>::get.*\|remove-result-dropped\|#1$", "same on the read-error branch", "findings/B7"),
 (r"^C10\.R3\|.*DiskCache as AsyncCache>::get.*\|insert-result-dropped$", "one file on disk is counted as (2 entries, 200 bytes) after two fallback gets", "findings/B7"),
 (r"^C11\.R1\|.*DiskCache as AsyncCache>::get.*\|stale-check-remove$", "in 60k rounds a fresh put was lost 1377 times via the stale snapshot (expired branch), leaving stats (0, 990)", "findings/B7"),
 (r"^C11\.R1\|.*DiskCache as AsyncCache>::get.*\|stale-check-remove\|#1$", "read-error branch: 10301 times the reader deleted the fresh entry / left a dangling index entry (get -> Err(NotFound))", "findings/B7"),
 (r"^C11\.R2\|.*DiskCache as AsyncCache>::get.*\|delta-from-snapshot\|disk_usage$", "usage decremented by the snapshot's size (stats (0, 990) after the race)", "findings/B7"),
 (r"^C11\.R2\|.*DiskCache as AsyncCache>::get.*\|delta-from-snapshot\|disk_usage\|#1$", "same on the read-error branch", "findings/B7"),
 (r"^C11\.R9\|.*DiskCache as AsyncCache>::get.*\|decrement-on-removal\|entry_count$", "expired branch of get: `index.remove(key)` result dropped, then entry_count.fetch_sub(1) unconditionally - two racing readers wrap entry_count to 18446744073709551615 (same defect as C10.R3 remove-result-dropped, seen by the decrement rule)", "findings/B7"),
 (r"^C11\.R9\|.*DiskCache as AsyncCache>::get.*\|decrement-on-removal\|disk_usage$", "same branch, disk_usage wraps to 2^64-100", "findings/B7"),
 (r"^C11\.R9\|.*DiskCache as AsyncCache>::get.*\|decrement-on-removal\|entry_count\|#1$", "read-error branch of get: same unconditional decrement after a dropped remove result", "findings/B7"),
 (r"^C11\.R9\|.*DiskCache as AsyncCache>::get.*\|decrement-on-removal\|disk_usage\|#1$", "same for disk_usage on the read-error branch", "findings/B7"),
 (r"^C11\.R9\|.*DiskCache>::start_cleanup_task.*\|decrement-on-removal\|entry_count$", "cleanup task: `index.remove(&key)` result dropped before the decrement, and the counter it decrements is the task's own Arc (stats still show entries=10 after 10 deletions) - the site of C10.R3 own-counter", "findings/B5"),
 (r"^C11\.R9\|.*DiskCache>::start_cleanup_task.*\|decrement-on-removal\|disk_usage$", "same for bytes", "findings/B5"),
 (r"^C11\.R3\|.*DiskCache>::write_file.*\|shared-temp-name$", "same key, 4 writers x 1500 puts: 988 put errors (ENOENT on rename) and 223 torn reads", "findings/B8"),
 (r"^C11\.R3\|.*IndexManager>::save_index\|shared-temp-name$", "8 threads calling save_all(&self): 186-217 spurious 'Failed to rename temp file' errors and 1731-3040 torn-file reads", "findings/C8"),
 (r"^C15\.R3\|.*start_server.*\|accept-error-stays$", "with RLIMIT_NOFILE lowered and the last fd taken, start_server returns Err(Shutdown(Too many open files)); afterwards new clients get ConnectionRefused", "findings/C10"),
 (r"^C15\.R4\|BpsvResponse::cdns\|Path\|STRING\|cdn_path$", "cdn_path 'tpr/wow|evil' passes validation; the client reports 'Field count mismatch: expected 5, got 7'", "findings/C11"),
 (r"^C15\.R4\|BpsvResponse::cdns\|ConfigPath\|STRING\|cdn_path$", "same field feeds ConfigPath", "findings/C11"),
 (r"^C15\.R4\|BpsvResponse::versions\|KeyRing\|HEX\|keyring$", "keyring 'zz' passes validation; RibbitTactClient rejects the response: 'Invalid hex value: zz'", "findings/C11"),
 (r"^C15\.R4\|BpsvResponse::versions\|BuildId\|DEC\|build$", "build 'abc' passes validation; client: 'Invalid decimal value: abc'", "findings/C11"),
 (r"^C15\.R4\|BpsvResponse::versions\|VersionsName\|STRING\|version$", "version '1|2' passes validation; client: 'Field count mismatch: expected 7, got 8'; a version containing '|\\n' injects forged rows", "findings/C11"),
 (r"^C18\.R4\|.*plan_archive_merge\|cursor-init$", "segments with 1000/2000/3000 used, size 10000: the plan moves seg1[0..2000) onto seg0[0..2000), over seg0's live [0..1000) (latent: no in-tree caller executes the plan)", "findings/C7"),
 (r"^C20\.R1\|.*DiskCache>::get_file_path\|push\|as_cache_key\(\)$", "key '../../escape' (and absolute keys) write, read and delete outside cache_dir in the hashed layout", "findings/B10"),
 (r"^C20\.R1\|.*DiskCache>::get_file_path\|join\|as_cache_key\(\)$", "same in the flat layout", "findings/B10"),
 (r"^C20\.R1\|.*open_installation\|join\|parameter name$", "open_installation('../../escaped_rel') and an absolute name return Ok and create {data,indices} outside base_path", "findings/B14"),
 (r"^C20\.R1\|.*DiskCache>::write_file.*\|with_extension-on-key-path$", "keys '0123abcd.index' and '0123abcd.data' share '0123abcd.tmp': 175 errors and 272 reads returning the other key's bytes", "findings/B8"),
 (r"^C20\.R2\|", "constant-range slice of a key/archive-name string: 10 of 10 public calls (download/download_with_resume/download_range/get_file_size with key [] or [0xab]; download_archive_index '' and 'abc'; get_index_size('a'); download_archive_content('abc')) panic before any I/O", "findings/B13"),
 (r"^C20\.R4\|.*ProtocolCacheKey\|eq\|no-memo$", "disk-backed ProtocolCache: store_with_ttl 100 ms then 5 gets gives stats entries=6 for one entry, and at 4x the TTL get still returns the value: every index lookup misses because the stored key has its memo filled and the lookup key does not", "findings/B11"),
 (r"^C20\.R5\|.*validate_endpoint\|dot-and-slash$", "endpoint 'x/../../../../outside' passes validate_endpoint and writes <cache_dir>/../outside; a file planted outside is served as a cache hit with 0 network requests", "findings/B10"),
]

FIXED = [
 ("C13", "e1e9cbb", "(no rule) a TACT connection closed mid-response (IncompleteBody / IncompleteMessage) stopped the fallback chain: should_retry treated only timeouts and connect errors as transient (findings/R1/Z-d1)"),
 ("C13", "dedde05", "(no rule) the Ribbit TCP reader stopped at the first buffer ending in two newlines: the parsed answer depended on the TCP split (findings/R1/Z-d5); C13.R5 now accepts a read loop with no content-dependent exit"),
 ("C13", "81c37a4", "(no rule) a Ribbit V1 MIME response cut off before its Checksum line parsed as 3 of 7 rows, was returned Ok and cached (findings/R1/Z-d2)"),
 ("C14", "cfcb90c", "(no rule) RetryPolicy::execute panicked on Duration overflow: huge Retry-After hint + jitter; max_backoff = Duration::MAX with a huge multiplier (findings/R1/Z-d3); C14.R3 now counts try_from_secs_f64 as a conversion that is safe by construction"),
 ("C10", "1627be0", "(no rule) DiskCache::remove was a no-op for a file written by an earlier instance although get() serves it (findings/R1/W-d4)"),
 ("C10", "1856214", "(no rule) put_with_ttl(Duration::MAX) panicked in 'now + ttl' (memory and disk); the disk panic poisoned the index lock (findings/R1/W-d1)"),
 ("C05", "49ac777", "(no rule) IndexManager::stats().total_entries counted sorted sections only: 5 un-flushed adds reported 0 (findings/R1/Y-d9)"),
 ("C18", "5c1cc4a", "(no rule) validate_spans sorted by offset only: [(100,50),(100,0)] refused as overlapping, [(100,0),(100,50)] accepted (findings/R1/Y-d4)"),
 ("C04", "3216818", "(no rule) Installation::write_file never saved the index: after reopen the object was unreachable (findings/R1/Y-d2)"),
 ("C16", "f5fa085", "(no rule) build_chunked_patch returned Err(Empty control block) for every (old, empty new) pair (findings/R1/X-d4)"),
 ("C03", "426d131", "(no rule) IndexEntry::to_bytes truncated offsets to the offset width: width 4, offset 0x1_0000_0005 came back as 5 (findings/R1/X-d3)"),
 ("C01", "ed4151c", "(no rule) decrypt_chunk_with_keys demanded 17 bytes, the encoder writes 16 for empty content: with_encryption + empty payload built and parsed Ok, decode failed 'Encrypted chunk too short' (findings/R1/X-d2)"),
 ("C01", "e7d4bb9", "C01.R8 BlteBuilder recorded inner.len() as decompressed_size of encrypted chunks: 64 content bytes -> 65, 10000 zero bytes (inner Z) -> 33 (findings/R1/X-d1; found by a reviewing agent, confirmed before / after)"),
 ("C03", "56ff118", "C03.R5 ContentResolver::clear_caches wiped the FileDataID map (not a cache): after clear_caches() every FileDataID of the loaded root resolved to None (findings/T15; noted by a seeding agent, confirmed)"),
 ("C08", "03650d5", "(no rule) ArchiveGroupBuilder::build chunk count from the byte total: 46002 entries built Ok, own output failed to parse (FileSizeMismatch), tail entries never written (findings/T14; noted by a seeding agent, confirmed)"),
 ("C08", "1f3fbd6", "C08.R1 patch archive block_count as u16: 65536 blocks announced as 0, parser returned an empty archive (findings/T12/site4)"),
 ("C08", "6d2aad2", "C08.R1 patch archive espec length as u8: a 256-byte ESpec built Ok, output did not parse (findings/T12/site3)"),
 ("C08", "31607ad", "C08.R1 (neighbouring defect found while triaging site 9) TVFS name fragment of 255 bytes writes the length byte 0xFF = NodeValue marker: any path component of >= 255 bytes made the built file unparseable (findings/T12/site9)"),
 ("C08", "06a78b6", "C08.R1 patch archive num_patches as u8: an entry with 256 patches built Ok and parsed back to 0 entries (findings/T12/site2)"),
 ("C08", "09bba77", "C08.R1 EncodingBuilder key_count as u8: 256 encoding keys for one content key built Ok and parsed back to 0 entries (257: 1 key) (findings/T12/site1)"),
 ("C08", "828f954", "C08.R2 RootBuilder::remove_file left block.header.num_records stale: add 120 files, remove one, build -> the builder's own output fails to parse ('failed to fill whole buffer') (findings/T13)"),
 ("C17", "bf5ed03", "C17.R1 public evict_tail lost the slot: capacity 1, touch a; evict_tail(); touch b returned false (findings/T11; noted by a round-6 seeding agent, confirmed and fixed)"),
 ("C17", "5171568", "C06.R10 checkpoint deleted the file it had just written: checkpoint(gen 1); bump_generation; load_from_disk(1); checkpoint -> generation 1 file removed, next load fails (findings/T11)"),
 ("C02", "7a31e9f", "C02.R7 parse_index_filename('a\\u{e9}0000000.idx'): byte index 2 is not a char boundary (findings/T10)"),
 ("C02", "bd5220d", "C02.R4 SizeManifest::parse with esize_bytes = 8 and two entries of u64::MAX: Iterator::sum overflow in validate (findings/T10)"),
 ("C02", "64b3128", "C02.R4 ESpec::parse('b:{18446744073709551615K=n}'): multiply overflow on a u64 parsed from the spec string (findings/T9)"),
 ("C02", "51299f4", "(no rule) get_compression_at_offset: u64 overflow from ESpec numbers (findings/T9)"),
 ("C02", "fa335dc", "C02.R3 extract_pem_certificate: '-----END CERTIFICATE-----\\n-----BEGIN CERTIFICATE-----\\n' sliced with begin > end (findings/T2; found by triage of E-bounds' not-decided sites)"),
 ("C02", "0dd47bf", "C02.R2 PidTracking::from_mapped: 28 bytes requested 2 x 128 MiB (up to 2 x 16 GiB) (findings/T5; found by triage)"),
 ("C02", "6308181", "C02.R5 ESpec::parse('b:' x 200000 + 'n') overflowed the stack, SIGABRT (findings/T7; found by triage)"),
 ("C02", "1df8088", "C02.R5 PathTable::parse on 100000 nested folder nodes overflowed the stack, SIGABRT (findings/T8; found by triage)"),
 ("C02", "6f54169", "(no rule) is_v1_mime_response: char-boundary panic at byte 512 (findings/T1; found by triage)"),
 ("C02", "5c288c5", "(no rule) decompress_patch_data: u64 overflow / wrap from ESpec numbers (findings/T3; found by triage)"),
 ("C02", "94b66ee", "(no rule) LRU loader adopted out-of-range / cyclic links (findings/T4; found by triage)"),
 ("C02", "e1eb191", "(no rule) LocalHeader::blte_size underflow (findings/T6; found by triage)"),
 ("C02", "d16909a", "C02.R3 archive index footer hash size: 36-byte file with footer_hash_bytes = 16 panicked in IndexFooter::is_valid, 24-byte file with footer_hash_bytes = 4 in the checksum-error branch of ArchiveIndex::parse / ChunkedArchiveIndex::open (findings/D1)"),
 ("C02", "b0cbecc", "C02.R3 patch index key_size > 16: a 95-byte patch index whose block 2 declares key_size = 17 panicked in PatchIndexEntry::parse (findings/D2)"),
 ("C02", "c1c0648", "C02.R4 .idx header widths 16/120/120 (and 9/250/0, 9/255/255): u8 overflow panic (debug) / wrap to 0 and slice panic (release) in IndexManager::load_index (findings/D3)"),
 ("C01", "7d97588", "C01.R1 add_data const-index / chunk_index = 0: with_encryption + two add_data calls decoded to garbage with Ok (findings/A1)"),
 ("C02", "23be953", "C02.R1 Option::expect in ExtendedHeader/EncryptedHeader #[br(map)]: 12-byte input 'BLTE 0000000C 00 000000' made BlteFile::parse panic (findings/A3)"),
 ("C16", "3344cca", "C16.R1 build_chunked_patch absolute seek: old='ABCDEFGH', new='ABCD'+256*'x'+'EFGH' applied Ok to a different tail (findings/A5)"),
 ("C16", "8ddf874", "C16.R2 streaming patcher ignored header.output_size: header 1000, patcher(12) returned Ok(12 bytes) (findings/A6)"),
 ("C04", "9a21465", "C04.R1 remap threshold: writes of 1000/100/50 bytes returned Ok, reads #1/#2 failed with TruncatedRead (findings/C1)"),
 ("C04", "db59f19", "C04.R2 double decode in read_file_by_encoding_key / read_file_by_content_key: a stored 78-byte BLTE blob came back as its 69-byte inner payload (findings/C2)"),
 ("C05", "2768c20", "C05.R1 remove_entry dropped append result: after 1260 un-flushed adds remove_entry returned true while has_entry stayed true (findings/C3)"),
 ("C17", "3ca5df2", "C17.R1 evict_to_target lost slots: capacity 4, fill, evict 4, four touches returned false (findings/C6)"),
 ("C15", "386e7cf", "C15.R2 unbounded read_line: 64 MiB without newline were all buffered (findings/C9)"),
 ("C12", "bb22b86", "C12.R1 / C11.R4 promotion_tracker re-entrancy: put_to_layer(k,v,1); get(k); get(k) never returned (findings/B1)"),
 ("C11", "8c04671", "C11.R1/R2 MemoryCache get/contains stale check-then-remove: in 100k rounds a completed put was deleted 110 (get) / 99 (contains) times and the counters were decremented by the old size (findings/B2)"),
 ("C06", "84c5e00", "C06.R4 unchecked libc::fsync in DiskCache::write_file: with fsync forced to fail (EIO) put returned Ok (findings/B8)"),
 ("C02", "7e273e1", "C02.R2 EncodingFile::parse espec_block_size / ckey_page_count / ekey_page_count: 22-24 input bytes requested 4 GiB to 128 GiB (findings/A4a)"),
 ("C02", "19a0b06", "C02.R2 InstallManifest::parse entry_count (10 bytes -> 192 GiB) and InstallTag bit mask (14 bytes -> 512 MiB) (findings/A4b)"),
 ("C02", "8e1bddc", "C02.R2 DownloadManifest::parse entry_count: 11 bytes -> 256 GiB (findings/A4c)"),
 ("C02", "8c1f69e", "C02.R2 SizeManifest::parse entry_count: 15 bytes -> 128 GiB (findings/A4d)"),
 ("C02", "2db596c", "C02.R2 PatchIndexHeader::parse block_count: 18 bytes -> 32 GiB (findings/A4e)"),
 ("C02", "72b6f14", "C02.R2 ChunkData::read_options compressed_size and BlteFile::decompress{,_with_keys} uncapped estimate: 37 bytes -> 4 GiB (findings/A4g)"),
 ("C02", "4166b88", "C02.R2 IndexManager::read_entry_block block_size: 40-byte .idx -> 4 GiB (findings/A4j)"),
 ("C14", "031c807", "C14.R2/R3 uncapped initial backoff (initial 5 s, max 1 s waited 5.0017 s) and negative multiplier panic in Duration::from_secs_f64 (findings/B12)"),
]


def current_keys():
    keys = []
    for p in sorted({k[0][1:4] for k in KNOWN}):
        pass
    return keys


def main():
    # expand regex table against the keys the checks derive on the current tree (exact keys are what gets stored)
    keys = [l.strip() for l in open("/tmp/keys_now.txt")] if os.path.exists("/tmp/keys_now.txt") else []
    findings = []
    used = set()
    for k in keys:
        hit = None
        for rx, what, ref in KNOWN:
            if re.search(rx, k):
                hit = (what, ref)
                break
        if hit:
            findings.append({"property": k[:3], "key": k, "what": hit[0], "confirmed_by": hit[1]})
            used.add(k)
    fixed = [{"property": p, "commit": c, "what": w, "line": "fixed: property=%s %s %s" % (p, c, w)} for (p, c, w) in FIXED]
    out = {"_comment": "exact violation keys of genuine defects that are recorded rather than repaired (suppressed by exact key only; a different "
                       "violation of the same property is still reported), and fixed entries (which suppress nothing). Generated by tools/gen_known.py "
                       "from the triage table; never written at check time.",
           "findings": findings, "fixed": fixed}
    json.dump(out, open(os.path.join(V, "known_findings.json"), "w"), indent=1)
    print(len(findings), "known findings,", len(fixed), "fixed;", "unmatched keys:", [k for k in keys if k not in used])


main()
