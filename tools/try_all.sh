#!/bin/bash
# try_all.sh <patch.diff> [Cxx ...] : apply a patch to a scratch copy of /repo (never /repo itself) and run the quick checks on it.
# Prints one line per check that reports something new. Used for the benign-refactoring battery (expected: silence everywhere).
set -u
P=$(readlink -f "$1"); shift
PROPS=${@:-C01 C02 C03 C04 C05 C06 C07 C08 C09 C10 C11 C12 C13 C14 C15 C16 C17 C18 C19 C20}
S=${TMPDIR:-/tmp}/verif-tryall   # fixed path: the scratch copy's cargo target dir under .cache stays warm between patches
exec 9>/tmp/verif-tryall.lock; flock 9
mkdir -p $S && rsync -a --delete --exclude target --exclude .git /repo/ $S/repo/
( cd $S/repo && patch -p1 --fuzz=3 -s -i "$P" ) || { echo "patch does not apply"; rm -rf $S; exit 2; }
cd ${VERIF_DIR:-/verif}
ANY=0
for p in $PROPS; do
  [ -f rules/$(echo $p | tr A-Z a-z).py ] || continue
  OUT=$(VERIF_EVIDENCE_DIR=$S/evidence ./check $p --repo $S/repo 2>&1)
  RC=$?
  if [ $RC -ne 0 ]; then
    ANY=1
    echo "$p rc=$RC"; echo "$OUT" | grep -E "^  rule|CHECKER|Traceback|Error" | cut -c1-330
  fi
done
rm -rf $S/repo $S/evidence
# facts of scratch trees are not worth keeping
find /verif/.cache/facts -maxdepth 1 -name "*-$(python3 -c "import hashlib;print(hashlib.sha256('$S/repo'.encode()).hexdigest()[:8])")" -exec rm -rf {} + 2>/dev/null
[ $ANY -eq 0 ] && echo "all quiet"
exit $ANY
