//! Witness crate for the /verif checker self-test: for each engine family one function that MUST be reported
//! (`*_bad`) and a twin that differs only by the offending construct and MUST stay silent (`*_ok`).
//! Analysed by the same driver in the same extraction run as /repo. Never executed.
#![allow(dead_code, unused_variables, unused_mut, clippy::all)]

use std::collections::HashMap;
use std::fs::File;
use std::io::{BufWriter, Write};
use std::path::Path;
use std::sync::{Mutex, RwLock};

// ---------------------------------------------------------------------------------------------------------
// E-lock: re-entrant acquisition, guard across await, lock order
// ---------------------------------------------------------------------------------------------------------
pub struct Tracker {
    table: RwLock<HashMap<u32, u32>>,
    other: Mutex<u32>,
}

impl Tracker {
    fn peek(&self, k: u32) -> bool {
        self.table.read().map(|t| t.contains_key(&k)).unwrap_or(false)
    }

    /// holds the write guard while calling peek(), which read-locks the same RwLock
    pub fn reentrant_bad(&self, k: u32) -> bool {
        if let Ok(mut t) = self.table.write() {
            t.insert(k, 1);
            if self.peek(k) {
                return true;
            }
        }
        false
    }

    /// same, but the guard is dropped before peek()
    pub fn reentrant_ok(&self, k: u32) -> bool {
        if let Ok(mut t) = self.table.write() {
            t.insert(k, 1);
        }
        self.peek(k)
    }

    pub async fn tick(&self) {}

    /// std MutexGuard live across an await
    pub async fn across_await_bad(&self) -> u32 {
        let g = self.other.lock().unwrap();
        self.tick().await;
        *g
    }

    pub async fn across_await_ok(&self) -> u32 {
        let v = {
            let g = self.other.lock().unwrap();
            *g
        };
        self.tick().await;
        v
    }

    /// check under the read lock, release, then remove under the write lock without looking again
    pub fn stale_remove_bad(&self, k: u32) {
        let expired = { self.table.read().map(|t| t.get(&k).copied() == Some(0)).unwrap_or(false) };
        if expired {
            if let Ok(mut t) = self.table.write() {
                t.remove(&k);
            }
        }
    }
}

// ---------------------------------------------------------------------------------------------------------
// E-gate: result consumption
// ---------------------------------------------------------------------------------------------------------
pub struct Section {
    items: Vec<u32>,
    cap: usize,
}

impl Section {
    pub fn append(&mut self, v: u32) -> bool {
        if self.items.len() >= self.cap {
            return false;
        }
        self.items.push(v);
        true
    }
}

pub fn discard_bad(s: &mut Section) -> bool {
    s.append(7);
    true
}

pub fn discard_ok(s: &mut Section) -> bool {
    s.append(7)
}

pub fn discard_ok_branch(s: &mut Section) -> Result<(), ()> {
    if !s.append(7) {
        return Err(());
    }
    Ok(())
}

// ---------------------------------------------------------------------------------------------------------
// E-dom: publish protocol (temp -> write -> flush -> sync -> rename)
// ---------------------------------------------------------------------------------------------------------
pub fn save_nosync_bad(path: &Path, data: &[u8]) -> std::io::Result<()> {
    let tmp = path.with_extension("tmp");
    let mut f = File::create(&tmp)?;
    f.write_all(data)?;
    std::fs::rename(&tmp, path)?;
    Ok(())
}

pub fn save_ok(path: &Path, data: &[u8]) -> std::io::Result<()> {
    let tmp = path.with_extension("tmp");
    let mut f = File::create(&tmp)?;
    f.write_all(data)?;
    f.sync_all()?;
    std::fs::rename(&tmp, path)?;
    Ok(())
}

pub fn save_noflush_bad(path: &Path, data: &[u8]) -> std::io::Result<()> {
    let tmp = path.with_extension("tmp");
    let f = File::create(&tmp)?;
    let mut w = BufWriter::new(&f);
    w.write_all(data)?;
    f.sync_all()?;
    std::fs::rename(&tmp, path)?;
    Ok(())
}

pub fn save_flush_ok(path: &Path, data: &[u8]) -> std::io::Result<()> {
    let tmp = path.with_extension("tmp");
    let f = File::create(&tmp)?;
    let mut w = BufWriter::new(&f);
    w.write_all(data)?;
    w.flush()?;
    f.sync_all()?;
    std::fs::rename(&tmp, path)?;
    Ok(())
}

pub fn save_sync_unchecked_bad(path: &Path, data: &[u8]) -> std::io::Result<()> {
    let tmp = path.with_extension("tmp");
    let mut f = File::create(&tmp)?;
    f.write_all(data)?;
    let _ = f.sync_all();
    std::fs::rename(&tmp, path)?;
    Ok(())
}

// ---------------------------------------------------------------------------------------------------------
// E-slice taint: input-derived allocation sizes; E-reach: explicit panics
// ---------------------------------------------------------------------------------------------------------
pub struct WireHeader {
    pub count: u32,
    pub small: u16,
}

fn read_header(data: &[u8]) -> Option<WireHeader> {
    if data.len() < 6 {
        return None;
    }
    Some(WireHeader {
        count: u32::from_le_bytes([data[0], data[1], data[2], data[3]]),
        small: u16::from_le_bytes([data[4], data[5]]),
    })
}

pub fn parse_alloc_bad(data: &[u8]) -> Option<Vec<u64>> {
    let h = read_header(data)?;
    let mut v = Vec::with_capacity(h.count as usize);
    v.push(0);
    Some(v)
}

pub fn parse_alloc_clamped_ok(data: &[u8]) -> Option<Vec<u64>> {
    let h = read_header(data)?;
    let mut v = Vec::with_capacity((h.count as usize).min(data.len() / 8));
    v.push(0);
    Some(v)
}

pub fn parse_alloc_guarded_ok(data: &[u8]) -> Option<Vec<u64>> {
    let h = read_header(data)?;
    if h.count > 4096 {
        return None;
    }
    let mut v = Vec::with_capacity(h.count as usize);
    v.push(0);
    Some(v)
}

pub fn parse_alloc_narrow_ok(data: &[u8]) -> Option<Vec<u64>> {
    let h = read_header(data)?;
    let mut v = Vec::with_capacity(h.small as usize);
    v.push(0);
    Some(v)
}

pub fn parse_alloc_len_ok(data: &[u8]) -> Vec<u8> {
    let mut v = Vec::with_capacity(data.len());
    v.extend_from_slice(data);
    v
}

/// the size is used only after a `0..count` loop that read input on every iteration has run to completion
pub fn parse_alloc_after_loop_ok(data: &[u8]) -> std::io::Result<Vec<u64>> {
    use std::io::Read;
    let h = read_header(data).ok_or(std::io::ErrorKind::UnexpectedEof)?;
    let mut cur = std::io::Cursor::new(data);
    let mut first = Vec::new();
    for _ in 0..h.count {
        let mut k = [0u8; 8];
        cur.read_exact(&mut k)?;
        first.push(u64::from_le_bytes(k));
    }
    let mut v = Vec::with_capacity(h.count as usize);
    v.extend(first);
    Ok(v)
}

/// same loop, but the allocation comes first
pub fn parse_alloc_before_loop_bad(data: &[u8]) -> std::io::Result<Vec<u64>> {
    use std::io::Read;
    let h = read_header(data).ok_or(std::io::ErrorKind::UnexpectedEof)?;
    let mut cur = std::io::Cursor::new(data);
    let mut v = Vec::with_capacity(h.count as usize);
    for _ in 0..h.count {
        let mut k = [0u8; 8];
        cur.read_exact(&mut k)?;
        v.push(u64::from_le_bytes(k));
    }
    Ok(v)
}

/// a dominating loop that reads nothing bounds nothing
pub fn parse_alloc_after_idle_loop_bad(data: &[u8]) -> Option<Vec<u64>> {
    let h = read_header(data)?;
    let mut n = 0u64;
    for i in 0..h.small {
        n += u64::from(i);
    }
    let mut v = Vec::with_capacity(h.count as usize);
    v.push(n);
    Some(v)
}

fn helper_unwrap(x: Option<u32>) -> u32 {
    x.unwrap()
}

pub fn parse_panic_bad(data: &[u8]) -> u32 {
    helper_unwrap(data.first().map(|b| u32::from(*b)))
}

pub fn parse_panic_ok(data: &[u8]) -> Option<u32> {
    data.first().map(|b| u32::from(*b))
}

pub fn parse_tryinto_ok(data: &[u8]) -> Option<u32> {
    if data.len() < 8 {
        return None;
    }
    let b: [u8; 4] = data[4..8].try_into().expect("4 bytes");
    Some(u32::from_le_bytes(b))
}

// ---------------------------------------------------------------------------------------------------------
// loop shapes: every-iteration / must-pass
// ---------------------------------------------------------------------------------------------------------
pub struct Layers {
    layers: Vec<Section>,
}

impl Layers {
    pub fn clear_all_ok(&mut self) {
        for l in &mut self.layers {
            l.items.clear();
        }
    }

    pub fn clear_short_circuit_bad(&mut self) -> bool {
        let mut found = false;
        for l in &mut self.layers {
            if found {
                continue;
            }
            found = !l.items.is_empty();
            l.items.clear();
        }
        found
    }
}


// ---------------------------------------------------------------------------------------------------------
// read loops: a zero-length read must leave the loop (C15.R2 eof-leaves-loop)
// ---------------------------------------------------------------------------------------------------------
pub fn read_loop_eof_ok(r: &mut dyn std::io::BufRead) -> std::io::Result<usize> {
    let mut line = String::new();
    let mut total = 0;
    loop {
        let n = r.read_line(&mut line)?;
        if n == 0 || !line.trim().is_empty() {
            return Ok(total + n);
        }
        total += n;
        line.clear();
    }
}

/// tests the running total, not the count of this read: after one blank line EOF is never seen again
pub fn read_loop_total_bad(r: &mut dyn std::io::BufRead) -> std::io::Result<usize> {
    let mut line = String::new();
    let mut total = 0;
    loop {
        total += r.read_line(&mut line)?;
        if total == 0 || !line.trim().is_empty() {
            return Ok(total);
        }
        line.clear();
    }
}


// ---------------------------------------------------------------------------------------------------------
// folds: a combination in a loop must read its own accumulator (C19.R7)
// ---------------------------------------------------------------------------------------------------------
pub struct Mask(pub Vec<u8>);

impl Mask {
    pub fn intersect(&self, other: &Self) -> Vec<u8> {
        self.0.iter().zip(other.0.iter()).map(|(a, b)| a & b).collect()
    }
}

pub fn fold_accumulate_ok(tags: &[Mask]) -> Vec<u8> {
    let mut mask = Mask(tags[0].0.clone());
    for t in &tags[1..] {
        mask = Mask(mask.intersect(t));
    }
    mask.0
}

/// overwrites the accumulator with the intersection of the current pair only
pub fn fold_overwrite_bad(tags: &[Mask]) -> Vec<u8> {
    let mut mask = tags[0].0.clone();
    for pair in tags.windows(2) {
        mask = pair[0].intersect(&pair[1]);
    }
    mask
}


// ---------------------------------------------------------------------------------------------------------
// stand-ins with the paths of the real crates (this crate has no dependencies): a fair RwLock and a concurrent map
// ---------------------------------------------------------------------------------------------------------
pub mod lock_api {
    pub mod rwlock {
        pub struct RwLock<R, T> {
            inner: std::sync::RwLock<T>,
            _r: std::marker::PhantomData<R>,
        }
        pub struct RwLockReadGuard<'a, T>(std::sync::RwLockReadGuard<'a, T>);
        impl<'a, T> std::ops::Deref for RwLockReadGuard<'a, T> {
            type Target = T;
            fn deref(&self) -> &T {
                &self.0
            }
        }
        impl<R, T> RwLock<R, T> {
            pub fn new(v: T) -> Self {
                Self { inner: std::sync::RwLock::new(v), _r: std::marker::PhantomData }
            }
            pub fn read(&self) -> RwLockReadGuard<'_, T> {
                RwLockReadGuard(self.inner.read().unwrap_or_else(|e| e.into_inner()))
            }
        }
    }
}

pub mod dashmap {
    use std::collections::HashMap;
    use std::hash::Hash;
    pub struct DashMap<K, V, S> {
        inner: std::sync::Mutex<HashMap<K, V>>,
        _s: std::marker::PhantomData<S>,
    }
    impl<K: Eq + Hash, V, S> DashMap<K, V, S> {
        pub fn new() -> Self {
            Self { inner: std::sync::Mutex::new(HashMap::new()), _s: std::marker::PhantomData }
        }
        pub fn remove(&self, k: &K) -> Option<(K, V)> {
            self.inner.lock().ok()?.remove_entry(k)
        }
        pub fn insert(&self, k: K, v: V) -> Option<V> {
            self.inner.lock().ok()?.insert(k, v)
        }
    }
}

pub struct Books {
    pub map: dashmap::DashMap<u32, u64, ()>,
    pub idx: lock_api::rwlock::RwLock<(), Vec<u32>>,
}

impl Books {
    /// an overwrite in two map operations: the key is absent in between
    pub fn replace_two_steps_bad(&self, k: u32, v: u64) -> bool {
        let had = self.map.remove(&k).is_some();
        self.map.insert(k, v);
        had
    }

    pub fn replace_one_step_ok(&self, k: u32, v: u64) -> bool {
        self.map.insert(k, v).is_some()
    }

    fn count(&self) -> usize {
        self.idx.read().len()
    }

    /// read guard held while a callee read-locks the same fair RwLock
    pub fn reread_bad(&self) -> usize {
        let g = self.idx.read();
        let n = self.count();
        n + g.len()
    }

    pub fn reread_ok(&self) -> usize {
        let n = {
            let g = self.idx.read();
            g.len()
        };
        n + self.count()
    }
}

// ---------------------------------------------------------------------------------------------------------
// E-bounds: index / range operations proven in bounds, or reported when the index derives from input (C02.R3)
// ---------------------------------------------------------------------------------------------------------
pub fn bounds_guarded_ok(data: &[u8]) -> Option<u8> {
    if data.len() < 2 {
        return None;
    }
    let n = data[0] as usize;
    if data.len() < 1 + n + 1 {
        return None;
    }
    let s = &data[1..1 + n];
    Some(data[1 + n] ^ (s.len() as u8))
}

/// the guard covers `off + n`, then `off` advances by `n`: `data[off]` may be one past the end
pub fn bounds_stale_guard_bad(data: &[u8]) -> Option<u8> {
    if data.len() < 2 {
        return None;
    }
    let n = data[0] as usize;
    let mut off = 1;
    if data.len() < off + n {
        return None;
    }
    let _s = &data[off..off + n];
    off += n;
    Some(data[off])
}

pub fn bounds_unguarded_bad(data: &[u8]) -> u8 {
    if data.is_empty() {
        return 0;
    }
    let n = data[0] as usize;
    data[n]
}

fn key_at(data: &[u8], ks: usize) -> [u8; 16] {
    let mut k = [0u8; 16];
    k[..ks].copy_from_slice(&data[..ks]);
    k
}

/// the helper's precondition `ks <= 16` is nobody's business here
pub fn bounds_callee_pre_bad(data: &[u8]) -> Option<[u8; 16]> {
    if data.is_empty() {
        return None;
    }
    let ks = data[0] as usize;
    if data.len() < 1 + ks {
        return None;
    }
    Some(key_at(&data[1..], ks))
}

pub fn bounds_callee_pre_ok(data: &[u8]) -> Option<[u8; 16]> {
    if data.is_empty() {
        return None;
    }
    let ks = data[0] as usize;
    if ks > 16 || data.len() < 1 + ks {
        return None;
    }
    Some(key_at(&data[1..], ks))
}

pub struct Cur<'a> {
    pub data: &'a [u8],
    pub pos: usize,
}

impl<'a> Cur<'a> {
    /// the guard is about the old `pos`: after the write the field is another value
    pub fn bounds_field_write_bad(&mut self) -> u8 {
        if self.pos < self.data.len() {
            self.pos += 1;
            return self.data[self.pos];
        }
        0
    }

    pub fn bounds_field_write_ok(&mut self) -> u8 {
        if self.pos < self.data.len() {
            let b = self.data[self.pos];
            self.pos += 1;
            return b;
        }
        0
    }

    fn advance(&mut self) {
        self.pos += 1;
    }

    /// same, the write happens in a callee that got `&mut self`
    pub fn bounds_field_callee_write_bad(&mut self) -> u8 {
        if self.pos < self.data.len() {
            self.advance();
            return self.data[self.pos];
        }
        0
    }
}

/// a divisor read from the input without a zero test
pub fn div_unguarded_bad(data: &[u8]) -> usize {
    if data.len() < 2 {
        return 0;
    }
    let per = data[0] as usize;
    data.len() / per
}

pub fn div_guarded_ok(data: &[u8]) -> usize {
    if data.len() < 2 {
        return 0;
    }
    let per = data[0] as usize;
    if per == 0 {
        return 0;
    }
    data.len() / per
}

/// byte offsets that are not known to be character boundaries
pub fn str_prefix_bad(key: &str) -> Option<&str> {
    if key.len() < 4 {
        return None;
    }
    Some(&key[4..])
}

pub fn str_find_ok(line: &str) -> Option<(&str, &str)> {
    let p = line.find('=')?;
    Some((&line[..p], &line[p + 1..]))
}

pub fn str_find_closure_plus_one_bad(line: &str) -> Option<&str> {
    let p = line.find(|c: char| !c.is_alphanumeric())?;
    Some(&line[p + 1..])
}

pub fn str_get_ok(key: &str) -> Option<&str> {
    key.get(4..)
}

// ---------------------------------------------------------------------------------------------------------
// E-err: the error of a persistence step is not swallowed behind a success return (C04.R6 / C10.R4)
// ---------------------------------------------------------------------------------------------------------
pub fn persist_propagate_ok(path: &Path, data: &[u8]) -> std::io::Result<()> {
    std::fs::write(path, data)?;
    Ok(())
}

pub fn persist_swallow_bad(path: &Path, data: &[u8]) -> std::io::Result<()> {
    if let Err(e) = std::fs::write(path, data) {
        eprintln!("could not persist: {e}");
    }
    Ok(())
}

pub fn persist_discard_bad(path: &Path, data: &[u8]) -> std::io::Result<()> {
    let _ = std::fs::write(path, data);
    Ok(())
}


// ---------------------------------------------------------------------------------------------------------
// short reads: the count returned by read() bounds what is consumed (C16.R6)
// ---------------------------------------------------------------------------------------------------------
pub fn short_read_used_ok(r: &mut dyn std::io::Read, out: &mut Vec<u8>) -> std::io::Result<()> {
    let mut buf = [0u8; 64];
    let n = r.read(&mut buf)?;
    out.extend_from_slice(&buf[..n]);
    Ok(())
}

/// only tests the count for zero: the unread tail of `buf` is consumed as if it had been read
pub fn short_read_ignored_bad(r: &mut dyn std::io::Read, out: &mut Vec<u8>) -> std::io::Result<()> {
    let mut buf = [0u8; 64];
    let n = r.read(&mut buf)?;
    if n == 0 {
        return Err(std::io::ErrorKind::UnexpectedEof.into());
    }
    out.extend_from_slice(&buf);
    Ok(())
}


// ---------------------------------------------------------------------------------------------------------
// recursion on input nesting needs a compared depth counter (C02.R5)
// ---------------------------------------------------------------------------------------------------------
pub fn rec_unbounded_bad(data: &[u8], pos: usize) -> usize {
    if pos < data.len() && data[pos] == b'(' {
        1 + rec_unbounded_bad(data, pos + 1)
    } else {
        0
    }
}

pub fn rec_param_ok(data: &[u8], pos: usize, depth: usize) -> Option<usize> {
    if depth > 32 {
        return None;
    }
    if pos < data.len() && data[pos] == b'(' {
        Some(1 + rec_param_ok(data, pos + 1, depth + 1)?)
    } else {
        Some(0)
    }
}

pub struct Nest<'a> {
    pub data: &'a [u8],
    pub pos: usize,
    pub depth: usize,
}

impl Nest<'_> {
    pub fn rec_field_ok(&mut self) -> Option<usize> {
        if self.depth >= 32 {
            return None;
        }
        self.depth += 1;
        let r = if self.pos < self.data.len() && self.data[self.pos] == b'(' {
            self.pos += 1;
            Some(1 + self.rec_field_ok()?)
        } else {
            Some(0)
        };
        self.depth -= 1;
        r
    }
}

// ---------------------------------------------------------------------------------------------------------------
// C09 witnesses: feature-gated dispatch, vector access in bounds, sibling tail tables
// ---------------------------------------------------------------------------------------------------------------
pub struct Feat {
    pub sse2: bool,
    pub avx2: bool,
}

#[cfg(target_arch = "x86_64")]
#[target_feature(enable = "sse2")]
pub unsafe fn vec_load_ok(a: &[u8]) -> i32 {
    use std::arch::x86_64::{__m128i, _mm_loadu_si128, _mm_movemask_epi8};
    let mut i = 0;
    let mut acc = 0;
    while i + 16 <= a.len() {
        let v = unsafe { _mm_loadu_si128(a.as_ptr().add(i).cast::<__m128i>()) };
        acc += unsafe { _mm_movemask_epi8(v) };
        i += 16;
    }
    acc
}

#[cfg(target_arch = "x86_64")]
#[target_feature(enable = "sse2")]
pub unsafe fn vec_load_bad(a: &[u8]) -> i32 {
    use std::arch::x86_64::{__m128i, _mm_loadu_si128, _mm_movemask_epi8};
    let mut i = 0;
    let mut acc = 0;
    // the last iteration reads up to 15 bytes past the end
    while i < a.len() {
        let v = unsafe { _mm_loadu_si128(a.as_ptr().add(i).cast::<__m128i>()) };
        acc += unsafe { _mm_movemask_epi8(v) };
        i += 16;
    }
    acc
}

#[cfg(target_arch = "x86_64")]
#[target_feature(enable = "avx2")]
pub unsafe fn vec_store_other_len_bad(dest: &mut [u8], src: &[u8]) {
    use std::arch::x86_64::{__m256i, _mm256_loadu_si256, _mm256_storeu_si256};
    let mut i = 0;
    // bounded by the source only: the store may run past `dest`
    while i + 32 <= src.len() {
        unsafe {
            let v = _mm256_loadu_si256(src.as_ptr().add(i).cast::<__m256i>());
            _mm256_storeu_si256(dest.as_mut_ptr().add(i).cast::<__m256i>(), v);
        }
        i += 32;
    }
}

#[cfg(target_arch = "x86_64")]
#[target_feature(enable = "avx2")]
pub unsafe fn vec_store_min_ok(dest: &mut [u8], src: &[u8]) {
    use std::arch::x86_64::{__m256i, _mm256_loadu_si256, _mm256_storeu_si256};
    let len = dest.len().min(src.len());
    let mut i = 0;
    while i + 32 <= len {
        unsafe {
            let v = _mm256_loadu_si256(src.as_ptr().add(i).cast::<__m256i>());
            _mm256_storeu_si256(dest.as_mut_ptr().add(i).cast::<__m256i>(), v);
        }
        i += 32;
    }
}

#[cfg(target_arch = "x86_64")]
pub fn dispatch_gate_ok(f: &Feat, d: &mut [u8], a: &[u8]) -> i32 {
    if f.avx2 && a.len() >= 32 {
        unsafe { vec_store_min_ok(d, a) };
        1
    } else if f.sse2 {
        unsafe { vec_load_ok(a) }
    } else {
        0
    }
}

#[cfg(target_arch = "x86_64")]
pub fn dispatch_gate_bad(f: &Feat, d: &mut [u8], a: &[u8]) -> i32 {
    // AVX2 code behind the SSE2 flag: illegal instruction on a host without AVX2
    if f.sse2 && a.len() >= 32 {
        unsafe { vec_store_min_ok(d, a) };
        1
    } else {
        0
    }
}

#[cfg(target_arch = "x86_64")]
pub fn dispatch_ungated_bad(d: &mut [u8], a: &[u8]) {
    if a.len() >= 32 {
        unsafe { vec_store_min_ok(d, a) };
    }
}

#[cfg(target_arch = "x86_64")]
pub fn detect_ok() -> Feat {
    Feat { sse2: is_x86_feature_detected!("sse2"), avx2: is_x86_feature_detected!("avx2") }
}

#[cfg(target_arch = "x86_64")]
pub fn detect_swapped_bad() -> Feat {
    Feat { sse2: is_x86_feature_detected!("sse2"), avx2: is_x86_feature_detected!("sse4.1") }
}

fn tail_fin(a: u32, b: u32, c: u32) -> u32 {
    a ^ b.rotate_left(7) ^ c.rotate_left(13)
}

pub fn tail_ref(k: &[u8]) -> u32 {
    let (mut a, mut b, mut c) = (1u32, 2u32, 3u32);
    match k.len() {
        3 => {
            c = c.wrapping_add(u32::from(k[2]) << 16);
            b = b.wrapping_add(u32::from(k[1]) << 8);
            a = a.wrapping_add(u32::from(k[0]));
        }
        2 => {
            b = b.wrapping_add(u32::from(k[1]) << 8);
            a = a.wrapping_add(u32::from(k[0]));
        }
        1 => {
            a = a.wrapping_add(u32::from(k[0]));
        }
        _ => {}
    }
    tail_fin(a, b, c)
}

pub fn tail_sibling_ok(k: &[u8]) -> u32 {
    let (mut x, mut y, mut z) = (1u32, 2u32, 3u32);
    match k.len() {
        3 => {
            x = x.wrapping_add(u32::from(k[0]));
            y = y.wrapping_add(u32::from(k[1]) << 8);
            z = z.wrapping_add(u32::from(k[2]) << 16);
        }
        2 => {
            y = y.wrapping_add(u32::from(k[1]) << 8);
            x = x.wrapping_add(u32::from(k[0]));
        }
        1 => {
            x = x.wrapping_add(u32::from(k[0]));
        }
        _ => {}
    }
    tail_fin(x, y, z)
}

pub fn tail_sibling_bad(k: &[u8]) -> u32 {
    let (mut a, mut b, mut c) = (1u32, 2u32, 3u32);
    match k.len() {
        3 => {
            c = c.wrapping_add(u32::from(k[2]) << 8); // wrong shift in one arm only
            b = b.wrapping_add(u32::from(k[1]) << 8);
            a = a.wrapping_add(u32::from(k[0]));
        }
        2 => {
            b = b.wrapping_add(u32::from(k[1]) << 8);
            a = a.wrapping_add(u32::from(k[0]));
        }
        1 => {
            a = a.wrapping_add(u32::from(k[0]));
        }
        _ => {}
    }
    tail_fin(a, b, c)
}

#[cfg(target_arch = "x86_64")]
#[target_feature(enable = "sse2")]
pub unsafe fn tail_pos_rebased_ok(h: &[u8], n: &[u8], pos: usize) -> Option<usize> {
    h[pos..].windows(n.len()).position(|w| w == n).map(|i| i + pos)
}

#[cfg(target_arch = "x86_64")]
#[target_feature(enable = "sse2")]
pub unsafe fn tail_pos_range_ok(h: &[u8], n: &[u8], pos: usize) -> Option<usize> {
    (pos..=h.len().saturating_sub(n.len())).find(|&i| &h[i..i + n.len()] == n)
}

#[cfg(target_arch = "x86_64")]
#[target_feature(enable = "sse2")]
pub unsafe fn tail_pos_relative_bad(h: &[u8], n: &[u8], pos: usize) -> Option<usize> {
    h[pos..].windows(n.len()).position(|w| w == n)
}

// ---------------------------------------------------------------------------------------------------------------
// dirty-flag discipline (E-dirty)
// ---------------------------------------------------------------------------------------------------------------
pub struct DirtyDb {
    pub items: Vec<u32>,
    pub path: std::path::PathBuf,
    dirty: bool,
}

impl DirtyDb {
    pub fn dirty_save(&mut self) -> std::io::Result<()> {
        if !self.dirty {
            return Ok(());
        }
        let bytes: Vec<u8> = self.items.iter().flat_map(|v| v.to_le_bytes()).collect();
        std::fs::write(&self.path, bytes)?;
        self.dirty = false;
        Ok(())
    }

    pub fn dirty_add_ok(&mut self, v: u32) {
        self.items.push(v);
        self.dirty = true;
    }

    pub fn dirty_pop_ok(&mut self) -> bool {
        let Some(_) = self.items.pop() else {
            return false;
        };
        self.dirty = true;
        true
    }

    /// the early return for a value that is already present reorders the list and forgets the flag
    pub fn dirty_touch_bad(&mut self, v: u32) -> bool {
        if let Some(i) = self.items.iter().position(|x| *x == v) {
            self.items.swap(0, i);
            return true;
        }
        self.items.push(v);
        self.dirty = true;
        true
    }

    /// marked before the flush, mutated after it
    pub fn dirty_flush_then_add_bad(&mut self, v: u32) -> std::io::Result<()> {
        self.dirty = true;
        if self.items.len() >= 4 {
            self.dirty_save()?;
        }
        self.items.push(v);
        Ok(())
    }
}

// ---------------------------------------------------------------------------------------------------------------
// C08 witnesses: silent narrowing on the write side
// ---------------------------------------------------------------------------------------------------------------
pub fn narrow_len_bad(names: &[String], out: &mut Vec<u8>) {
    out.push(names.len() as u8);
    for n in names {
        out.extend_from_slice(n.as_bytes());
    }
}

pub fn narrow_len_guarded_ok(name: &str, out: &mut Vec<u8>) -> bool {
    if name.len() <= 255 {
        out.push(name.len() as u8);
        out.extend_from_slice(name.as_bytes());
        true
    } else {
        false
    }
}

pub fn narrow_len_min_ok(name: &str, out: &mut Vec<u8>) {
    let n = name.len().min(255);
    out.push(n as u8);
    out.extend_from_slice(&name.as_bytes()[..n]);
}

pub fn narrow_emit_bytes_ok(v: u64, out: &mut Vec<u8>) {
    let bytes = [(v >> 16) as u8, (v >> 8) as u8, v as u8];
    out.extend_from_slice(&bytes);
    out.push((v & 0xff) as u8);
}

// ---------------------------------------------------------------------------------------------------------------
// E-stale witnesses: a snapshot of a self field written back after a call that may have changed the field
// ---------------------------------------------------------------------------------------------------------------
pub struct Ring {
    head: u32,
    slots: Vec<u32>,
}

impl Ring {
    fn ring_drop_head(&mut self) {
        self.head = self.slots[self.head as usize];
    }

    fn ring_unlink(&mut self, i: u32) {
        if self.head == i {
            self.head = 0;
        }
    }

    pub fn stale_link_bad(&mut self, v: u32) {
        let old = self.head;
        self.ring_drop_head();
        self.slots[v as usize] = old;
    }

    pub fn stale_known_ok(&mut self) {
        let old = self.head;
        self.ring_unlink(old);
        self.slots[old as usize] = 0;
    }

    pub fn stale_fresh_ok(&mut self, v: u32) {
        self.ring_drop_head();
        let h = self.head;
        self.slots[v as usize] = h;
    }
}

// ---------------------------------------------------------------------------------------------------------------
// E-count witnesses: a stored count mirrors the length of a sibling Vec
// ---------------------------------------------------------------------------------------------------------------
pub struct CountHeader {
    pub num: u32,
}

pub struct CountedBlock {
    pub header: CountHeader,
    pub items: Vec<u32>,
}

impl CountedBlock {
    pub fn counted_add_ok(&mut self, v: u32) {
        self.items.push(v);
        self.header.num = self.items.len() as u32;
    }
}

pub fn counted_remove_bad(blocks: &mut [CountedBlock], v: u32) -> bool {
    let mut removed = false;
    for b in blocks.iter_mut() {
        let before = b.items.len();
        b.items.retain(|x| *x != v);
        if b.items.len() < before {
            removed = true;
        }
    }
    removed
}

pub fn counted_remove_ok(blocks: &mut [CountedBlock], v: u32) -> bool {
    let mut removed = false;
    for b in blocks.iter_mut() {
        let before = b.items.len();
        b.items.retain(|x| *x != v);
        if b.items.len() < before {
            removed = true;
            b.header.num = b.items.len() as u32;
        }
    }
    removed
}

// ---------------------------------------------------------------------------------------------------------------
// E-digest witnesses: a stored digest over the struct's own fields is computed last
// ---------------------------------------------------------------------------------------------------------------
pub mod jenkins {
    pub fn hashlittle(data: &[u8], init: u32) -> u32 {
        data.iter().fold(init, |a, b| a.rotate_left(5) ^ u32::from(*b))
    }
}

pub struct SealedFooter {
    pub width: u8,
    pub count: u32,
    pub seal: u32,
}

impl SealedFooter {
    pub fn seal_value(&self) -> u32 {
        let mut d = vec![self.width];
        d.extend_from_slice(&self.count.to_le_bytes());
        jenkins::hashlittle(&d, 0)
    }

    pub fn sealed_new(count: u32) -> Self {
        let mut f = Self { width: 4, count, seal: 0 };
        f.seal = f.seal_value();
        f
    }
}

pub fn sealed_reconfigure_ok(count: u32, width: u8) -> SealedFooter {
    let mut f = SealedFooter::sealed_new(count);
    f.width = width;
    f.seal = f.seal_value();
    f
}

pub fn sealed_reconfigure_bad(count: u32, width: u8) -> SealedFooter {
    let mut f = SealedFooter::sealed_new(count);
    f.width = width;
    f
}

// ---------------------------------------------------------------------------------------------------------------
// E-bitfield witnesses
// ---------------------------------------------------------------------------------------------------------------
pub fn pack_fields_ok(id: u32, offset: u32) -> u32 {
    (id << 30) | (offset & 0x3FFF_FFFF)
}

pub fn pack_fields_bad(id: u32, offset: u32) -> u32 {
    (id << 30) | (offset & 0x03FF_FFFF)
}

pub fn unpack_fields_ok(w: u32) -> (u32, u32) {
    (w >> 30, w & 0x3FFF_FFFF)
}

// ---------------------------------------------------------------------------------------------------------------
// E-names witnesses: sibling fields mixed up
// ---------------------------------------------------------------------------------------------------------------
pub struct PageCfg {
    pub ckey_page_size_kb: u16,
    pub ekey_page_size_kb: u16,
}

pub fn sibling_sizes_ok(c: &PageCfg) -> (usize, usize) {
    let ckey_page_size = c.ckey_page_size_kb as usize * 1024;
    let ekey_page_size = c.ekey_page_size_kb as usize * 1024;
    (ckey_page_size, ekey_page_size)
}

pub fn sibling_sizes_bad(c: &PageCfg) -> (usize, usize) {
    let ckey_page_size = c.ckey_page_size_kb as usize * 1024;
    let ekey_page_size = c.ckey_page_size_kb as usize * 1024;
    (ckey_page_size, ekey_page_size)
}
