//! C6 demo: LruManager::evict_to_target calls evict_tail() and only tests
//! is_none(); the freed slot indices are never pushed onto free_list. A
//! tracker that was filled and then trimmed has no free slot and an empty
//! list, so every later touch() returns false.
#![allow(clippy::expect_used, clippy::unwrap_used)]

use cascette_client_storage::lru::LruManager;

#[test]
fn c6_touch_after_evict_to_target() {
    let dir = tempfile::tempdir().expect("tempdir");
    let mut lru = LruManager::new(4, dir.path().to_path_buf());

    for i in 1..=4u8 {
        assert!(lru.touch(&[i; 9]), "fill slot {i}");
    }
    assert_eq!(lru.len(), 4);

    // Trim: free 4 entries' worth of bytes.
    let (evicted, freed) = lru.evict_to_target(4 * 100, 100);
    assert_eq!((evicted, freed), (4, 400));
    assert_eq!(lru.len(), 0);

    // The tracker is empty and has capacity 4: new keys must be accepted.
    let accepted: Vec<bool> = (10..14u8).map(|i| lru.touch(&[i; 9])).collect();
    eprintln!("touch results after evict_to_target: {accepted:?}; len = {}", lru.len());
    assert_eq!(accepted, vec![true; 4], "empty tracker refuses new keys (slots leaked)");
    assert_eq!(lru.len(), 4);
}

#[test]
fn c6_partial_trim_keeps_capacity() {
    let dir = tempfile::tempdir().expect("tempdir");
    let mut lru = LruManager::new(4, dir.path().to_path_buf());
    for i in 1..=4u8 {
        lru.touch(&[i; 9]);
    }
    // Evict 2 of 4, then add 2 new keys: nothing that is still live should be
    // pushed out, because two slots are free.
    assert_eq!(lru.evict_to_target(200, 100).0, 2);
    assert!(lru.touch(&[10; 9]));
    assert!(lru.touch(&[11; 9]));
    eprintln!("len after partial trim + 2 touches = {}", lru.len());
    assert_eq!(lru.len(), 4, "capacity shrank: live entries were evicted instead of reusing freed slots");
    assert!(lru.contains(&[3; 9]) && lru.contains(&[4; 9]));
}
