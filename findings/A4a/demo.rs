//! A4a demo: EncodingFile::parse - allocation sizes taken from header count fields.
#![allow(clippy::expect_used, clippy::unwrap_used, clippy::panic, unsafe_code, dead_code)]

/// Counting allocator: records the largest single allocation request and REFUSES (returns null)
/// any single request above 1 GiB.  A refused request makes the Rust runtime print
/// "memory allocation of N bytes failed" and abort the test process (SIGABRT) - that abort IS
/// the demonstration for the multi-GB cases.  Requests below the limit are served normally and
/// the recorded maximum is compared against the input length afterwards.
mod guard {
    use std::alloc::{GlobalAlloc, Layout, System};
    use std::sync::atomic::{AtomicUsize, Ordering};

    pub const LIMIT: usize = 1 << 30; // 1 GiB
    pub static MAX_REQ: AtomicUsize = AtomicUsize::new(0);

    pub struct Guard;

    fn note(size: usize) -> bool {
        MAX_REQ.fetch_max(size, Ordering::SeqCst);
        size <= LIMIT
    }

    unsafe impl GlobalAlloc for Guard {
        unsafe fn alloc(&self, l: Layout) -> *mut u8 {
            if note(l.size()) { unsafe { System.alloc(l) } } else { std::ptr::null_mut() }
        }
        unsafe fn alloc_zeroed(&self, l: Layout) -> *mut u8 {
            if note(l.size()) { unsafe { System.alloc_zeroed(l) } } else { std::ptr::null_mut() }
        }
        unsafe fn realloc(&self, p: *mut u8, l: Layout, new_size: usize) -> *mut u8 {
            if note(new_size) { unsafe { System.realloc(p, l, new_size) } } else { std::ptr::null_mut() }
        }
        unsafe fn dealloc(&self, p: *mut u8, l: Layout) {
            unsafe { System.dealloc(p, l) }
        }
    }

    pub fn reset() {
        MAX_REQ.store(0, Ordering::SeqCst);
    }
    pub fn max() -> usize {
        MAX_REQ.load(Ordering::SeqCst)
    }
    /// Generous proportionality bound: 1 MiB + 64 x input length.
    pub fn bound(input_len: usize) -> usize {
        (1 << 20) + 64 * input_len
    }
    /// Run `f`, then report and assert the largest single request made while it ran.
    pub fn check<T>(what: &str, input_len: usize, f: impl FnOnce() -> T) -> T {
        eprintln!("[{what}] input_len={input_len} bytes; calling parser (requests > 1 GiB are refused -> abort)");
        reset();
        let r = f();
        let m = max();
        eprintln!("[{what}] input_len={input_len} bytes, largest single allocation request = {m} bytes");
        assert!(
            m <= bound(input_len),
            "[{what}] largest single allocation request {m} bytes is out of proportion to the {input_len}-byte input (bound {})",
            bound(input_len)
        );
        r
    }
}

#[global_allocator]
static GLOBAL: guard::Guard = guard::Guard;

use cascette_formats::encoding::EncodingFile;

/// 22-byte header. Fields (big-endian): "EN", version, ckey_hash, ekey_hash, ckey_page_kb(u16),
/// ekey_page_kb(u16), ckey_page_count(u32), ekey_page_count(u32), flags, espec_block_size(u32).
fn header(ckey_kb: u16, ekey_kb: u16, ckey_pages: u32, ekey_pages: u32, espec: u32) -> Vec<u8> {
    let mut v = vec![b'E', b'N', 1, 16, 16];
    v.extend_from_slice(&ckey_kb.to_be_bytes());
    v.extend_from_slice(&ekey_kb.to_be_bytes());
    v.extend_from_slice(&ckey_pages.to_be_bytes());
    v.extend_from_slice(&ekey_pages.to_be_bytes());
    v.push(0);
    v.extend_from_slice(&espec.to_be_bytes());
    assert_eq!(v.len(), 22);
    v
}

/// file.rs:219  vec![0u8; header.espec_block_size]  - 22-byte input, espec_block_size = 0xFFFF_FFFF
#[test]
fn a4a_1_espec_block_size() {
    let data = header(4, 4, 1, 1, 0xFFFF_FFFF);
    let r = guard::check("A4a file.rs:219 espec_block_size", data.len(), || EncodingFile::parse(&data).map(|_| ()));
    eprintln!("result: {:?}", r.map_err(|e| e.to_string()));
}

/// file.rs:224  Vec::with_capacity(header.ckey_page_count)  - 24-byte input
#[test]
fn a4a_2_ckey_page_count() {
    let mut data = header(4, 4, 0xFFFF_FFFF, 1, 2);
    data.extend_from_slice(b"n\0"); // valid 2-byte espec table
    let r = guard::check("A4a file.rs:224 ckey_page_count", data.len(), || EncodingFile::parse(&data).map(|_| ()));
    eprintln!("result: {:?}", r.map_err(|e| e.to_string()));
}

/// file.rs:46/56 parse_ckey_pages: with_capacity(ckey_page_count) + vec![0; ckey_page_size].
/// The index loop before it needs 32 bytes of input per page, so the COUNT is bounded by the
/// input here; the page size is not: 65535 KiB page with a 56-byte input.
#[test]
fn a4a_3_ckey_page_size() {
    let mut data = header(0xFFFF, 4, 1, 1, 2);
    data.extend_from_slice(b"n\0");
    data.extend_from_slice(&[0u8; 32]); // one ckey index entry
    let r = guard::check("A4a file.rs:56 ckey_page_size (u16 KiB)", data.len(), || EncodingFile::parse(&data).map(|_| ()));
    eprintln!("result: {:?}", r.map_err(|e| e.to_string()));
}

/// file.rs:239  Vec::with_capacity(header.ekey_page_count): reached after ONE valid 1 KiB ckey page.
#[test]
fn a4a_4_ekey_page_count() {
    let mut data = header(1, 4, 1, 0xFFFF_FFFF, 2);
    data.extend_from_slice(b"n\0");
    let page = vec![0u8; 1024]; // all-zero page = padding only, parses as an empty page
    let digest = md5::compute(&page);
    data.extend_from_slice(&[0u8; 16]); // first_key
    data.extend_from_slice(&digest.0); // checksum
    data.extend_from_slice(&page);
    let r = guard::check("A4a file.rs:239 ekey_page_count", data.len(), || EncodingFile::parse(&data).map(|_| ()));
    eprintln!("result: {:?}", r.map_err(|e| e.to_string()));
}
