//! Demonstration: the TVFS path table parser recurses without a depth limit.
//!
//! `tvfs::path_table::parse_directory` calls itself once per folder node. The
//! header carries a `max_depth` field but nothing enforces it (or any other
//! limit), so a path table made of nested, otherwise empty folder nodes
//! (5 bytes each) overflows the stack. That aborts the whole process (SIGABRT)
//! instead of returning `Err(TvfsError)`.
//!
//! A stack overflow cannot be caught inside the test process, so each test
//! re-executes this test binary as a child (selected by an env var) and the
//! parent only checks how the child ended.
//!
//! Run: cargo test --offline -p cascette-formats --test rec_2

#![allow(clippy::expect_used, clippy::unwrap_used, clippy::panic)]

use cascette_formats::tvfs::{PathTable, PathTreeNode, TvfsFile};
use std::process::Command;

/// When set, the test runs in child mode and its value selects the input.
const CHILD_ENV: &str = "REC_2_CHILD_INPUT";

/// Nesting levels in the hostile input: 100 000 folders = 500 000 bytes.
const LEVELS: usize = 100_000;

/// `levels` nested folder nodes with no names and no files.
///
/// Each node is `0xFF` + big-endian u32 `0x8000_0000 | len`, where `len`
/// counts the 4 value bytes plus everything nested inside the folder.
fn nested_folders(levels: usize) -> Vec<u8> {
    let mut data = Vec::with_capacity(levels * 5);
    for i in 0..levels {
        let remaining = 5 * (levels - 1 - i);
        let node_value = 0x8000_0000_u32 | u32::try_from(4 + remaining).unwrap();
        data.push(0xFF);
        data.extend_from_slice(&node_value.to_be_bytes());
    }
    data
}

/// Minimal 38-byte TVFS header (flags 0) followed by `path_table`; the VFS and
/// container tables are empty and sit right after it.
fn tvfs_file(path_table: &[u8], max_depth: u16) -> Vec<u8> {
    let path_size = u32::try_from(path_table.len()).unwrap();
    let mut f = Vec::new();
    f.extend_from_slice(b"TVFS");
    f.extend_from_slice(&[1, 38, 9, 9]); // version, header size, ekey size, pkey size
    f.extend_from_slice(&0_u32.to_be_bytes()); // flags
    f.extend_from_slice(&38_u32.to_be_bytes()); // path table offset
    f.extend_from_slice(&path_size.to_be_bytes()); // path table size
    f.extend_from_slice(&(38 + path_size).to_be_bytes()); // vfs table offset
    f.extend_from_slice(&0_u32.to_be_bytes()); // vfs table size
    f.extend_from_slice(&(38 + path_size).to_be_bytes()); // cft table offset
    f.extend_from_slice(&0_u32.to_be_bytes()); // cft table size
    f.extend_from_slice(&max_depth.to_be_bytes()); // max depth (never enforced)
    assert_eq!(f.len(), 38);
    f.extend_from_slice(path_table);
    f
}

/// Child mode: call the parser and report how it returned.
fn child(kind: &str) {
    match kind {
        "path_table" => match PathTable::parse(&nested_folders(LEVELS)) {
            Ok(t) => {
                println!("CHILD {kind}: parser returned Ok");
                // Only the parser is under test here, not the recursive Drop.
                std::mem::forget(t);
            }
            Err(e) => println!("CHILD {kind}: parser returned Err({e})"),
        },
        "tvfs_file" => match TvfsFile::parse(&tvfs_file(&nested_folders(LEVELS), 3)) {
            Ok(t) => {
                println!("CHILD {kind}: parser returned Ok");
                std::mem::forget(t);
            }
            Err(e) => println!("CHILD {kind}: parser returned Err({e})"),
        },
        other => panic!("unknown input kind {other}"),
    }
}

/// Parent mode: re-run exactly this test in a child process and require a
/// normal exit (the parser returned, with either Ok or Err).
fn parent(test_name: &str, kind: &str) {
    let exe = std::env::current_exe().expect("current_exe");
    let out = Command::new(exe)
        .args([test_name, "--exact", "--nocapture", "--test-threads=1"])
        .env(CHILD_ENV, kind)
        .output()
        .expect("spawn child");
    let stdout = String::from_utf8_lossy(&out.stdout);
    let stderr = String::from_utf8_lossy(&out.stderr);
    println!("child status: {:?}", out.status);
    #[cfg(unix)]
    {
        use std::os::unix::process::ExitStatusExt;
        println!("child signal: {:?}", out.status.signal());
    }
    println!("child stdout:\n{stdout}");
    println!("child stderr:\n{stderr}");
    assert!(
        out.status.success(),
        "TVFS parser did not return on {LEVELS} nested folder nodes ({kind}): child ended with {:?}",
        out.status
    );
    assert!(
        stdout.contains(&format!("CHILD {kind}: parser returned")),
        "child did not reach the end of the parser call"
    );
}

fn run(test_name: &str, kind: &str) {
    match std::env::var(CHILD_ENV) {
        Ok(k) => child(&k),
        Err(_) => parent(test_name, kind),
    }
}

#[test]
fn rec_2_path_table_parse() {
    run("rec_2_path_table_parse", "path_table");
}

#[test]
fn rec_2_tvfs_file_parse() {
    run("rec_2_tvfs_file_parse", "tvfs_file");
}

/// Sanity (in-process): the generator produces well-formed tables, and
/// moderately deep ones keep parsing after the fix.
#[test]
fn rec_2_shallow_nesting_still_parses() {
    fn depth(node: &PathTreeNode) -> usize {
        node.children
            .iter()
            .map(|c| 1 + depth(c))
            .max()
            .unwrap_or(0)
    }
    for levels in [1_usize, 3, 64] {
        let table = PathTable::parse(&nested_folders(levels)).expect("shallow table parses");
        assert_eq!(depth(&table.root), levels);
        assert_eq!(table.file_count(), 0);
    }
}
