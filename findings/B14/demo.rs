//! B14: Storage::open_installation(name) joins `name` onto base_path unchecked: "../x" and absolute
//! names create installation directories (and their data/ + indices/ sub-trees) outside base_path.
#![allow(clippy::expect_used, clippy::unwrap_used, clippy::panic)]

use cascette_client_storage::{Storage, StorageConfig};

#[test]
fn b14_open_installation_escapes_base_path() {
    let sandbox = tempfile::TempDir::new().unwrap();
    let base = sandbox.path().join("root/storage");
    let storage = Storage::new(StorageConfig {
        base_path: base.clone(),
        ..StorageConfig::default()
    })
    .unwrap();

    let mut escaped = Vec::new();

    // relative traversal
    let r = storage.open_installation("../../escaped_rel");
    let rel = sandbox.path().join("escaped_rel");
    println!(
        "open_installation(\"../../escaped_rel\") -> ok={} ; {:?} exists={} children={:?}",
        r.is_ok(),
        rel,
        rel.exists(),
        children(&rel)
    );
    if rel.exists() {
        escaped.push(rel);
    }

    // absolute name: PathBuf::join replaces base_path entirely
    let abs = sandbox.path().join("escaped_abs");
    let r = storage.open_installation(abs.to_str().unwrap());
    println!(
        "open_installation({:?}) -> ok={} ; exists={} children={:?}",
        abs,
        r.is_ok(),
        abs.exists(),
        children(&abs)
    );
    if abs.exists() {
        escaped.push(abs);
    }

    println!("list_installations() = {:?}", storage.list_installations());
    assert!(
        escaped.is_empty(),
        "open_installation created {} director(ies) outside base_path {:?}: {:?}",
        escaped.len(),
        base,
        escaped
    );
}

fn children(p: &std::path::Path) -> Vec<String> {
    let mut out = Vec::new();
    fn walk(root: &std::path::Path, p: &std::path::Path, out: &mut Vec<String>) {
        if let Ok(rd) = std::fs::read_dir(p) {
            for e in rd.flatten() {
                let path = e.path();
                out.push(path.strip_prefix(root).unwrap().display().to_string());
                walk(root, &path, out);
            }
        }
    }
    walk(p, p, &mut out);
    out.sort();
    out
}
