//! C1 demo: a second, smaller write to a DynamicContainer succeeds but cannot
//! be read back because ArchiveManager::write_to_archive does not re-map the
//! archive (grew by < 64 MiB and did not double) and read_raw bounds reads by
//! the stale mmap length.
#![allow(clippy::expect_used, clippy::unwrap_used)]

use cascette_client_storage::container::{AccessMode, Container, DynamicContainer};
use cascette_crypto::EncodingKey;
use cascette_formats::CascFormat;
use cascette_formats::blte::{BlteFile, CompressionMode};

/// Encoding key the container will index the payload under: MD5(BLTE(payload)).
fn ekey_for(payload: &[u8]) -> [u8; 16] {
    let blte = BlteFile::single_chunk(payload.to_vec(), CompressionMode::None)
        .expect("blte")
        .build()
        .expect("build");
    *EncodingKey::from_data(&blte).as_bytes()
}

#[tokio::test]
async fn c1_second_smaller_write_is_readable() {
    let dir = tempfile::tempdir().expect("tempdir");
    let container = DynamicContainer::new(
        AccessMode::ReadWrite,
        dir.path().to_path_buf(),
        false,
        100,
        1024 * 1024 * 1024,
        false,
    )
    .expect("create");
    container.open().await.expect("open");

    let payloads: Vec<Vec<u8>> = vec![vec![0x11u8; 1000], vec![0x22u8; 100], vec![0x33u8; 50]];

    for (i, p) in payloads.iter().enumerate() {
        container
            .write(&[i as u8; 16], p)
            .await
            .unwrap_or_else(|e| panic!("write #{i} ({} bytes) failed: {e}", p.len()));
    }
    let on_disk = std::fs::metadata(dir.path().join("data.000")).expect("stat").len();
    eprintln!("data.000 on disk: {on_disk} bytes");

    let mut failures = Vec::new();
    for (i, p) in payloads.iter().enumerate() {
        let ekey = ekey_for(p);
        assert!(container.query(&ekey).await.expect("query"), "entry #{i} indexed");
        let mut buf = vec![0u8; p.len() + 64];
        match container.read(&ekey, 0, 0, &mut buf).await {
            Ok(n) if &buf[..n] == p.as_slice() => eprintln!("read #{i} ({} bytes): OK", p.len()),
            Ok(n) => failures.push(format!("read #{i}: wrong data, {n} bytes")),
            Err(e) => failures.push(format!("read #{i} ({} bytes): {e}", p.len())),
        }
    }
    assert!(failures.is_empty(), "acknowledged writes not readable: {failures:#?}");
}
