//! B12: RetryPolicy::execute
//!  (a) the initial backoff is not capped by max_backoff (initial 5 s, max 1 s -> first wait is 5 s);
//!  (b) a negative multiplier (CASCETTE_BACKOFF_MULTIPLIER=-1 via from_env, or a struct literal) makes
//!      Duration::from_secs_f64((backoff * multiplier).min(max)) panic after the first retry.
//! (tokio's `test-util` feature is not enabled in this workspace, so waits are measured in real time.)
#![allow(clippy::expect_used, clippy::unwrap_used, clippy::panic)]
#![allow(unsafe_code)]

use cascette_protocol::{ProtocolError, RetryPolicy};
use std::time::{Duration, Instant};

#[tokio::test]
async fn b12a_initial_backoff_not_capped_by_max_backoff() {
    let policy = RetryPolicy {
        max_attempts: 1,
        initial_backoff: Duration::from_secs(5),
        max_backoff: Duration::from_secs(1),
        multiplier: 2.0,
        jitter: false,
    };
    let mut calls = Vec::new();
    let t0 = Instant::now();
    let r: Result<(), ProtocolError> = policy
        .execute(|| {
            calls.push(t0.elapsed());
            async { Err(ProtocolError::Timeout) }
        })
        .await;
    assert!(r.is_err());
    let wait = calls[1] - calls[0];
    println!("initial_backoff=5s max_backoff=1s jitter=off -> wait before retry #1 = {wait:?}");
    assert!(
        wait <= Duration::from_millis(1500),
        "first retry waited {wait:?}, exceeding max_backoff = 1s"
    );
}

#[tokio::test]
async fn b12b_negative_multiplier_panics() {
    unsafe {
        std::env::set_var("CASCETTE_BACKOFF_MULTIPLIER", "-1");
        std::env::set_var("CASCETTE_RETRY_BACKOFF", "10");
        std::env::set_var("CASCETTE_RETRY_JITTER", "false");
    }
    let policy = RetryPolicy::from_env().expect("from_env accepts the value");
    println!("from_env -> {policy:?}");
    assert!(policy.multiplier < 0.0);

    // run in a task so that the panic is observable as a JoinError instead of aborting the test
    let h = tokio::spawn(async move {
        let mut n = 0u32;
        let r: Result<(), ProtocolError> = policy
            .execute(|| {
                n += 1;
                async { Err(ProtocolError::Timeout) }
            })
            .await;
        (n, r.is_err())
    });
    match h.await {
        Ok((n, is_err)) => println!("execute returned normally after {n} calls (is_err={is_err})"),
        Err(e) => panic!("RetryPolicy::execute panicked with multiplier=-1: {e}"),
    }
}
