//! C9 demo: tcp::handle_connection reads the command with
//! `reader.read_line(&mut command)` under a 10 s timeout but without any size
//! bound. A client that sends an endless line (no '\n') makes the server
//! buffer everything it receives for up to 10 s - per connection.
//!
//! The server runs inside this test process, so a counting global allocator
//! observes the server-side buffering directly (the client only ever owns one
//! 64 KiB chunk).
#![allow(clippy::unwrap_used, clippy::expect_used, unsafe_code)]

use std::alloc::{GlobalAlloc, Layout, System};
use std::io::Write;
use std::sync::Arc;
use std::sync::atomic::{AtomicUsize, Ordering};
use std::time::{Duration, Instant};

use cascette_ribbit::{AppState, ServerConfig};
use tokio::io::{AsyncReadExt, AsyncWriteExt};
use tokio::net::TcpStream;

struct Counting;
static LIVE: AtomicUsize = AtomicUsize::new(0);
static PEAK: AtomicUsize = AtomicUsize::new(0);
static LARGEST: AtomicUsize = AtomicUsize::new(0);

fn on_alloc(size: usize) {
    let live = LIVE.fetch_add(size, Ordering::Relaxed) + size;
    PEAK.fetch_max(live, Ordering::Relaxed);
    LARGEST.fetch_max(size, Ordering::Relaxed);
}

unsafe impl GlobalAlloc for Counting {
    unsafe fn alloc(&self, l: Layout) -> *mut u8 {
        on_alloc(l.size());
        unsafe { System.alloc(l) }
    }
    unsafe fn dealloc(&self, p: *mut u8, l: Layout) {
        LIVE.fetch_sub(l.size(), Ordering::Relaxed);
        unsafe { System.dealloc(p, l) }
    }
    unsafe fn realloc(&self, p: *mut u8, l: Layout, new_size: usize) -> *mut u8 {
        LIVE.fetch_sub(l.size(), Ordering::Relaxed);
        on_alloc(new_size);
        unsafe { System.realloc(p, l, new_size) }
    }
}

#[global_allocator]
static GLOBAL: Counting = Counting;

const MIB: usize = 1024 * 1024;

fn test_state() -> (tempfile::NamedTempFile, Arc<AppState>) {
    let mut file = tempfile::NamedTempFile::new().unwrap();
    file.write_all(
        br#"[{"id":1,"product":"wow","version":"1.14.2.42597","build":"42597",
        "build_config":"0123456789abcdef0123456789abcdef","cdn_config":"fedcba9876543210fedcba9876543210",
        "keyring":null,"product_config":null,"build_time":"2024-01-01T00:00:00+00:00",
        "encoding_ekey":"aaaabbbbccccddddeeeeffffaaaaffff","root_ekey":"bbbbccccddddeeeeffffaaaabbbbcccc",
        "install_ekey":"ccccddddeeeeffffaaaabbbbccccdddd","download_ekey":"ddddeeeeffffaaaabbbbccccddddeeee"}]"#,
    )
    .unwrap();
    let config = ServerConfig {
        http_bind: "127.0.0.1:0".parse().unwrap(),
        tcp_bind: "127.0.0.1:0".parse().unwrap(),
        builds: file.path().to_path_buf(),
        cdn_hosts: "cdn.test.com".to_string(),
        cdn_path: "test/path".to_string(),
        tls_cert: None,
        tls_key: None,
    };
    let state = Arc::new(AppState::new(&config).unwrap());
    (file, state)
}

async fn connect(addr: std::net::SocketAddr) -> TcpStream {
    for _ in 0..100 {
        if let Ok(s) = TcpStream::connect(addr).await {
            return s;
        }
        tokio::time::sleep(Duration::from_millis(20)).await;
    }
    panic!("server did not come up on {addr}");
}

#[tokio::test(flavor = "multi_thread", worker_threads = 2)]
async fn c9_endless_line_is_not_buffered() {
    let (_db, state) = test_state();

    // Pick a free port, then run the *real* server (start_server binds itself).
    let probe = std::net::TcpListener::bind("127.0.0.1:0").unwrap();
    let addr = probe.local_addr().unwrap();
    drop(probe);
    let server = tokio::spawn(cascette_ribbit::tcp::start_server(addr, state));

    // Sanity: a normal command works.
    let mut ok = connect(addr).await;
    ok.write_all(b"v2/products/wow/versions\n").await.unwrap();
    let mut resp = String::new();
    ok.read_to_string(&mut resp).await.unwrap();
    assert!(resp.contains("Region!STRING:0"), "normal command answered: {resp:?}");

    // Attack: 64 MiB without a newline.
    let total = 64 * MIB;
    let chunk = vec![b'A'; 64 * 1024];
    let mut evil = connect(addr).await;

    let live_before = LIVE.load(Ordering::Relaxed);
    PEAK.store(live_before, Ordering::Relaxed);
    LARGEST.store(0, Ordering::Relaxed);
    let t0 = Instant::now();

    let mut sent = 0usize;
    let mut write_err = None;
    while sent < total {
        match evil.write_all(&chunk).await {
            Ok(()) => sent += chunk.len(),
            Err(e) => {
                write_err = Some(e.kind());
                break;
            }
        }
    }
    // Give the server a moment to drain the socket.
    tokio::time::sleep(Duration::from_millis(500)).await;

    let peak_growth = PEAK.load(Ordering::Relaxed).saturating_sub(live_before);
    let largest = LARGEST.load(Ordering::Relaxed);
    eprintln!(
        "sent {} MiB without newline in {:?} (client write error: {write_err:?})",
        sent / MIB,
        t0.elapsed()
    );
    eprintln!(
        "server-side heap growth while receiving: peak +{} MiB, largest single allocation request {} MiB",
        peak_growth / MIB,
        largest / MIB
    );
    drop(evil);

    // Server still serves others.
    let mut ok = connect(addr).await;
    ok.write_all(b"v2/products/wow/versions\n").await.unwrap();
    let mut resp = String::new();
    ok.read_to_string(&mut resp).await.unwrap();
    assert!(resp.contains("Region!STRING:0"));
    server.abort();

    assert!(
        peak_growth < MIB,
        "server buffered the unterminated line: heap grew by {} MiB for one connection (no command length limit)",
        peak_growth / MIB
    );
}
