//! Triage finding 1: `is_v1_mime_response` slices a lossy-decoded string at
//! byte 512 without checking that 512 is a UTF-8 character boundary.
//!
//! Both copies of the function are exercised:
//! - `cascette_protocol::mime_parser::is_v1_mime_response`
//! - `cascette_protocol::v1_mime::is_v1_mime_response`
//!
//! Each call must return normally (true or false) for any input bytes.

use std::panic::catch_unwind;

/// 511 ASCII bytes, then U+00E9 (0xC3 0xA9) occupying bytes 511..513.
/// Valid UTF-8, 517 bytes. Byte index 512 is inside the two-byte character.
fn valid_utf8_straddling_512() -> Vec<u8> {
    let mut v = vec![b'a'; 511];
    v.extend_from_slice("\u{e9}".as_bytes());
    v.extend_from_slice(b"tail");
    v
}

/// 510 ASCII bytes, then the invalid byte 0xFF. `String::from_utf8_lossy`
/// replaces 0xFF by U+FFFD (3 bytes, 510..513), so byte index 512 of the
/// lossy string is inside the replacement character.
fn invalid_utf8_before_512() -> Vec<u8> {
    let mut v = vec![b'a'; 510];
    v.push(0xFF);
    v.extend_from_slice(b"tail");
    v
}

#[test]
fn mime_parser_valid_utf8_straddling_512() {
    let input = valid_utf8_straddling_512();
    let r = catch_unwind(|| cascette_protocol::mime_parser::is_v1_mime_response(&input));
    assert!(r.is_ok(), "mime_parser::is_v1_mime_response panicked");
}

#[test]
fn mime_parser_invalid_utf8_before_512() {
    let input = invalid_utf8_before_512();
    let r = catch_unwind(|| cascette_protocol::mime_parser::is_v1_mime_response(&input));
    assert!(r.is_ok(), "mime_parser::is_v1_mime_response panicked");
}

#[test]
fn v1_mime_valid_utf8_straddling_512() {
    let input = valid_utf8_straddling_512();
    let r = catch_unwind(|| cascette_protocol::v1_mime::is_v1_mime_response(&input));
    assert!(r.is_ok(), "v1_mime::is_v1_mime_response panicked");
}

#[test]
fn v1_mime_invalid_utf8_before_512() {
    let input = invalid_utf8_before_512();
    let r = catch_unwind(|| cascette_protocol::v1_mime::is_v1_mime_response(&input));
    assert!(r.is_ok(), "v1_mime::is_v1_mime_response panicked");
}

/// Detection still works when the headers are in the first 512 bytes and a
/// multi-byte character straddles byte 512.
#[test]
fn detection_still_works_with_multibyte_tail() {
    let mut input = b"Content-Type: multipart/alternative; boundary=x\r\n\r\n".to_vec();
    input.resize(511, b'a');
    input.extend_from_slice("\u{e9}".as_bytes());
    input.extend_from_slice(b"tail");
    let a = catch_unwind(|| cascette_protocol::mime_parser::is_v1_mime_response(&input));
    let b = catch_unwind(|| cascette_protocol::v1_mime::is_v1_mime_response(&input));
    assert!(matches!(a, Ok(true)), "mime_parser: {a:?}");
    assert!(matches!(b, Ok(true)), "v1_mime: {b:?}");
}
