//! A4f demo: ChunkedArchiveIndex::open - chunk_count from footer.element_count (no validate_file_size).
#![allow(clippy::expect_used, clippy::unwrap_used, clippy::panic, unsafe_code, dead_code)]

/// Counting allocator: records the largest single allocation request and REFUSES (returns null)
/// any single request above 1 GiB.  A refused request makes the Rust runtime print
/// "memory allocation of N bytes failed" and abort the test process (SIGABRT) - that abort IS
/// the demonstration for the multi-GB cases.  Requests below the limit are served normally and
/// the recorded maximum is compared against the input length afterwards.
mod guard {
    use std::alloc::{GlobalAlloc, Layout, System};
    use std::sync::atomic::{AtomicUsize, Ordering};

    pub const LIMIT: usize = 1 << 30; // 1 GiB
    pub static MAX_REQ: AtomicUsize = AtomicUsize::new(0);

    pub struct Guard;

    fn note(size: usize) -> bool {
        MAX_REQ.fetch_max(size, Ordering::SeqCst);
        size <= LIMIT
    }

    unsafe impl GlobalAlloc for Guard {
        unsafe fn alloc(&self, l: Layout) -> *mut u8 {
            if note(l.size()) { unsafe { System.alloc(l) } } else { std::ptr::null_mut() }
        }
        unsafe fn alloc_zeroed(&self, l: Layout) -> *mut u8 {
            if note(l.size()) { unsafe { System.alloc_zeroed(l) } } else { std::ptr::null_mut() }
        }
        unsafe fn realloc(&self, p: *mut u8, l: Layout, new_size: usize) -> *mut u8 {
            if note(new_size) { unsafe { System.realloc(p, l, new_size) } } else { std::ptr::null_mut() }
        }
        unsafe fn dealloc(&self, p: *mut u8, l: Layout) {
            unsafe { System.dealloc(p, l) }
        }
    }

    pub fn reset() {
        MAX_REQ.store(0, Ordering::SeqCst);
    }
    pub fn max() -> usize {
        MAX_REQ.load(Ordering::SeqCst)
    }
    /// Generous proportionality bound: 1 MiB + 64 x input length.
    pub fn bound(input_len: usize) -> usize {
        (1 << 20) + 64 * input_len
    }
    /// Run `f`, then report and assert the largest single request made while it ran.
    pub fn check<T>(what: &str, input_len: usize, f: impl FnOnce() -> T) -> T {
        eprintln!("[{what}] input_len={input_len} bytes; calling parser (requests > 1 GiB are refused -> abort)");
        reset();
        let r = f();
        let m = max();
        eprintln!("[{what}] input_len={input_len} bytes, largest single allocation request = {m} bytes");
        assert!(
            m <= bound(input_len),
            "[{what}] largest single allocation request {m} bytes is out of proportion to the {input_len}-byte input (bound {})",
            bound(input_len)
        );
        r
    }
}

#[global_allocator]
static GLOBAL: guard::Guard = guard::Guard;

use cascette_formats::archive::ChunkedArchiveIndex;
use std::io::Write;

/// 28-byte footer with a valid footer hash.
fn footer(ekey_length: u8, element_count: u32) -> Vec<u8> {
    let (version, page_kb, offset_bytes, size_bytes, hash_bytes) = (1u8, 4u8, 4u8, 4u8, 8u8);
    let mut hashed = vec![version, 0, 0, page_kb, offset_bytes, size_bytes, ekey_length, hash_bytes];
    hashed.extend_from_slice(&element_count.to_le_bytes());
    hashed.resize(20, 0);
    let digest = md5::compute(&hashed);
    let mut f = vec![0u8; 8]; // toc_hash (not validated on open)
    f.extend_from_slice(&[version, 0, 0, page_kb, offset_bytes, size_bytes, ekey_length, hash_bytes]);
    f.extend_from_slice(&element_count.to_le_bytes());
    f.extend_from_slice(&digest.0[..8]);
    assert_eq!(f.len(), 28);
    f
}

/// 28-byte file, element_count = 0xFFFF_FFFF.  chunk_count = ceil(0xFFFFFFFF / 455) = 9_439_489, but
/// `file.seek(SeekFrom::End(-(footer + chunk_count * 9)))` at index.rs:1178 runs BEFORE
/// Vec::with_capacity(chunk_count) and fails (negative file position) unless the TOC fits in the file.
#[test]
fn a4f_1_tiny_file_huge_element_count() {
    let mut tmp = tempfile::NamedTempFile::new().unwrap();
    tmp.write_all(&footer(1, 0xFFFF_FFFF)).unwrap();
    tmp.flush().unwrap();
    let path = tmp.path().to_path_buf();
    let r = guard::check("A4f open(), 28-byte file, element_count=0xFFFFFFFF", 28, || ChunkedArchiveIndex::open(&path).map(|_| ()));
    eprintln!("result: {:?}", r.as_ref().map_err(|e| e.to_string()));
    assert!(r.is_err());
}

/// Worst case ratio: the file must contain chunk_count * (ekey_length + 8) TOC bytes for the seek to
/// succeed, so chunk_count <= file_len / 9 and the two chunk_count-sized vectors (24-byte elements)
/// are <= 24/9 = 2.67 x file length each.  1 MiB (sparse) file + footer, ekey_length = 1.
#[test]
fn a4f_2_largest_count_that_fits() {
    let file_len: u64 = 1 << 20;
    let chunk_count = (file_len - 28) / 9; // 116_505
    let element_count = (chunk_count * 455) as u32;
    let mut tmp = tempfile::NamedTempFile::new().unwrap();
    tmp.as_file().set_len(file_len - 28).unwrap();
    use std::io::{Seek, SeekFrom};
    tmp.as_file_mut().seek(SeekFrom::End(0)).unwrap();
    tmp.write_all(&footer(1, element_count)).unwrap();
    tmp.flush().unwrap();
    let path = tmp.path().to_path_buf();
    let r = guard::check("A4f open(), 1 MiB file, max chunk_count that fits", file_len as usize, || {
        ChunkedArchiveIndex::open(&path).map(|_| ())
    });
    eprintln!(
        "result: {:?}; chunk_count={chunk_count}; ratio largest_request/file_len = {:.2}",
        r.as_ref().map_err(|e| e.to_string()),
        guard::max() as f64 / file_len as f64
    );
    assert!(r.is_ok());
}
