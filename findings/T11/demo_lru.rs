use cascette_client_storage::lru::LruManager;

#[test]
fn evict_tail_keeps_capacity() {
    let dir = tempfile::tempdir().unwrap();
    let mut lru = LruManager::new(1, dir.path().to_path_buf());
    assert!(lru.touch(&[1u8; 9]));
    assert!(lru.evict_tail().is_some());
    // capacity 1, empty tracker: touching a key must succeed
    assert!(lru.touch(&[2u8; 9]), "capacity lost after evict_tail");
    // larger capacity: evict everything by hand, then refill
    let mut lru = LruManager::new(3, dir.path().to_path_buf());
    for k in 1..=3u8 { assert!(lru.touch(&[k; 9])); }
    while lru.evict_tail().is_some() {}
    for k in 4..=6u8 { assert!(lru.touch(&[k; 9])); }
    assert_eq!(lru.len(), 3, "three keys must fit in a capacity-3 tracker after manual eviction");
}

#[tokio::test]
async fn checkpoint_after_loading_previous_generation_keeps_the_file() {
    let dir = tempfile::tempdir().unwrap();
    let mut lru = LruManager::new(4, dir.path().to_path_buf());
    lru.touch(&[1u8; 9]);
    lru.checkpoint_to_disk().await.unwrap();      // generation 1
    let g1 = lru.generation();
    lru.bump_generation();                          // prev = 1, gen = 2
    lru.load_from_disk(g1).await.unwrap();          // back to generation 1
    lru.touch(&[2u8; 9]);
    lru.checkpoint_to_disk().await.unwrap();        // writes generation 1 ... and deletes "previous" = 1
    let mut fresh = LruManager::new(4, dir.path().to_path_buf());
    fresh.load_from_disk(g1).await.expect("the checkpoint just written must be loadable");
    assert!(fresh.contains(&[2u8; 9]));
}
