//! Demo for: local index (.idx) loader adds the three header field widths in
//! `u8`, so a crafted header overflows the entry size.
//!
//! `IndexManager::read_index_header` computed
//! `(key_size + location_size + length_size) as usize` on `u8` operands taken
//! from the file. Only `key_size` was checked. With key 16 / location 120 /
//! length 120 the sum is 256:
//!
//! - debug / test profile: panic "attempt to add with overflow"
//! - release profile: the sum wraps (here to 0); any wrapped size below 9
//!   makes `parse_entries` panic on `entry_bytes[..9]` ("range end index 9
//!   out of range for slice of length 0")
//!
//! Loading such a file must return `Err`, not panic. The load runs on a
//! worker thread behind a watchdog so that a non-terminating loader would be
//! reported as `Hung` rather than blocking the test run.
#![allow(clippy::expect_used, clippy::unwrap_used, clippy::panic)]

use cascette_client_storage::index::IndexManager;
use cascette_crypto::EncodingKey;
use std::path::{Path, PathBuf};
use std::sync::mpsc;
use std::time::Duration;

/// Byte offsets inside the .idx file: 8-byte `GuardedBlockHeader`, then
/// `IndexHeaderV2 { version: u16, bucket: u8, extra_bytes: u8,
/// encoded_size_length: u8, storage_offset_length: u8, ekey_length: u8, .. }`.
const OFF_ENCODED_SIZE_LENGTH: usize = 8 + 4;
const OFF_STORAGE_OFFSET_LENGTH: usize = 8 + 5;
const OFF_EKEY_LENGTH: usize = 8 + 6;

const WATCHDOG: Duration = Duration::from_secs(10);

#[derive(Debug)]
#[allow(dead_code)] // payloads are only shown through Debug
enum Outcome {
    Ok,
    Err(String),
    Panicked(String),
    Hung,
}

/// Write one valid .idx file through the public API and return (bucket, path).
fn write_valid_index(dir: &Path) -> (u8, PathBuf) {
    let mut manager = IndexManager::new(dir);
    let ekey = EncodingKey::from_hex("0123456789abcdef0123456789abcdef").expect("valid hex key");
    manager
        .add_entry(&ekey, 1, 0x1000, 1024)
        .expect("add_entry should succeed");
    // Move the entry from the update section into the sorted entry block so
    // the entry block the loader walks is not empty.
    manager
        .flush_all_updates()
        .expect("flush_all_updates should succeed");
    manager.save_all().expect("save_all should succeed");

    let bucket = IndexManager::bucket_for_key(&ekey);
    let path = std::fs::read_dir(dir)
        .expect("read_dir")
        .filter_map(std::result::Result::ok)
        .map(|e| e.path())
        .find(|p| p.extension().is_some_and(|e| e == "idx"))
        .expect("save_all wrote one .idx file");
    (bucket, path)
}

/// Patch the three width fields of the header in place. The loader does not
/// verify the header block hash, so nothing else needs to change.
fn patch_widths(path: &Path, key: u8, location: u8, length: u8) {
    let mut bytes = std::fs::read(path).expect("read idx");
    assert_eq!(bytes[OFF_EKEY_LENGTH], 9, "unexpected header layout");
    assert_eq!(bytes[OFF_STORAGE_OFFSET_LENGTH], 5, "unexpected header layout");
    assert_eq!(bytes[OFF_ENCODED_SIZE_LENGTH], 4, "unexpected header layout");
    bytes[OFF_EKEY_LENGTH] = key;
    bytes[OFF_STORAGE_OFFSET_LENGTH] = location;
    bytes[OFF_ENCODED_SIZE_LENGTH] = length;
    std::fs::write(path, bytes).expect("write idx");
}

/// Load the file on a worker thread; report panic or hang instead of dying.
fn load_guarded(dir: &Path, bucket: u8, path: &Path) -> Outcome {
    let (tx, rx) = mpsc::channel();
    let dir = dir.to_path_buf();
    let path = path.to_path_buf();
    std::thread::spawn(move || {
        let result = std::panic::catch_unwind(move || {
            let mut manager = IndexManager::new(&dir);
            manager.load_index(bucket, &path).map_err(|e| e.to_string())
        });
        let outcome = match result {
            Ok(Ok(())) => Outcome::Ok,
            Ok(Err(e)) => Outcome::Err(e),
            Err(payload) => Outcome::Panicked(
                payload
                    .downcast_ref::<&str>()
                    .map(|s| (*s).to_string())
                    .or_else(|| payload.downcast_ref::<String>().cloned())
                    .unwrap_or_else(|| "<non-string panic>".to_string()),
            ),
        };
        let _ = tx.send(outcome);
    });
    // A hung worker thread is leaked; the test process still exits.
    rx.recv_timeout(WATCHDOG).unwrap_or(Outcome::Hung)
}

fn load_crafted(key: u8, location: u8, length: u8) -> Outcome {
    let temp_dir = tempfile::tempdir().expect("temp dir");
    let (bucket, path) = write_valid_index(temp_dir.path());
    patch_widths(&path, key, location, length);
    let outcome = load_guarded(temp_dir.path(), bucket, &path);
    println!("widths key={key} location={location} length={length}: {outcome:?}");
    outcome
}

#[test]
fn unpatched_index_still_loads() {
    let temp_dir = tempfile::tempdir().expect("temp dir");
    let (bucket, path) = write_valid_index(temp_dir.path());
    let outcome = load_guarded(temp_dir.path(), bucket, &path);
    assert!(matches!(outcome, Outcome::Ok), "got {outcome:?}");
}

/// 16 + 120 + 120 = 256: overflow panic (debug) or entry size 0 and a slice
/// panic on `entry_bytes[..9]` (release).
#[test]
fn widths_summing_to_256_are_rejected() {
    let outcome = load_crafted(16, 120, 120);
    assert!(matches!(outcome, Outcome::Err(_)), "got {outcome:?}");
}

/// 9 + 250 + 0 = 259: overflow panic (debug) or entry size 3 and a slice
/// panic on `entry_bytes[..9]` (release).
#[test]
fn widths_wrapping_below_key_size_are_rejected() {
    let outcome = load_crafted(9, 250, 0);
    assert!(matches!(outcome, Outcome::Err(_)), "got {outcome:?}");
}

/// 9 + 255 + 255 = 519: the largest value the header can express (wraps to 7).
#[test]
fn maximum_widths_are_rejected() {
    let outcome = load_crafted(9, 255, 255);
    assert!(matches!(outcome, Outcome::Err(_)), "got {outcome:?}");
}
