//! B10: path traversal through cache keys.
//!  level 1: DiskCache::get_file_path joins/pushes the raw key string -> "../" keys and absolute keys
//!           read/write outside cache_dir.
//!  level 2: RibbitTactClient::query(endpoint): validate_endpoint admits '.' and '/', the endpoint becomes the
//!           cache key "api/ribbit/<endpoint>" of a flat DiskCache -> a caller-controlled endpoint reads and
//!           writes files outside the configured cache_dir (write shown against a local wiremock TACT server).
#![allow(clippy::expect_used, clippy::unwrap_used, clippy::panic)]

use bytes::Bytes;
use cascette_cache::{
    config::DiskCacheConfig, disk_cache::DiskCache, key::CacheKey, traits::AsyncCache,
};
use cascette_protocol::{CacheConfig, ClientConfig, RibbitTactClient};
use std::time::Duration;
use wiremock::{Mock, MockServer, ResponseTemplate, matchers::method};

#[derive(Debug, Clone, PartialEq, Eq, Hash)]
struct K(String);
impl CacheKey for K {
    fn as_cache_key(&self) -> &str {
        &self.0
    }
}

const BPSV: &str = "##seqn!DEC:4|region!STRING:0|buildconfig!HEX:16|cdnconfig!HEX:16|keyring!HEX:16|buildid!DEC:4|versionsname!STRING:0|productconfig!HEX:16\n1|us|abcd1234abcd1234|cdef5678cdef5678|def90123def90123|12345|1.0.0|fedcba09fedcba09\n";

#[tokio::test]
async fn b10_level1_disk_cache_key_escapes_cache_dir() {
    let sandbox = tempfile::TempDir::new().unwrap();
    let cache_dir = sandbox.path().join("a/b/cache");
    let ttl = Duration::from_secs(60);
    let mut escaped = Vec::new();

    // flat layout (what cascette-protocol uses)
    let flat: DiskCache<K> =
        DiskCache::new(DiskCacheConfig::new(&cache_dir).with_subdirectories(false, 0)).unwrap();
    flat.put_with_ttl(K("../../escape".into()), Bytes::from_static(b"pwned-rel"), ttl).await.unwrap();
    let p = sandbox.path().join("a/escape");
    println!("flat,   key \"../../escape\"        -> wrote {:?}: {}", p, p.exists());
    if p.exists() {
        escaped.push(p);
    }

    let abs = sandbox.path().join("abs_target");
    flat.put_with_ttl(K(abs.to_str().unwrap().into()), Bytes::from_static(b"pwned-abs"), ttl).await.unwrap();
    println!("flat,   key {:?} (absolute) -> wrote: {}", abs, abs.exists());
    if abs.exists() {
        escaped.push(abs);
    }

    // read: a file outside cache_dir is served (and indexed) as a cache hit
    std::fs::write(sandbox.path().join("a/secret"), b"secret outside cache_dir").unwrap();
    let got = flat.get(&K("../../secret".into())).await.unwrap();
    println!("flat,   get \"../../secret\"        -> {:?}", got.as_ref().map(|b| String::from_utf8_lossy(b).into_owned()));
    assert_eq!(got.as_deref(), Some(&b"secret outside cache_dir"[..]));

    // hashed sub-directory layout (default): PathBuf::push of an absolute key replaces the whole path
    let hashed: DiskCache<K> = DiskCache::new(DiskCacheConfig::new(&cache_dir)).unwrap();
    let abs2 = sandbox.path().join("abs_target2");
    hashed.put_with_ttl(K(abs2.to_str().unwrap().into()), Bytes::from_static(b"pwned-abs2"), ttl).await.unwrap();
    println!("hashed, key {:?} (absolute) -> wrote: {}", abs2, abs2.exists());
    if abs2.exists() {
        escaped.push(abs2);
    }
    hashed.put_with_ttl(K("../../../escape3".into()), Bytes::from_static(b"pwned-rel3"), ttl).await.unwrap();
    let p3 = sandbox.path().join("a/b/escape3");
    println!("hashed, key \"../../../escape3\"    -> wrote {:?}: {}", p3, p3.exists());
    if p3.exists() {
        escaped.push(p3);
    }

    // remove()/expiry also delete through the same path: arbitrary file deletion
    let victim = sandbox.path().join("a/victim");
    flat.put_with_ttl(K("../../victim".into()), Bytes::from_static(b"x"), ttl).await.unwrap();
    assert!(victim.exists());
    flat.remove(&K("../../victim".into())).await.unwrap();
    println!("flat,   remove \"../../victim\"     -> file outside cache_dir deleted: {}", !victim.exists());

    assert!(
        escaped.is_empty(),
        "DiskCache wrote {} file(s) outside cache_dir {:?}: {:?}",
        escaped.len(),
        cache_dir,
        escaped
    );
}

#[tokio::test(flavor = "multi_thread", worker_threads = 2)]
async fn b10_level2_ribbit_tact_client_endpoint_escapes_cache_dir() {
    let sandbox = tempfile::TempDir::new().unwrap();
    let cache_dir = sandbox.path().join("cache");

    // local TACT-HTTP stand-in answering every GET with a valid BPSV document
    let server = MockServer::start().await;
    Mock::given(method("GET"))
        .respond_with(ResponseTemplate::new(200).set_body_string(BPSV))
        .mount(&server)
        .await;

    let config = ClientConfig {
        tact_https_url: String::new(),
        tact_http_url: server.uri(),
        cache_config: CacheConfig {
            cache_dir: Some(cache_dir.clone()),
            ..CacheConfig::default()
        },
        ..ClientConfig::default()
    };
    let client = RibbitTactClient::new(config).unwrap();

    // --- write escape -------------------------------------------------------------------------
    // The endpoint from the report, "x/../../../outside", passes validation but resolves to
    // <cache_dir>/outside (api/ribbit/x is exactly three levels deep): no escape yet, just aliasing.
    let r0 = client.query("x/../../../outside").await;
    println!(
        "query(\"x/../../../outside\")    -> ok={}; lands at <cache_dir>/outside: {} (inside cache_dir)",
        r0.is_ok(),
        cache_dir.join("outside").exists()
    );
    // One more "../" leaves cache_dir.
    let endpoint = "x/../../../../outside";
    let r = client.query(endpoint).await;
    println!("query({endpoint:?}) -> ok={} (validate_endpoint accepted it)", r.is_ok());
    let outside = sandbox.path().join("outside");
    println!(
        "cache key \"api/ribbit/{endpoint}\" -> {:?} exists: {}  (cache_dir = {:?})",
        outside,
        outside.exists(),
        cache_dir
    );
    let requests = server.received_requests().await.unwrap();
    println!("HTTP request path seen by server: {:?}", requests.iter().map(|r| r.url.path().to_string()).collect::<Vec<_>>());

    // --- read escape: a BPSV-shaped file outside cache_dir is returned as a "cache hit", no network ------
    let planted = "##attacker!STRING:0\nplanted-outside-cache-dir\n";
    std::fs::write(sandbox.path().join("planted"), planted).unwrap();
    let before = server.received_requests().await.unwrap().len();
    let doc = client.query("x/../../../../planted").await;
    let after = server.received_requests().await.unwrap().len();
    let served_from_outside = doc
        .as_ref()
        .map(|d| format!("{d:?}").contains("planted-outside-cache-dir"))
        .unwrap_or(false);
    println!(
        "query(\"x/../../../../planted\") -> ok={} served planted file content: {} (network requests made: {})",
        doc.is_ok(),
        served_from_outside,
        after - before
    );

    // control: characters other than [A-Za-z0-9/_.-] are rejected, so validation exists but misses ".."
    assert!(client.query("x/..\\..\\outside").await.is_err());

    assert!(
        !outside.exists() && !served_from_outside,
        "RibbitTactClient::query escaped cache_dir: wrote {:?} (exists={}), served planted outside file={}",
        outside,
        outside.exists(),
        served_from_outside
    );
}
