//! Triage finding 6: `LocalHeader::blte_size` computes
//! `size_with_header - 30` on a value parsed from disk. `from_bytes` accepts
//! any `size_with_header`, so a header with a size field below 30 makes the
//! subtraction underflow: a panic when overflow checks are on (dev/test
//! profile), and a wrapped value near 4 GiB in release.

use std::panic::catch_unwind;

use cascette_client_storage::storage::LocalHeader;

#[test]
fn blte_size_of_all_zero_header() {
    // 30 zero bytes: size_with_header == 0.
    let header = LocalHeader::from_bytes(&[0u8; 30]).expect("30 bytes parse");
    let r = catch_unwind(|| header.blte_size());
    assert!(r.is_ok(), "blte_size panicked for size_with_header = 0");
    assert_eq!(r.ok(), Some(0), "blte_size must not wrap around");
}

#[test]
fn blte_size_of_header_with_size_29() {
    let mut bytes = [0u8; 30];
    bytes[0x10..0x14].copy_from_slice(&29u32.to_be_bytes());
    let header = LocalHeader::from_bytes(&bytes).expect("30 bytes parse");
    let r = catch_unwind(|| header.blte_size());
    assert!(r.is_ok(), "blte_size panicked for size_with_header = 29");
    assert_eq!(r.ok(), Some(0), "blte_size must not wrap around");
}

#[test]
fn blte_size_of_regular_header_unchanged() {
    let header = LocalHeader::new([0u8; 16], 500, 0);
    assert_eq!(header.blte_size(), 500);
}
