//! C4 demo: LruManager::checkpoint_to_disk writes the new generation file in
//! place (tokio::fs::write straight to the final name) and only afterwards
//! deletes the previous generation. A crash in the middle of that write leaves
//! a truncated newest `.lru` next to a still-valid older one. Recovery
//! (run_cycle -> find_latest_lru_file -> load_from_disk) only ever looks at the
//! highest generation: its MD5 check fails and the valid older generation is
//! never tried, so the whole LRU state is lost (run_cycle returns Err).
#![allow(clippy::expect_used, clippy::unwrap_used)]

use cascette_client_storage::lru::LruManager;
use cascette_client_storage::lru::lru_file::lru_file_path;

#[tokio::test]
async fn c4_recovery_falls_back_to_older_valid_generation() {
    let dir = tempfile::tempdir().expect("tempdir");
    let data_dir = dir.path().to_path_buf();

    // --- Session 1: build state, checkpoint generation 1 (complete, valid) ---
    let mut lru = LruManager::new(16, data_dir.clone());
    for i in 1..=8u8 {
        assert!(lru.touch(&[i; 9]));
    }
    lru.checkpoint_to_disk().await.expect("checkpoint gen 1");
    let gen1 = lru_file_path(&data_dir, 1);
    let gen1_bytes = std::fs::read(&gen1).expect("gen1 exists");

    // --- Shutdown: bump to generation 2 and checkpoint ---
    lru.touch(&[9; 9]);
    lru.shutdown().await.expect("shutdown");
    let gen2 = lru_file_path(&data_dir, 2);
    let gen2_bytes = std::fs::read(&gen2).expect("gen2 exists");
    assert!(!gen1.exists(), "gen1 deleted after gen2 was written");

    // --- Build the crash image: power loss in the middle of
    // `tokio::fs::write(gen2)`: gen2 is partially written, gen1 (deleted only
    // *after* the write completes) is still there and intact. ---
    std::fs::write(&gen1, &gen1_bytes).expect("restore gen1");
    std::fs::write(&gen2, &gen2_bytes[..gen2_bytes.len() / 2]).expect("truncate gen2");
    drop(lru);

    // --- Session 2: recovery ---
    let mut recovered = LruManager::new(16, data_dir.clone());
    let result = recovered.run_cycle(0, 0).await;
    eprintln!("run_cycle after crash image: {result:?}; entries loaded: {}", recovered.len());

    let stats = result.expect("recovery must not fail while a valid older generation exists");
    assert_eq!(stats.loaded_entries, 8, "state of valid generation 1 recovered");
    assert!(recovered.contains(&[3; 9]));
}
