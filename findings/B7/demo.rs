//! B7: DiskCache::get bookkeeping races (pure public-API stress, 2 OS threads).
//!  (a1) expired branch:   two racing readers both `index.remove(key)` (2nd is a no-op) and both
//!                         decrement -> entry_count / disk_usage underflow (wrap to 2^64-1).
//!  (a2) read-error branch: same with a file deleted behind the cache's back.
//!  (b)  fallback branch:  two racing readers of a not-yet-indexed file both insert + increment
//!                         -> 1 indexed entry counted twice.
//!  (c)  stale snapshot:   reader snapshots an expired entry, a fresh put_with_ttl(1h) lands, the
//!                         reader then removes the FRESH index entry and deletes the fresh file.
#![allow(clippy::expect_used, clippy::unwrap_used, clippy::panic)]

use bytes::Bytes;
use cascette_cache::{
    config::DiskCacheConfig, disk_cache::DiskCache, key::RibbitKey, traits::AsyncCache,
};
use futures::executor::block_on;
use std::{
    path::Path,
    sync::{
        Arc, Barrier,
        atomic::{AtomicU64, Ordering},
    },
    time::{Duration, Instant},
};

fn tmp() -> tempfile::TempDir {
    // tmpfs keeps the fsync in write_file cheap so the stress loops are fast
    if Path::new("/dev/shm").is_dir() {
        tempfile::TempDir::new_in("/dev/shm").unwrap()
    } else {
        tempfile::TempDir::new().unwrap()
    }
}

fn cfg(dir: &Path) -> DiskCacheConfig {
    DiskCacheConfig::new(dir).with_subdirectories(false, 0)
}

/// Run `a` and `b` concurrently (released by a barrier) once.
fn race<A: FnOnce() + Send, B: FnOnce() + Send>(a: A, b: B) {
    let bar = Barrier::new(2);
    std::thread::scope(|s| {
        s.spawn(|| {
            bar.wait();
            a();
        });
        s.spawn(|| {
            bar.wait();
            b();
        });
    });
}

#[test]
fn b7a1_expired_branch_double_decrement_underflows() {
    let dir = tmp();
    let cache: DiskCache<RibbitKey> = DiskCache::new(cfg(dir.path())).unwrap();
    let key = RibbitKey::new("versions", "us");
    let mut bad = None;
    let mut rounds = 0;
    for i in 0..20_000 {
        rounds = i + 1;
        block_on(cache.clear()).unwrap();
        block_on(cache.put_with_ttl(key.clone(), Bytes::from(vec![0u8; 100]), Duration::from_nanos(1))).unwrap();
        race(
            || drop(block_on(cache.get(&key))),
            || drop(block_on(cache.get(&key))),
        );
        let st = block_on(cache.stats()).unwrap();
        if (st.entry_count, st.memory_usage_bytes) != (0, 0) {
            bad = Some((st.entry_count, st.memory_usage_bytes));
            break;
        }
    }
    println!("(a1) expired branch: after {rounds} rounds stats (entries, bytes) = {bad:?}");
    assert_eq!(bad, None, "(a1) counters underflowed after two readers expired the same entry");
}

#[test]
fn b7a2_read_error_branch_double_decrement_underflows() {
    let dir = tmp();
    let cache: DiskCache<RibbitKey> = DiskCache::new(cfg(dir.path())).unwrap();
    let key = RibbitKey::new("versions", "us");
    let mut bad = None;
    let mut rounds = 0;
    for i in 0..20_000 {
        rounds = i + 1;
        block_on(cache.clear()).unwrap();
        block_on(cache.put_with_ttl(key.clone(), Bytes::from(vec![0u8; 100]), Duration::from_secs(3600))).unwrap();
        // file vanishes behind the cache's back (disk cleaner, other process, ...)
        std::fs::remove_file(dir.path().join(key_file(&key))).unwrap();
        race(
            || drop(block_on(cache.get(&key))),
            || drop(block_on(cache.get(&key))),
        );
        let st = block_on(cache.stats()).unwrap();
        if (st.entry_count, st.memory_usage_bytes) != (0, 0) {
            bad = Some((st.entry_count, st.memory_usage_bytes));
            break;
        }
    }
    println!("(a2) read-error branch: after {rounds} rounds stats (entries, bytes) = {bad:?}");
    assert_eq!(bad, None, "(a2) counters underflowed after two readers hit the same read error");
}

fn key_file(key: &RibbitKey) -> String {
    use cascette_cache::key::CacheKey;
    key.as_cache_key().to_string()
}

#[test]
fn b7b_fallback_branch_double_counts() {
    let dir = tmp();
    let key = RibbitKey::new("versions", "us");
    // RibbitKey string contains '/', so make sure the parent directory exists
    let writer: DiskCache<RibbitKey> = DiskCache::new(cfg(dir.path())).unwrap();
    block_on(writer.put_with_ttl(key.clone(), Bytes::from(vec![0u8; 100]), Duration::from_secs(3600))).unwrap();
    drop(writer);

    let mut bad = None;
    let mut rounds = 0;
    for i in 0..20_000 {
        rounds = i + 1;
        // fresh instance on the same directory: file present, index empty
        let cache: DiskCache<RibbitKey> = DiskCache::new(cfg(dir.path())).unwrap();
        race(
            || drop(block_on(cache.get(&key))),
            || drop(block_on(cache.get(&key))),
        );
        let st = block_on(cache.stats()).unwrap();
        if (st.entry_count, st.memory_usage_bytes) != (1, 100) {
            bad = Some((st.entry_count, st.memory_usage_bytes));
            break;
        }
    }
    println!("(b) fallback branch: after {rounds} rounds stats (entries, bytes) = {bad:?} (1 file of 100 bytes on disk)");
    assert_eq!(bad, None, "(b) one on-disk file was counted twice");
}

#[test]
fn b7c_stale_snapshot_removal_drops_fresh_put() {
    let dir = tmp();
    let cache: DiskCache<RibbitKey> = DiskCache::new(cfg(dir.path())).unwrap();
    let key = RibbitKey::new("versions", "us");
    let fresh = Bytes::from(vec![1u8; 1000]);

    // calibrate: how long does a put take? The reader is delayed by a sweep over [0, put_time]
    let t0 = Instant::now();
    for _ in 0..200 {
        block_on(cache.put_with_ttl(key.clone(), fresh.clone(), Duration::from_secs(3600))).unwrap();
    }
    let put_ns = (t0.elapsed().as_nanos() / 200) as u64;

    // outcome classes for the final get():
    //   Ok(None)      -> (c): the FRESH index entry was removed through the stale expired snapshot (+ file deleted)
    //   Err(NotFound) -> (c'): the reader's expiry path deleted the freshly renamed file (same path) just before
    //                    the writer indexed it: index now points at a missing file
    let (mut lost_none, mut lost_err) = (0u32, 0u32);
    let mut first_none = None;
    let mut first_err = None;
    let delay = AtomicU64::new(0);
    const ROUNDS: u64 = 60_000;
    for i in 0..ROUNDS {
        block_on(cache.clear()).unwrap();
        block_on(cache.put_with_ttl(key.clone(), Bytes::from(vec![0u8; 10]), Duration::from_nanos(1))).unwrap();
        delay.store((put_ns * 2) * (i % 1000) / 1000, Ordering::Relaxed);
        race(
            || {
                let d = Duration::from_nanos(delay.load(Ordering::Relaxed));
                let t = Instant::now();
                while t.elapsed() < d {
                    std::hint::spin_loop();
                }
                drop(block_on(cache.get(&key)));
            },
            || block_on(cache.put_with_ttl(key.clone(), fresh.clone(), Duration::from_secs(3600))).unwrap(),
        );
        // a put with a 1h TTL has completed and nobody called remove(): it must be readable
        let st = block_on(cache.stats()).unwrap();
        let file_exists = dir.path().join(key_file(&key)).exists();
        match block_on(cache.get(&key)) {
            Ok(Some(v)) if v == fresh => {}
            Ok(other) => {
                lost_none += 1;
                first_none.get_or_insert((i, other.map(|b| b.len()), file_exists, st.entry_count, st.memory_usage_bytes));
            }
            Err(e) => {
                lost_err += 1;
                first_err.get_or_insert((i, e.to_string(), file_exists, st.entry_count, st.memory_usage_bytes));
            }
        }
    }
    println!("(c) avg put = {put_ns} ns; {ROUNDS} rounds");
    println!("(c)  get -> Ok(None) [fresh index entry removed via stale snapshot]: {lost_none} times; first (round, get, file_exists, entries, bytes) = {first_none:?}");
    println!("(c') get -> Err      [fresh file deleted, index entry dangling]:     {lost_err} times; first (round, err, file_exists, entries, bytes) = {first_err:?}");
    let lost = lost_none + lost_err;
    assert_eq!(lost, 0, "(c) completed put_with_ttl(1h) vanished: removed via a stale expired snapshot");
}
