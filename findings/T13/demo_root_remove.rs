use cascette_crypto::md5::ContentKey;
use cascette_formats::root::{ContentFlags, LocaleFlags, RootBuilder, RootFile, RootVersion};
use cascette_crypto::FileDataId;

fn ckey(n: u8) -> ContentKey {
    ContentKey::from_bytes([n; 16])
}

#[test]
fn build_after_remove_file_parses_back_to_the_remaining_files() {
    for version in [RootVersion::V1, RootVersion::V2, RootVersion::V3, RootVersion::V4] {
        let mut b = RootBuilder::new(version);
        let locale = LocaleFlags::new(LocaleFlags::ENUS);
        let content = ContentFlags::new(ContentFlags::NONE);
        // 120 files so that the V2 header heuristic (16..=99 files) does not interfere
        for i in 0..120u32 {
            b.add_file(FileDataId::new(1000 + i), ckey((i % 250) as u8 + 1), None, locale, content);
        }
        assert!(b.remove_file(FileDataId::new(1005)));
        assert_eq!(b.file_count(), 119);
        let bytes = b.build().expect("build");
        let parsed = RootFile::parse(&bytes);
        let parsed = match parsed {
            Ok(p) => p,
            Err(e) => panic!("{version:?}: the builder's own output does not parse after remove_file: {e}"),
        };
        assert_eq!(parsed.total_files(), 119, "{version:?}: total_files after removing one of 120");
        assert!(parsed.resolve_by_id(FileDataId::new(1006), locale, content).is_some(), "{version:?}: a remaining file must resolve");
        assert!(parsed.resolve_by_id(FileDataId::new(1005), locale, content).is_none(), "{version:?}: the removed file must not resolve");
    }
}
