//! B2: MemoryCache::get / ::contains on an expired entry: size is read through the
//! DashMap guard, the guard is dropped, and then `storage.remove(key)` runs
//! unconditionally. A fresh put that lands in between is deleted (lost update) and
//! memory_usage is decremented by the OLD entry's size.
//!
//! Pure public-API stress test (no hooks): per round
//!   put_with_ttl(k, 10 bytes, 1ns)          -- expired immediately
//!   thread A: get(k) / contains(k)          -- racing
//!   thread B: put_with_ttl(k, 1000 bytes, 1h)
//!   join both; then the fresh 1h entry MUST be present and stats must be (1, 1000).
#![allow(clippy::expect_used, clippy::unwrap_used, clippy::panic)]

use bytes::Bytes;
use cascette_cache::{
    config::MemoryCacheConfig, key::RibbitKey, memory_cache::MemoryCache, traits::AsyncCache,
};
use futures::executor::block_on;
use std::{
    sync::{Arc, Barrier},
    time::Duration,
};

fn stress(use_contains: bool) -> (usize, usize, Option<(usize, usize)>) {
    const ROUNDS: usize = 100_000;
    let cache: Arc<MemoryCache<RibbitKey>> = Arc::new(
        MemoryCache::new(MemoryCacheConfig::new().with_max_entries(1_000_000)).unwrap(),
    );
    let key = RibbitKey::new("versions", "us");
    let old = Bytes::from(vec![0u8; 10]);
    let fresh = Bytes::from(vec![1u8; 1000]);

    let start = Arc::new(Barrier::new(2));
    let done = Arc::new(Barrier::new(2));

    let reader = {
        let (cache, key, start, done) = (cache.clone(), key.clone(), start.clone(), done.clone());
        std::thread::spawn(move || {
            for _ in 0..ROUNDS {
                start.wait();
                if use_contains {
                    let _ = block_on(cache.contains(&key)).unwrap();
                } else {
                    let _ = block_on(cache.get(&key)).unwrap();
                }
                done.wait();
            }
        })
    };

    let mut lost_updates = 0usize;
    let mut stat_drift = 0usize;
    let mut first_bad = None;
    for _ in 0..ROUNDS {
        block_on(cache.clear()).unwrap();
        block_on(cache.put_with_ttl(key.clone(), old.clone(), Duration::from_nanos(1))).unwrap();
        std::thread::sleep(Duration::from_nanos(50)); // make sure it is expired
        start.wait();
        block_on(cache.put_with_ttl(key.clone(), fresh.clone(), Duration::from_secs(3600)))
            .unwrap();
        done.wait();

        // Both racing operations have completed. A put with a 1h TTL completed,
        // so the key must be there, with exactly 1 entry / 1000 bytes accounted.
        let present = block_on(cache.get(&key)).unwrap().is_some();
        let st = block_on(cache.stats()).unwrap();
        if !present {
            lost_updates += 1;
        }
        let expect = if present { (1, 1000) } else { (0, 0) };
        if (st.entry_count, st.memory_usage_bytes) != expect {
            stat_drift += 1;
            if first_bad.is_none() {
                first_bad = Some((st.entry_count, st.memory_usage_bytes));
            }
        }
    }
    reader.join().unwrap();
    (lost_updates, stat_drift, first_bad)
}

#[test]
fn b2_get_expired_then_remove_deletes_fresh_put() {
    let (lost, drift, first) = stress(false);
    println!("get():      lost fresh puts = {lost}, rounds with wrong counters = {drift}, first bad (entries, bytes) = {first:?}");
    assert_eq!((lost, drift), (0, 0), "get(): fresh put deleted by stale expiry removal / counters drifted");
}

#[test]
fn b2_contains_expired_then_remove_deletes_fresh_put() {
    let (lost, drift, first) = stress(true);
    println!("contains(): lost fresh puts = {lost}, rounds with wrong counters = {drift}, first bad (entries, bytes) = {first:?}");
    assert_eq!((lost, drift), (0, 0), "contains(): fresh put deleted by stale expiry removal / counters drifted");
}
