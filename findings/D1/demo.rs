#![allow(clippy::expect_used, clippy::unwrap_used, clippy::panic)]
//! Archive index footer: a footer hash size other than 8 must be rejected
//! with an error, not a slice-index panic.
//!
//! Footer layout (20 + footer_hash_bytes bytes, at the end of the file):
//!   0..8   toc_hash
//!   8      version
//!   9..11  reserved
//!   11     page_size_kb
//!   12     offset_bytes
//!   13     size_bytes
//!   14     ekey_length
//!   15     footer_hash_bytes
//!   16..20 element_count (LE)
//!   20..   footer_hash
//!
//! `ArchiveIndex::parse` first reads the byte at End(-13) to learn the hash
//! size, then reads a footer of 20 + that many bytes; byte 15 of that footer
//! becomes `footer_hash_bytes`. Both inputs below carry the same value at
//! both positions.

use cascette_formats::archive::{ArchiveIndex, ChunkedArchiveIndex};
use std::io::{Cursor, Write};
use std::panic::catch_unwind;

/// 36-byte file: only a footer, footer_hash_bytes = 16, 16-byte hash field.
/// End(-13) is file offset 23 = hash byte 3, so that byte is 16 as well.
fn footer_with_hash_size_16() -> Vec<u8> {
    let mut f = Vec::new();
    f.extend_from_slice(&[0u8; 8]); // toc_hash
    f.push(1); // version
    f.extend_from_slice(&[0, 0]); // reserved
    f.push(4); // page_size_kb
    f.push(4); // offset_bytes
    f.push(4); // size_bytes
    f.push(16); // ekey_length
    f.push(16); // footer_hash_bytes            <- footer byte 15
    f.extend_from_slice(&0u32.to_le_bytes()); // element_count
    let mut hash = [0xAAu8; 16];
    hash[3] = 16; // file offset 23 == End(-13)  <- first size read
    f.extend_from_slice(&hash);
    assert_eq!(f.len(), 36);
    assert_eq!(f[f.len() - 13], 16);
    assert_eq!(f[f.len() - 36 + 15], 16);
    f
}

/// 24-byte file: only a footer, footer_hash_bytes = 4, 4-byte hash field that
/// does not match. End(-13) is file offset 11 = page_size_kb, whose required
/// value happens to be 4 too.
fn footer_with_hash_size_4() -> Vec<u8> {
    let mut f = Vec::new();
    f.extend_from_slice(&[0u8; 8]); // toc_hash
    f.push(1); // version
    f.extend_from_slice(&[0, 0]); // reserved
    f.push(4); // page_size_kb == End(-13)      <- first size read
    f.push(4); // offset_bytes
    f.push(4); // size_bytes
    f.push(16); // ekey_length
    f.push(4); // footer_hash_bytes             <- footer byte 15
    f.extend_from_slice(&0u32.to_le_bytes()); // element_count
    f.extend_from_slice(&[0xFF; 4]); // footer_hash (wrong on purpose)
    assert_eq!(f.len(), 24);
    assert_eq!(f[f.len() - 13], 4);
    assert_eq!(f[f.len() - 24 + 15], 4);
    f
}

#[test]
fn parse_hash_size_16_is_an_error_not_a_panic() {
    let data = footer_with_hash_size_16();
    let result = catch_unwind(|| ArchiveIndex::parse(Cursor::new(data)).map(|_| ()));
    let result = result.expect("ArchiveIndex::parse panicked on footer_hash_bytes = 16");
    assert!(result.is_err(), "footer_hash_bytes = 16 must be rejected");
}

#[test]
fn parse_hash_size_4_is_an_error_not_a_panic() {
    let data = footer_with_hash_size_4();
    let result = catch_unwind(|| ArchiveIndex::parse(Cursor::new(data)).map(|_| ()));
    let result = result.expect("ArchiveIndex::parse panicked on footer_hash_bytes = 4");
    assert!(result.is_err(), "footer_hash_bytes = 4 must be rejected");
}

/// `ChunkedArchiveIndex::open` reads the footer with the same code.
fn chunked_open(data: &[u8]) -> std::thread::Result<Result<(), String>> {
    let mut file = tempfile::NamedTempFile::new().unwrap();
    file.write_all(data).unwrap();
    file.flush().unwrap();
    let path = file.path().to_path_buf();
    catch_unwind(move || {
        ChunkedArchiveIndex::open(path)
            .map(|_| ())
            .map_err(|e| e.to_string())
    })
}

#[test]
fn chunked_open_hash_size_16_is_an_error_not_a_panic() {
    let result = chunked_open(&footer_with_hash_size_16());
    let result = result.expect("ChunkedArchiveIndex::open panicked on footer_hash_bytes = 16");
    assert!(result.is_err(), "footer_hash_bytes = 16 must be rejected");
}

#[test]
fn chunked_open_hash_size_4_is_an_error_not_a_panic() {
    let result = chunked_open(&footer_with_hash_size_4());
    let result = result.expect("ChunkedArchiveIndex::open panicked on footer_hash_bytes = 4");
    assert!(result.is_err(), "footer_hash_bytes = 4 must be rejected");
}
