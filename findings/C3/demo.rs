//! C3 demo: IndexManager::remove_entry ignores the bool returned by
//! update_section.append(tombstone). With the bucket's update section full
//! (60 pages * 21 entries = 1260 un-flushed entries) the tombstone is dropped,
//! remove_entry still returns true, and the key stays visible.
#![allow(clippy::expect_used, clippy::unwrap_used)]

use cascette_client_storage::index::IndexManager;
use cascette_crypto::EncodingKey;

/// Key number `i`, constructed so that the XOR of its first 9 bytes is 0,
/// i.e. every key lands in bucket 0.
fn key(i: u16) -> EncodingKey {
    let [a, b] = i.to_be_bytes();
    let mut k = [0u8; 16];
    k[0] = a;
    k[1] = b;
    k[2] = a;
    k[3] = b;
    k[4] = 0x5A;
    k[5] = 0x5A;
    EncodingKey::from_bytes(k)
}

#[test]
fn c3_remove_entry_with_full_update_section() {
    let dir = tempfile::tempdir().expect("tempdir");
    let mut index = IndexManager::new(dir.path());

    // Exactly fill bucket 0's update section (no flush happens yet: add_entry
    // only flushes when an append fails).
    for i in 0..1260u16 {
        index.add_entry(&key(i), 0, u32::from(i) * 64, 64).expect("add");
    }
    assert_eq!(index.entry_count(), 1260);
    assert_eq!(index.stats().total_entries, 0, "nothing flushed to the sorted section yet");

    let victim = key(7);
    assert!(index.has_entry(&victim), "victim present before remove");

    let reported = index.remove_entry(&victim);
    let still_visible = index.has_entry(&victim);
    eprintln!("remove_entry returned {reported}; has_entry afterwards = {still_visible}; entry_count = {}", index.entry_count());

    assert!(
        !(reported && still_visible),
        "remove_entry reported success but the key is still visible (tombstone silently dropped)"
    );
    // The stronger expectation (what add_entry does in the same situation):
    assert!(reported, "removal of an existing key should succeed (flush and retry)");
    assert!(!still_visible, "removed key must not be visible");
    assert_eq!(index.entry_count(), 1259);
}
