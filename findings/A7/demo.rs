//! A7 demo: RootVersion::detect and RootHeader::read disagree on "extended vs classic header".
//!   detect : extended  <=>  value1 in 16..100  &&  value2 in 1..=4
//!   read   : extended  <=>  value1 in 16..100  &&  value2 < 10  &&  value2 < value1
//! A classic V2 header is  magic, total_files (value1), named_files (value2).  With 16..=99 total files and
//! named_files in {0, 5..=9} detect() says "classic V2" but read() consumes it as an extended header
//! (header_size = total_files, version = named_files), eats block bytes as header fields and the blocks that
//! follow are mis-parsed.
#![allow(clippy::expect_used, clippy::unwrap_used, clippy::panic)]

use cascette_crypto::md5::{ContentKey, FileDataId};
use cascette_formats::root::{ContentFlags, LocaleFlags, RootBuilder, RootFile, RootVersion};
use std::io::Cursor;

fn build_v2(total: u32, named: u32) -> (Vec<u8>, Vec<(FileDataId, ContentKey)>) {
    let mut b = RootBuilder::new(RootVersion::V2);
    let mut files = Vec::new();
    for i in 0..total {
        let fdid = FileDataId::new(1000 + i * 3);
        let ckey = ContentKey::from_data(&i.to_le_bytes());
        let path = (i < named).then(|| format!("Interface\\Test\\file_{i}.blp"));
        b.add_file(fdid, ckey, path.as_deref(), LocaleFlags::new(LocaleFlags::ENUS), ContentFlags::new(ContentFlags::INSTALL));
        files.push((fdid, ckey));
    }
    (b.build().expect("build"), files)
}

/// Returns (parse error | number of FileDataIDs that do not resolve to the inserted content key).
fn round_trip(total: u32, named: u32) -> Result<usize, String> {
    let (data, files) = build_v2(total, named);
    let detected = RootVersion::detect(&mut Cursor::new(&data)).expect("detect");
    assert_eq!(detected, RootVersion::V2, "builder wrote a classic V2 header; detect must say V2");
    let parsed = RootFile::parse(&data).map_err(|e| e.to_string())?;
    println!(
        "  detect() = {detected:?}; parsed.version = {:?}; parsed.header = {:?}; blocks = {}; records = {}",
        parsed.version,
        parsed.header,
        parsed.num_blocks(),
        parsed.iter_records().count()
    );
    let locale = LocaleFlags::new(LocaleFlags::ENUS);
    let content = ContentFlags::new(ContentFlags::INSTALL);
    Ok(files.iter().filter(|(fdid, ckey)| parsed.resolve_by_id(*fdid, locale, content) != Some(*ckey)).count())
}

/// Control: 100 total files (value1 outside 16..100) round-trips.
#[test]
fn a7_control_100_files_round_trips() {
    assert_eq!(round_trip(100, 0), Ok(0));
    assert_eq!(round_trip(15, 0), Ok(0));
}

/// 20 files, none named: detect() -> V2 (classic), read() -> extended layout.
#[test]
fn a7_v2_20_files_no_names() {
    let r = round_trip(20, 0);
    println!("V2, 20 files, 0 named: {r:?}");
    assert_eq!(r, Ok(0), "inserted FileDataIDs do not resolve after build -> parse");
}

/// 50 files, 7 named (5..=9 is the other window where detect says classic and read says extended).
#[test]
fn a7_v2_50_files_7_named() {
    let r = round_trip(50, 7);
    println!("V2, 50 files, 7 named: {r:?}");
    assert_eq!(r, Ok(0), "inserted FileDataIDs do not resolve after build -> parse");
}

/// Whole grid total in 16..=99, named in 0..=9 (named <= total): which combinations break?
#[test]
fn a7_grid() {
    let mut bad = Vec::new();
    for total in 16..=99u32 {
        for named in 0..=9u32 {
            let (data, files) = build_v2(total, named);
            let ok = RootFile::parse(&data).is_ok_and(|p| {
                let l = LocaleFlags::new(LocaleFlags::ENUS);
                let c = ContentFlags::new(ContentFlags::INSTALL);
                files.iter().all(|(f, k)| p.resolve_by_id(*f, l, c) == Some(*k))
            });
            if !ok {
                bad.push((total, named));
            }
        }
    }
    let by_named: Vec<(u32, usize)> = (0..=9).map(|n| (n, bad.iter().filter(|(_, m)| *m == n).count())).collect();
    println!("{} of 840 (total, named) combinations fail build -> parse -> resolve; failures per named count: {by_named:?}", bad.len());
    assert!(bad.is_empty(), "{} of 840 combinations fail; per named count: {by_named:?}", bad.len());
}
