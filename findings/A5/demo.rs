//! A5 demo: ZbsdiffBuilder::build_chunked_patch writes `old_pos as i64` (an ABSOLUTE position) into the
//! seek field of extra-only control entries, while both patchers ADD the seek to the current old position.
//! As soon as an extra-only entry is followed by a matching (diff) region with old_pos != 0 the diff
//! is applied against the wrong old bytes.
#![allow(clippy::expect_used, clippy::unwrap_used, clippy::panic)]

use cascette_formats::zbsdiff::{ZbsdiffBuilder, ZbsdiffHeader, ZbsdiffPatcher, apply_patch_memory};
use std::io::Cursor;

fn pair_small() -> (Vec<u8>, Vec<u8>) {
    // old = "ABCDEFGH"; new = "ABCD" + 256 x 'x' + "EFGH"
    // builder: diff(4) | extra(256, seek = 4 <- absolute old_pos) | diff(4 against old[4..8])
    // patcher: after diff old_pos = 4, seek +4 -> 8, second diff reads old[8..12] = beyond EOF = zeros.
    let old = b"ABCDEFGH".to_vec();
    let mut new = b"ABCD".to_vec();
    new.extend(std::iter::repeat_n(b'x', 256));
    new.extend_from_slice(b"EFGH");
    (old, new)
}

fn pair_text() -> (Vec<u8>, Vec<u8>) {
    // A 512-byte insertion in the middle of a text: matching prefix, two extra-only entries (256 + 256, the
    // builder emits extra data in 256-byte chunks), then the matching suffix as a diff entry.
    // (The defect needs an extra-only entry FOLLOWED by a diff entry; an insertion that is not a multiple of
    // 256 swallows the rest of the file into the last extra chunk and round-trips by luck.)
    let old = b"The quick brown fox jumps over the lazy dog. Pack my box with five dozen liquor jugs.".to_vec();
    let mut new = old[..20].to_vec();
    new.extend((0..512u32).map(|i| b'0' + (i % 10) as u8));
    new.extend_from_slice(&old[20..]);
    (old, new)
}

#[test]
fn a5_chunked_patch_memory_small() {
    let (old, new) = pair_small();
    let patch = ZbsdiffBuilder::new(old.clone(), new.clone()).build_chunked_patch().expect("build");
    let got = apply_patch_memory(&old, &patch);
    match got {
        Err(e) => panic!("apply failed on builder output: {e}"),
        Ok(got) => {
            println!("tail of result:   {:?}", &got[got.len() - 8..]);
            println!("tail of expected: {:?}", &new[new.len() - 8..]);
            assert!(got == new, "apply_patch_memory(old, build_chunked_patch(old,new)) returned Ok but != new");
        }
    }
}

#[test]
fn a5_chunked_patch_memory_text_insertion() {
    let (old, new) = pair_text();
    let patch = ZbsdiffBuilder::new(old.clone(), new.clone()).build_chunked_patch().expect("build");
    let got = apply_patch_memory(&old, &patch).expect("apply");
    println!("result tail:   {:?}", String::from_utf8_lossy(&got[532..]));
    println!("expected tail: {:?}", String::from_utf8_lossy(&new[532..]));
    assert!(got == new, "Ok but != new");
}

#[test]
fn a5_chunked_patch_streaming_patcher() {
    let (old, new) = pair_small();
    let patch = ZbsdiffBuilder::new(old.clone(), new.clone()).build_chunked_patch().expect("build");
    let header = ZbsdiffHeader::parse_from_patch(&patch).expect("header");
    let got = ZbsdiffPatcher::new(Cursor::new(old), header.output_size as usize)
        .apply_patch_from_data(&patch)
        .expect("apply");
    assert!(got == new, "ZbsdiffPatcher: Ok but != new");
}

/// Pseudo-random sweep (fixed LCG seed): prefix match, insertion, suffix match; plus fully random pairs over a small alphabet.
#[test]
fn a5_chunked_patch_sweep() {
    let mut s: u64 = 0x1234_5678_9ABC_DEF0;
    let mut next = move || {
        s = s.wrapping_mul(6364136223846793005).wrapping_add(1442695040888963407);
        (s >> 33) as u32
    };
    let mut failures = 0;
    let mut first: Option<(usize, usize, usize)> = None;
    let total = 400;
    for _ in 0..total {
        let old_len = 8 + (next() % 600) as usize;
        let old: Vec<u8> = (0..old_len).map(|_| b'a' + (next() % 3) as u8).collect();
        let cut = (next() as usize) % old_len;
        let ins = (next() % 600) as usize;
        let mut new = old[..cut].to_vec();
        new.extend((0..ins).map(|_| b'A' + (next() % 3) as u8));
        new.extend_from_slice(&old[cut..]);
        let patch = ZbsdiffBuilder::new(old.clone(), new.clone()).build_chunked_patch().expect("build");
        let ok = matches!(apply_patch_memory(&old, &patch), Ok(ref g) if *g == new);
        if !ok {
            failures += 1;
            first.get_or_insert((old_len, cut, ins));
        }
    }
    println!("{failures}/{total} generated (old,new) pairs do not round-trip; first failing (old_len, cut, insert_len) = {first:?}");
    assert_eq!(failures, 0, "{failures}/{total} pairs failed; first (old_len, cut, insert_len) = {first:?}");
}
