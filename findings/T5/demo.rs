//! Triage finding 5: `PidTracking::from_mapped` reads `max_slots` (u32) from
//! the mapped bytes and allocates two `Vec<u32>` of that many elements without
//! comparing it to the size of the mapped region.
//!
//! With `max_slots = 0xFFFF_FFFF` a 28-byte input requests 2 x 16 GiB. The
//! demo uses 0x0200_0000 (2 x 128 MiB) so that it is safe to run, and a
//! counting global allocator to observe the request sizes.

use std::alloc::{GlobalAlloc, Layout, System};
use std::panic::catch_unwind;
use std::sync::atomic::{AtomicUsize, Ordering};

use cascette_client_storage::shmem::ShmemControlBlock;
use cascette_client_storage::shmem::control_block::PidTracking;

/// Largest single allocation request seen since the last reset.
static LARGEST: AtomicUsize = AtomicUsize::new(0);
/// Sum of all allocation requests since the last reset.
static TOTAL: AtomicUsize = AtomicUsize::new(0);

struct Counting;

fn record(size: usize) {
    LARGEST.fetch_max(size, Ordering::SeqCst);
    TOTAL.fetch_add(size, Ordering::SeqCst);
}

#[allow(unsafe_code)]
// SAFETY: every method forwards to `System` unchanged; only counters are updated.
unsafe impl GlobalAlloc for Counting {
    unsafe fn alloc(&self, layout: Layout) -> *mut u8 {
        record(layout.size());
        // SAFETY: same contract as the caller's.
        unsafe { System.alloc(layout) }
    }
    unsafe fn alloc_zeroed(&self, layout: Layout) -> *mut u8 {
        record(layout.size());
        // SAFETY: same contract as the caller's.
        unsafe { System.alloc_zeroed(layout) }
    }
    unsafe fn realloc(&self, ptr: *mut u8, layout: Layout, new_size: usize) -> *mut u8 {
        record(new_size);
        // SAFETY: same contract as the caller's.
        unsafe { System.realloc(ptr, layout, new_size) }
    }
    unsafe fn dealloc(&self, ptr: *mut u8, layout: Layout) {
        // SAFETY: same contract as the caller's.
        unsafe { System.dealloc(ptr, layout) }
    }
}

#[global_allocator]
static ALLOC: Counting = Counting;

const SLOTS: u32 = 0x0200_0000; // 32 Mi slots -> 128 MiB per Vec<u32>

/// Allocation budget: generous constant plus 16x the input length.
fn budget(input_len: usize) -> usize {
    64 * 1024 + 16 * input_len
}

// Both checks live in one test so that the global counters are not disturbed
// by a concurrently running test in the same process.
#[test]
fn from_mapped_allocation_is_bounded_by_input() {
    // --- PidTracking::from_mapped directly, 28-byte input ---
    let mut data = vec![0u8; 0x1C];
    data[0..4].copy_from_slice(&1u32.to_le_bytes()); // state = idle
    data[24..28].copy_from_slice(&SLOTS.to_le_bytes()); // max_slots

    LARGEST.store(0, Ordering::SeqCst);
    TOTAL.store(0, Ordering::SeqCst);
    let r = catch_unwind(|| {
        let pt = PidTracking::from_mapped(&data);
        (pt.max_slots, pt.pids.len(), pt.modes.len())
    });
    let largest = LARGEST.load(Ordering::SeqCst);
    let total = TOTAL.load(Ordering::SeqCst);
    assert!(r.is_ok(), "PidTracking::from_mapped panicked");
    assert!(
        largest <= budget(data.len()),
        "PidTracking::from_mapped: {}-byte input caused a single allocation of {largest} bytes ({total} bytes requested in total)",
        data.len()
    );

    // --- via ShmemControlBlock::from_mapped, 0x258-byte v5 control block ---
    let mut block = vec![0u8; 0x258];
    block[0] = 5; // version 5
    block[2] = 1; // initialized
    let pt_base = 0x154;
    block[pt_base..pt_base + 4].copy_from_slice(&1u32.to_le_bytes());
    block[pt_base + 24..pt_base + 28].copy_from_slice(&SLOTS.to_le_bytes());

    LARGEST.store(0, Ordering::SeqCst);
    TOTAL.store(0, Ordering::SeqCst);
    let r = catch_unwind(|| ShmemControlBlock::from_mapped(&block).is_some());
    let largest = LARGEST.load(Ordering::SeqCst);
    let total = TOTAL.load(Ordering::SeqCst);
    assert!(r.is_ok(), "ShmemControlBlock::from_mapped panicked");
    assert!(
        largest <= budget(block.len()),
        "ShmemControlBlock::from_mapped: {}-byte input caused a single allocation of {largest} bytes ({total} bytes requested in total)",
        block.len()
    );

    // --- a region that really holds its slots is still read in full ---
    let mut pt = PidTracking::new(4);
    pt.add_process(100, 5);
    pt.add_process(200, 2);
    let mut buf = vec![0u8; 0x1C + 4 * 4 * 2];
    pt.to_mapped(&mut buf);
    let loaded = PidTracking::from_mapped(&buf);
    assert_eq!(loaded.max_slots, 4);
    assert_eq!(&loaded.pids[..2], &[100, 200]);
    assert_eq!(&loaded.modes[..2], &[5, 2]);
}
