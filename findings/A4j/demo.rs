//! A4j demo: cascette-client-storage IndexManager::read_entry_block vec![0u8; block_size] from the .idx guarded-block header.
#![allow(clippy::expect_used, clippy::unwrap_used, clippy::panic, unsafe_code, dead_code)]

/// Counting allocator: records the largest single allocation request and REFUSES (returns null)
/// any single request above 1 GiB.  A refused request makes the Rust runtime print
/// "memory allocation of N bytes failed" and abort the test process (SIGABRT) - that abort IS
/// the demonstration for the multi-GB cases.  Requests below the limit are served normally and
/// the recorded maximum is compared against the input length afterwards.
mod guard {
    use std::alloc::{GlobalAlloc, Layout, System};
    use std::sync::atomic::{AtomicUsize, Ordering};

    pub const LIMIT: usize = 1 << 30; // 1 GiB
    pub static MAX_REQ: AtomicUsize = AtomicUsize::new(0);

    pub struct Guard;

    fn note(size: usize) -> bool {
        MAX_REQ.fetch_max(size, Ordering::SeqCst);
        size <= LIMIT
    }

    unsafe impl GlobalAlloc for Guard {
        unsafe fn alloc(&self, l: Layout) -> *mut u8 {
            if note(l.size()) { unsafe { System.alloc(l) } } else { std::ptr::null_mut() }
        }
        unsafe fn alloc_zeroed(&self, l: Layout) -> *mut u8 {
            if note(l.size()) { unsafe { System.alloc_zeroed(l) } } else { std::ptr::null_mut() }
        }
        unsafe fn realloc(&self, p: *mut u8, l: Layout, new_size: usize) -> *mut u8 {
            if note(new_size) { unsafe { System.realloc(p, l, new_size) } } else { std::ptr::null_mut() }
        }
        unsafe fn dealloc(&self, p: *mut u8, l: Layout) {
            unsafe { System.dealloc(p, l) }
        }
    }

    pub fn reset() {
        MAX_REQ.store(0, Ordering::SeqCst);
    }
    pub fn max() -> usize {
        MAX_REQ.load(Ordering::SeqCst)
    }
    /// Generous proportionality bound: 1 MiB + 64 x input length.
    pub fn bound(input_len: usize) -> usize {
        (1 << 20) + 64 * input_len
    }
    /// Run `f`, then report and assert the largest single request made while it ran.
    pub fn check<T>(what: &str, input_len: usize, f: impl FnOnce() -> T) -> T {
        eprintln!("[{what}] input_len={input_len} bytes; calling parser (requests > 1 GiB are refused -> abort)");
        reset();
        let r = f();
        let m = max();
        eprintln!("[{what}] input_len={input_len} bytes, largest single allocation request = {m} bytes");
        assert!(
            m <= bound(input_len),
            "[{what}] largest single allocation request {m} bytes is out of proportion to the {input_len}-byte input (bound {})",
            bound(input_len)
        );
        r
    }
}

#[global_allocator]
static GLOBAL: guard::Guard = guard::Guard;

use cascette_client_storage::index::IndexManager;
use std::io::Write;

/// 40-byte .idx file:
///   guarded header block : block_size=16, block_hash=0            (8, LE)
///   IndexHeaderV2        : version=7, bucket=0, extra=0, size_len=4, offset_len=5, ekey_len=9,
///                          offset_bits=30, segment_size=0x4000_0000 (16, LE)
///   header hash/padding  : 8 zero bytes
///   guarded entry block  : block_size=0xFFFF_FFFF, block_hash=0   (8, LE)   <- drives the allocation
#[test]
fn a4j_entry_block_size() {
    let mut data = Vec::new();
    data.extend_from_slice(&16u32.to_le_bytes());
    data.extend_from_slice(&0u32.to_le_bytes());
    data.extend_from_slice(&7u16.to_le_bytes());
    data.extend_from_slice(&[0, 0, 4, 5, 9, 30]);
    data.extend_from_slice(&0x4000_0000u64.to_le_bytes());
    data.extend_from_slice(&[0u8; 8]);
    data.extend_from_slice(&0xFFFF_FFFFu32.to_le_bytes());
    data.extend_from_slice(&0u32.to_le_bytes());
    assert_eq!(data.len(), 40);

    let dir = tempfile::tempdir().unwrap();
    let path = dir.path().join("0000000001.idx");
    std::fs::File::create(&path).unwrap().write_all(&data).unwrap();

    let mut mgr = IndexManager::new(dir.path());
    let r = guard::check("A4j index/mod.rs:373 entry block_size", data.len(), || mgr.load_index(0, &path).map_err(|e| e.to_string()));
    eprintln!("result: {r:?}");
}
