//! C7 demo: plan_archive_merge starts the destination cursor `dest_used` at 0
//! for the first destination segment, although that segment already holds
//! `sources[0].1` bytes (later destinations correctly start at
//! `sources[dest_idx].1`). Moves are therefore planned onto bytes the first
//! destination already uses.
#![allow(clippy::expect_used, clippy::unwrap_used)]

use cascette_client_storage::storage::compaction::plan_archive_merge;
use cascette_client_storage::storage::{SegmentHeader, SegmentInfo, SegmentState};

fn frozen(index: u16, used: u64) -> SegmentInfo {
    let mut s = SegmentInfo::new(index, SegmentHeader::default());
    s.state = SegmentState::Frozen;
    s.write_position = used;
    s
}

#[test]
fn c7_moves_do_not_overlap_destination_data() {
    // segment_size 10_000, threshold 0.5:
    //   seg 0: 1_000 bytes used, seg 1: 2_000 bytes used, seg 2: 3_000 bytes used
    let segments = vec![frozen(0, 1_000), frozen(1, 2_000), frozen(2, 3_000)];
    let plan = plan_archive_merge(&segments, 0.5, 10_000);
    assert!(!plan.is_empty());

    let mut bad = Vec::new();
    for m in &plan.moves {
        let dest_live = segments[m.dest_segment as usize].write_position;
        eprintln!(
            "move seg{}[0..{}) -> seg{}[{}..{})   (seg{} already holds live bytes [0..{}))",
            m.source_segment,
            m.length,
            m.dest_segment,
            m.dest_offset,
            m.dest_offset + m.length,
            m.dest_segment,
            dest_live
        );
        if m.dest_offset < dest_live {
            bad.push(format!(
                "move from seg{} lands at seg{} offset {} < {} (overwrites existing data)",
                m.source_segment, m.dest_segment, m.dest_offset, dest_live
            ));
        }
    }
    assert!(bad.is_empty(), "{bad:#?}");
}
