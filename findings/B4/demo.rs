//! B4: MemoryCache::new_with_cleanup background task does not maintain
//! entry_count / memory_usage: after expiry + several cleanup ticks size()/stats()
//! still count the expired entries.
//!
//! Extra observation: `let storage = self.storage.clone();` in start_cleanup_task is a
//! DEEP copy of the DashMap (DashMap: Clone clones the shards), taken when the cache is
//! still empty; so the task iterates an empty private map and never frees anything in
//! the live map either. Proven below: a later get() on the expired key still finds the
//! entry in the live map (it is the get() path that finally decrements the counters).
#![allow(clippy::expect_used, clippy::unwrap_used, clippy::panic)]

use bytes::Bytes;
use cascette_cache::{
    config::MemoryCacheConfig, key::RibbitKey, memory_cache::MemoryCache, traits::AsyncCache,
};
use std::time::Duration;

#[tokio::test]
async fn b4_cleanup_task_leaves_counters_untouched() {
    let mut cfg = MemoryCacheConfig::new().with_max_entries(1000);
    cfg.cleanup_interval = Duration::from_millis(20);
    let cache: MemoryCache<RibbitKey> = MemoryCache::new_with_cleanup(cfg).unwrap();

    for i in 0..10 {
        cache
            .put_with_ttl(
                RibbitKey::new(format!("k{i}"), "us"),
                Bytes::from(vec![0u8; 100]),
                Duration::from_millis(30),
            )
            .await
            .unwrap();
    }
    assert_eq!(cache.size().await.unwrap(), 10);

    // TTL 30ms, cleanup every 20ms: wait for >10 cleanup ticks after expiry.
    tokio::time::sleep(Duration::from_millis(300)).await;

    let size_after_cleanup = cache.size().await.unwrap();
    let st = cache.stats().await.unwrap();
    println!(
        "after expiry + cleanup ticks: size()={} stats.entry_count={} stats.memory_usage_bytes={}",
        size_after_cleanup, st.entry_count, st.memory_usage_bytes
    );

    // Was anything removed from the live map at all? get() on an expired key only
    // decrements when it finds (and removes) the entry in the live map.
    let _ = cache.get(&RibbitKey::new("k0", "us")).await.unwrap();
    let size_after_get = cache.size().await.unwrap();
    println!(
        "after one get() of expired k0: size()={} (decrement => k0 was still in the live map; the task cleaned nothing)",
        size_after_get
    );

    assert_eq!(
        (size_after_cleanup, st.memory_usage_bytes),
        (0, 0),
        "expired entries are still counted after background cleanup"
    );
}
