//! A3 demo: invalid table-format byte / encryption-type byte makes the binrw `map` closure
//! `.expect(..)` panic instead of returning Err.
#![allow(clippy::expect_used, clippy::unwrap_used, clippy::panic)]

use binrw::BinRead;
use cascette_formats::CascFormat;
use cascette_formats::blte::{BlteFile, EncryptedHeader};
use std::io::Cursor;

/// 12-byte BLTE file: magic, header_size=12 (>0 => extended header), flags byte 0x00 (invalid),
/// 24-bit chunk count 0.
#[test]
fn a3_invalid_table_format_byte_must_be_err_not_panic() {
    let data: Vec<u8> = vec![
        b'B', b'L', b'T', b'E', // magic
        0x00, 0x00, 0x00, 0x0C, // header_size = 12
        0x00, // table format: neither 0x0F nor 0x10
        0x00, 0x00, 0x00, // chunk count = 0
    ];
    let r = std::panic::catch_unwind(|| BlteFile::parse(&data).map(|_| ()).map_err(|e| e.to_string()));
    match r {
        Err(_) => panic!("BlteFile::parse PANICKED on a 12-byte input with table-format byte 0x00"),
        Ok(Ok(())) => panic!("parse accepted an invalid table-format byte"),
        Ok(Err(e)) => println!("parse returned Err as expected: {e}"),
    }
}

/// Every byte value other than 0x0F / 0x10 must be rejected with Err.
#[test]
fn a3_all_invalid_table_format_bytes() {
    let mut panics = 0;
    for b in 0u16..=255 {
        let b = b as u8;
        if b == 0x0F || b == 0x10 {
            continue;
        }
        let data = vec![b'B', b'L', b'T', b'E', 0, 0, 0, 12, b, 0, 0, 0];
        let r = std::panic::catch_unwind(|| BlteFile::parse(&data).is_err());
        match r {
            Err(_) => panics += 1,
            Ok(is_err) => assert!(is_err, "byte {b:#04x} accepted"),
        }
    }
    assert_eq!(panics, 0, "{panics} of 254 invalid table-format bytes made BlteFile::parse panic");
}

/// EncryptedHeader (public BinRead type): encryption-type byte 'X' panics.
#[test]
fn a3_invalid_encryption_type_byte_must_be_err_not_panic() {
    let data: Vec<u8> = vec![
        8, 1, 2, 3, 4, 5, 6, 7, 8, // key_name_size + key name
        4, 0x11, 0x22, 0x33, 0x44, // iv_size + iv
        b'X', // encryption type: neither 'S' nor 'A'
    ];
    let r = std::panic::catch_unwind(|| {
        EncryptedHeader::read_be(&mut Cursor::new(&data)).map(|_| ()).map_err(|e| e.to_string())
    });
    match r {
        Err(_) => panic!("EncryptedHeader::read PANICKED on encryption-type byte 'X'"),
        Ok(Ok(())) => panic!("read accepted an invalid encryption type"),
        Ok(Err(e)) => println!("read returned Err as expected: {e}"),
    }
}

/// Valid inputs still parse (guards the fix against over-rejecting).
#[test]
fn a3_valid_bytes_still_accepted() {
    for b in [0x0Fu8, 0x10] {
        let data = vec![b'B', b'L', b'T', b'E', 0, 0, 0, 12, b, 0, 0, 0];
        assert!(BlteFile::parse(&data).is_ok(), "valid table format {b:#04x} rejected");
    }
    for t in [b'S', b'A'] {
        let data: Vec<u8> = vec![8, 1, 2, 3, 4, 5, 6, 7, 8, 4, 0x11, 0x22, 0x33, 0x44, t];
        let h = EncryptedHeader::read_be(&mut Cursor::new(&data)).expect("valid header");
        assert_eq!(h.encryption_type.as_byte(), t);
    }
}
