use cascette_formats::archive::{ArchiveGroup, ArchiveGroupBuilder, ArchiveGroupEntry};
use std::io::Cursor;

fn build_and_parse(n: u32) -> (usize, usize) {
    let mut b = ArchiveGroupBuilder::new();
    for i in 0..n {
        let mut key = vec![0u8; 16];
        key[..4].copy_from_slice(&i.to_be_bytes());
        b.add_entry(ArchiveGroupEntry::new(key, (i % 7) as u16, i * 3, 100 + i));
    }
    let mut out = Cursor::new(Vec::new());
    let built = b.build(&mut out).expect("build");
    let parsed = ArchiveGroup::parse(&mut Cursor::new(out.into_inner())).expect("the builder's own output parses");
    (built.entries.len(), parsed.entries.len())
}

#[test]
fn every_entry_given_to_the_builder_is_written() {
    // 157 entries of 26 bytes fit one 4 KiB chunk (14 bytes of padding each)
    for n in [1u32, 157, 158, 10_000, 46_001, 46_002, 60_000] {
        let (built, parsed) = build_and_parse(n);
        assert_eq!(built, n as usize, "{n} entries: build() reports");
        assert_eq!(parsed, n as usize, "{n} entries given to the builder, {parsed} parsed back");
    }
}
