//! B13: CdnClient::{build_url, download, download_archive_index, get_index_size} and
//! RangeDownloader::download_archive_content slice `&hex[..2]` / `[2..4]` of a key / archive name of any
//! length: keys shorter than 2 bytes (hex < 4 chars) and archive names shorter than 4 chars (or with a
//! non-ASCII char straddling byte 2/4) panic before any network I/O instead of returning an error.
#![allow(clippy::expect_used, clippy::unwrap_used, clippy::panic)]

use cascette_protocol::{
    CacheConfig, CdnClient, CdnConfig, CdnEndpoint, ContentType,
    cache::ProtocolCache,
    cdn::RangeDownloader,
};
use futures::FutureExt;
use std::{future::Future, panic::AssertUnwindSafe, sync::Arc};

fn endpoint() -> CdnEndpoint {
    CdnEndpoint {
        host: "127.0.0.1:9".to_string(), // discard port; never reached by the panicking calls
        path: "tpr/wow".to_string(),
        product_path: None,
        scheme: Some("http".to_string()),
        is_fallback: false,
        strict: false,
        max_hosts: None,
    }
}

/// Returns Some(panic message) if the future panicked.
async fn panics<T>(name: &str, fut: impl Future<Output = T>) -> Option<String> {
    match AssertUnwindSafe(fut).catch_unwind().await {
        Ok(_) => {
            println!("{name:<62} -> returned (no panic)");
            None
        }
        Err(p) => {
            let msg = p
                .downcast_ref::<String>()
                .cloned()
                .or_else(|| p.downcast_ref::<&str>().map(|s| (*s).to_string()))
                .unwrap_or_default();
            println!("{name:<62} -> PANIC: {msg}");
            Some(msg)
        }
    }
}

#[tokio::test(flavor = "multi_thread", worker_threads = 2)]
async fn b13_short_keys_panic_instead_of_erroring() {
    std::panic::set_hook(Box::new(|_| {})); // keep output short; messages are printed below
    let cache = Arc::new(ProtocolCache::new(&CacheConfig::default()).unwrap());
    let cdn = CdnClient::new(cache, CdnConfig::default()).unwrap();
    let ep = endpoint();
    let ranges = RangeDownloader::new().unwrap();

    let mut n = 0;
    let mut hit = |r: Option<String>| n += usize::from(r.is_some());

    // byte keys (hex-encoded internally): len 0 -> "", len 1 -> "ab"
    hit(panics("download(Data, key=[])", cdn.download(&ep, ContentType::Data, &[])).await);
    hit(panics("download(Config, key=[0xab])", cdn.download(&ep, ContentType::Config, &[0xab])).await);
    hit(panics("download_with_resume(key=[0xab]) [build_url]", cdn.download_with_resume(&ep, ContentType::Data, &[0xab], None)).await);
    hit(panics("download_range(key=[]) [build_url]", cdn.download_range(&ep, ContentType::Data, &[], 0, 16)).await);
    hit(panics("get_file_size(key=[0xab]) [build_url]", cdn.get_file_size(&ep, ContentType::Data, &[0xab])).await);
    // archive names (&str)
    hit(panics("download_archive_index(archive_key=\"\")", cdn.download_archive_index(&ep, "")).await);
    hit(panics("download_archive_index(archive_key=\"abc\")", cdn.download_archive_index(&ep, "abc")).await);
    hit(panics("get_index_size(archive_key=\"a\")", cdn.get_index_size(&ep, "a")).await);
    hit(panics("RangeDownloader::download_archive_content(archive_name=\"abc\")", ranges.download_archive_content(&ep, "abc", 0, 16)).await);
    // long enough, but byte index 2 is inside a multi-byte char
    hit(panics("download_archive_index(archive_key=\"a\u{e9}0123456789abcdef\")", cdn.download_archive_index(&ep, "a\u{e9}0123456789abcdef")).await);

    let _ = std::panic::take_hook();
    assert_eq!(n, 0, "{n} of 10 public CDN calls panicked on a short / malformed key");
}
