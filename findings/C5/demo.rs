//! C5 demo: the integrity validators UpdateEntry::validate_hash_guard and
//! LocalHeader::validate_checksums exist but have no non-test caller.
//!  (a) flipping a byte inside a stored update entry of a saved .idx file is
//!      accepted by IndexManager::load_all / lookup (the altered location/size
//!      is served as if valid);
//!  (b) flipping a byte inside the 30-byte local header of an entry in a
//!      .data archive is accepted by ArchiveManager::read_content.
#![allow(clippy::expect_used, clippy::unwrap_used)]

use cascette_client_storage::index::IndexManager;
use cascette_client_storage::index::update::{UPDATE_ENTRY_SIZE, UpdateEntry};
use cascette_client_storage::storage::ArchiveManager;
use cascette_client_storage::storage::local_header::{LOCAL_HEADER_SIZE, LocalHeader};
use cascette_crypto::EncodingKey;

const UPDATE_SECTION_START: usize = 0x1_0000; // 64 KiB aligned, empty sorted section

#[tokio::test]
async fn c5a_corrupted_update_entry_is_rejected_on_load() {
    let dir = tempfile::tempdir().expect("tempdir");
    let key = EncodingKey::from_bytes([0xA1, 0xB2, 0xC3, 0xD4, 0xE5, 0xF6, 0x07, 0x18, 0x29, 0, 0, 0, 0, 0, 0, 0]);

    // Store one entry (archive 3, offset 0x1000, size 500) and persist.
    let mut index = IndexManager::new(dir.path());
    index.add_entry(&key, 3, 0x1000, 500).expect("add");
    index.save_all().expect("save");
    drop(index);

    let idx_path = std::fs::read_dir(dir.path())
        .expect("read_dir")
        .flatten()
        .map(|e| e.path())
        .find(|p| p.extension().is_some_and(|e| e == "idx"))
        .expect("an .idx file");
    let mut bytes = std::fs::read(&idx_path).expect("read idx");

    // Sanity: the update entry is where we think it is and is valid.
    let mut raw = [0u8; UPDATE_ENTRY_SIZE];
    raw.copy_from_slice(&bytes[UPDATE_SECTION_START..UPDATE_SECTION_START + UPDATE_ENTRY_SIZE]);
    let stored = UpdateEntry::from_bytes(&raw);
    assert_eq!(stored.ekey, key.as_bytes()[..9]);
    assert!(stored.validate_hash_guard(), "pristine entry has a valid guard");

    // Corrupt: flip one bit in the offset field and one in the size field.
    bytes[UPDATE_SECTION_START + 16] ^= 0x40; // archive_offset 0x1000 -> 0x5000 (20480)
    bytes[UPDATE_SECTION_START + 19] ^= 0x01; // size 500 (0x01F4) -> 244 (0x00F4)
    raw.copy_from_slice(&bytes[UPDATE_SECTION_START..UPDATE_SECTION_START + UPDATE_ENTRY_SIZE]);
    assert!(
        !UpdateEntry::from_bytes(&raw).validate_hash_guard(),
        "the guard does detect this corruption - if anybody asked"
    );
    std::fs::write(&idx_path, &bytes).expect("write corrupted idx");

    // Load the corrupted file.
    let mut reloaded = IndexManager::new(dir.path());
    let load = reloaded.load_all().await;
    let found = reloaded.lookup(&key);
    eprintln!("load_all: {load:?}");
    eprintln!(
        "lookup after corruption: {:?}",
        found.as_ref().map(|e| (e.archive_id(), e.archive_offset(), e.size))
    );
    assert!(
        load.is_err() || found.is_none(),
        "corrupted update entry (bad hash guard) was accepted and is served as {:?}",
        found.map(|e| (e.archive_id(), e.archive_offset(), e.size))
    );
}

#[tokio::test]
async fn c5b_corrupted_local_header_is_rejected_on_read() {
    let dir = tempfile::tempdir().expect("tempdir");
    let payload = b"payload protected by a local header with two checksums".to_vec();

    let mut am = ArchiveManager::new(dir.path());
    let (archive_id, offset, size, _ekey) = am.write_content(&payload, false).expect("write");
    assert_eq!(am.read_content(archive_id, offset, size).expect("pristine read"), payload);
    drop(am);

    let data_path = dir.path().join("data.000");
    let mut bytes = std::fs::read(&data_path).expect("read data.000");
    let base = offset as usize;
    let hdr = LocalHeader::from_bytes(&bytes[base..base + LOCAL_HEADER_SIZE]).expect("hdr");
    assert!(hdr.validate_checksums(base), "pristine header validates");

    // Corrupt the stored key (byte 0), the size field (byte 0x12) and checksum A (byte 0x16).
    bytes[base] ^= 0xFF;
    bytes[base + 0x12] ^= 0x7F;
    bytes[base + 0x16] ^= 0x01;
    let bad = LocalHeader::from_bytes(&bytes[base..base + LOCAL_HEADER_SIZE]).expect("hdr");
    assert!(!bad.validate_checksums(base), "checksums do detect this corruption - if anybody asked");
    std::fs::write(&data_path, &bytes).expect("write corrupted archive");

    let mut am = ArchiveManager::new(dir.path());
    am.open_all().await.expect("open_all");
    let read = am.read_content(archive_id, offset, size);
    eprintln!(
        "read_content with corrupted local header: {:?}",
        read.as_ref().map(|d| String::from_utf8_lossy(d).into_owned())
    );
    assert!(read.is_err(), "corrupted local header (bad checksums, wrong key, wrong size) was accepted");
}
