#![allow(clippy::expect_used, clippy::unwrap_used, clippy::panic)]
//! Patch index: a block whose key_size is larger than 16 must be rejected
//! with an error, not a slice-index panic. `PatchIndexEntry` stores keys in
//! `[u8; 16]`, and key_size is a raw byte from the block data.

use cascette_formats::CascFormat;
use cascette_formats::patch_index::PatchIndex;
use cascette_formats::patch_index::parser::{parse_block2, parse_block8, parse_patch_index};
use std::panic::catch_unwind;

const KEY_SIZE: u8 = 17;
/// 3 * key_size + 13
const ENTRY_SIZE: usize = 3 * 17 + 13;

/// Block type 2: entry_count = 1, key_size = 17, one 64-byte entry.
fn block2() -> Vec<u8> {
    let mut b = Vec::new();
    b.extend_from_slice(&1u32.to_le_bytes()); // entry_count
    b.push(KEY_SIZE); // key_size
    b.extend_from_slice(&[0x11; ENTRY_SIZE]); // one entry
    assert_eq!(b.len(), 69);
    b
}

/// Block type 8: 14-byte header (version 3, key_size = 17, data_offset = 14,
/// entry_count = 1), one 64-byte entry.
fn block8() -> Vec<u8> {
    let mut b = Vec::new();
    b.push(3); // version
    b.push(KEY_SIZE); // key_size
    b.extend_from_slice(&14u16.to_le_bytes()); // data_offset
    b.extend_from_slice(&1u32.to_le_bytes()); // entry_count
    b.extend_from_slice(&((ENTRY_SIZE + 1) as u32).to_le_bytes()); // unknown
    b.push(0x01); // unknown
    b.push(0x02); // unknown
    b.extend_from_slice(&[0x11; ENTRY_SIZE]); // one entry
    assert_eq!(b.len(), 78);
    b
}

/// Complete patch index file holding exactly one block.
///
/// Header: header_size = 26, version = 1, data_size = file length,
/// extra_header_len = 0, block_count = 1, one descriptor (type, size).
fn file_with_block(block_type: u32, block: &[u8]) -> Vec<u8> {
    let header_size = 12 + 2 + 4 + 8;
    let total = header_size + block.len();
    let mut f = Vec::new();
    f.extend_from_slice(&(header_size as u32).to_le_bytes()); // header_size
    f.extend_from_slice(&1u32.to_le_bytes()); // version
    f.extend_from_slice(&(total as u32).to_le_bytes()); // data_size
    f.extend_from_slice(&0u16.to_le_bytes()); // extra_header_len
    f.extend_from_slice(&1u32.to_le_bytes()); // block_count
    f.extend_from_slice(&block_type.to_le_bytes()); // descriptor: block_type
    f.extend_from_slice(&(block.len() as u32).to_le_bytes()); // descriptor: block_size
    assert_eq!(f.len(), header_size);
    f.extend_from_slice(block);
    assert_eq!(f.len(), total);
    f
}

#[test]
fn parse_block2_key_size_17_is_an_error_not_a_panic() {
    let data = block2();
    let result = catch_unwind(|| parse_block2(&data).map(|_| ()).map_err(|e| e.to_string()));
    let result = result.expect("parse_block2 panicked on key_size = 17");
    assert!(result.is_err(), "key_size = 17 must be rejected");
}

#[test]
fn parse_block8_key_size_17_is_an_error_not_a_panic() {
    let data = block8();
    let result = catch_unwind(|| parse_block8(&data).map(|_| ()).map_err(|e| e.to_string()));
    let result = result.expect("parse_block8 panicked on key_size = 17");
    assert!(result.is_err(), "key_size = 17 must be rejected");
}

#[test]
fn parse_patch_index_block2_key_size_17_is_an_error_not_a_panic() {
    let data = file_with_block(2, &block2());
    let result = catch_unwind(|| {
        parse_patch_index(&data)
            .map(|_| ())
            .map_err(|e| e.to_string())
    });
    let result = result.expect("parse_patch_index panicked on block 2 with key_size = 17");
    assert!(result.is_err(), "key_size = 17 must be rejected");
}

#[test]
fn parse_patch_index_block8_key_size_17_is_an_error_not_a_panic() {
    let data = file_with_block(8, &block8());
    let result = catch_unwind(|| {
        parse_patch_index(&data)
            .map(|_| ())
            .map_err(|e| e.to_string())
    });
    let result = result.expect("parse_patch_index panicked on block 8 with key_size = 17");
    assert!(result.is_err(), "key_size = 17 must be rejected");
}

#[test]
fn patch_index_parse_key_size_17_is_an_error_not_a_panic() {
    let data = file_with_block(2, &block2());
    let result = catch_unwind(|| {
        <PatchIndex as CascFormat>::parse(&data)
            .map(|_| ())
            .map_err(|e| e.to_string())
    });
    let result = result.expect("PatchIndex::parse panicked on key_size = 17");
    assert!(result.is_err(), "key_size = 17 must be rejected");
}

/// The same file with key_size = 16 parses, so the header and size fields
/// above are otherwise valid and the only offending field is key_size.
#[test]
fn same_file_with_key_size_16_parses() {
    let mut block = Vec::new();
    block.extend_from_slice(&1u32.to_le_bytes());
    block.push(16);
    block.extend_from_slice(&[0x11; 3 * 16 + 13]);
    let data = file_with_block(2, &block);
    let (_, key_size, entries) = parse_patch_index(&data).unwrap();
    assert_eq!(key_size, 16);
    assert_eq!(entries.len(), 1);
}
