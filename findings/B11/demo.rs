//! B11: ProtocolCacheKey derives PartialEq over its OnceLock<String> memo (`cached_key`). DiskCache::put_with_ttl calls
//! key.as_cache_key() (fills the memo) before inserting the key into its index; every ProtocolCache::get builds a fresh
//! key (memo empty). Hash is equal (hashes `key` only) but `==` is false, so the index lookup ALWAYS misses and get()
//! goes through DiskCache's "not indexed, but file exists" fallback:
//!   * the TTL passed to store_with_ttl is never honoured (data is served after expiry, forever),
//!   * every get() re-inserts the entry with expires_at=None and bumps entry_count / usage again.
//! (ProtocolCacheKey itself is private, so the consequence is shown through the public ProtocolCache API.)
#![allow(clippy::expect_used, clippy::unwrap_used, clippy::panic)]

use cascette_protocol::{CacheConfig, cache::ProtocolCache};
use std::time::Duration;

#[test]
fn b11_disk_backed_protocol_cache_never_expires_and_miscounts() {
    let ttl = Duration::from_millis(100);
    let key = "ribbit:v1/products/wow/versions";

    // control: memory-backed cache (MemoryCache never calls as_cache_key(), memo stays empty) honours the TTL
    let mem = ProtocolCache::new(&CacheConfig::default()).unwrap();
    mem.store_with_ttl(key, b"v1", ttl).unwrap();
    assert_eq!(mem.get(key).unwrap().as_deref(), Some(&b"v1"[..]));

    // disk-backed cache
    let dir = tempfile::TempDir::new().unwrap();
    let disk = ProtocolCache::new(&CacheConfig {
        cache_dir: Some(dir.path().to_path_buf()),
        ..CacheConfig::default()
    })
    .unwrap();
    disk.store_with_ttl(key, b"v1", ttl).unwrap();
    let s0 = disk.stats().unwrap();
    println!("after store:            entries={} bytes={} hits={} misses={}", s0.entries, s0.memory_usage, s0.hits, s0.misses);

    for _ in 0..5 {
        assert_eq!(disk.get(key).unwrap().as_deref(), Some(&b"v1"[..]));
    }
    let s1 = disk.stats().unwrap();
    println!("after 5 gets (1 key):   entries={} bytes={}  <- one 2-byte entry on disk", s1.entries, s1.memory_usage);

    std::thread::sleep(Duration::from_millis(400)); // 4x TTL

    let mem_after = mem.get(key).unwrap();
    let disk_after = disk.get(key).unwrap();
    println!(
        "after 4x TTL: memory-backed get -> {:?}; disk-backed get -> {:?}",
        mem_after.as_deref().map(String::from_utf8_lossy),
        disk_after.as_deref().map(String::from_utf8_lossy)
    );

    assert_eq!(mem_after, None, "control: memory-backed ProtocolCache must expire the entry");
    assert_eq!(s1.entries, 1, "one stored key is counted {} times after 5 reads", s1.entries);
    assert_eq!(disk_after, None, "disk-backed ProtocolCache served an entry 4x past its TTL");
}
