//! Triage finding 2: `CertificateFetcher::extract_pem_certificate` slices the
//! response between the first BEGIN marker and the first END marker without
//! checking that END comes after BEGIN.
//!
//! The function is private; the public entry points are
//! `CertificateFetcher::fetch_by_ski` / `fetch_by_hash`, which parse whatever
//! text the Ribbit TCP server sends back. The demo serves a crafted response
//! from a loopback listener and asserts the fetch returns (Ok or Err) instead
//! of panicking.

use std::io::{Read, Write};
use std::net::TcpListener;
use std::panic::{AssertUnwindSafe, catch_unwind};
use std::thread;

use cascette_protocol::RibbitClient;
use cascette_protocol::v1_mime::certificate::CertificateFetcher;

/// Serve `response` once on a loopback port and return the port.
fn serve_once(response: &'static [u8]) -> u16 {
    let listener = TcpListener::bind("127.0.0.1:0").expect("bind loopback");
    let port = listener.local_addr().expect("local addr").port();
    thread::spawn(move || {
        if let Ok((mut stream, _)) = listener.accept() {
            let mut buf = [0u8; 1024];
            let _ = stream.read(&mut buf);
            let _ = stream.write_all(response);
            let _ = stream.shutdown(std::net::Shutdown::Both);
        }
    });
    port
}

fn fetch(response: &'static [u8], by_hash: bool) -> std::thread::Result<Result<(), String>> {
    let port = serve_once(response);
    let rt = tokio::runtime::Builder::new_current_thread()
        .enable_all()
        .build()
        .expect("tokio runtime");
    catch_unwind(AssertUnwindSafe(|| {
        rt.block_on(async {
            let client = RibbitClient::new(format!("tcp://127.0.0.1:{port}")).expect("client");
            let fetcher = CertificateFetcher::new(&client);
            let r = if by_hash {
                fetcher.fetch_by_hash("00").await
            } else {
                fetcher.fetch_by_ski("00").await
            };
            r.map(|_| ()).map_err(|e| e.to_string())
        })
    }))
}

/// END marker before BEGIN marker: BEGIN at byte 26, END at byte 0, so the
/// slice is `response[26..25]`.
const END_BEFORE_BEGIN: &[u8] = b"-----END CERTIFICATE-----\n-----BEGIN CERTIFICATE-----\n";

#[test]
fn fetch_by_ski_end_marker_before_begin_marker() {
    let r = fetch(END_BEFORE_BEGIN, false);
    assert!(
        r.is_ok(),
        "fetch_by_ski panicked on END-before-BEGIN response"
    );
    assert!(matches!(r, Ok(Err(_))), "expected a parse error, got {r:?}");
}

#[test]
fn fetch_by_hash_end_marker_before_begin_marker() {
    let r = fetch(END_BEFORE_BEGIN, true);
    assert!(
        r.is_ok(),
        "fetch_by_hash panicked on END-before-BEGIN response"
    );
    assert!(matches!(r, Ok(Err(_))), "expected a parse error, got {r:?}");
}

/// A stray END marker in leading text followed by a complete PEM block must
/// still be handled without panicking (the body is not a real certificate, so
/// an error is expected).
#[test]
fn stray_end_marker_then_complete_block() {
    const RESPONSE: &[u8] = b"-----END CERTIFICATE-----\n-----BEGIN CERTIFICATE-----\nAAAA\n-----END CERTIFICATE-----\n";
    let r = fetch(RESPONSE, false);
    assert!(r.is_ok(), "fetch_by_ski panicked on stray END marker");
}
