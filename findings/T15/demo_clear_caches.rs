use cascette_client_storage::resolver::ContentResolver;
use cascette_crypto::{md5::ContentKey, FileDataId};
use cascette_formats::root::{ContentFlags, LocaleFlags, RootBuilder, RootVersion};

#[test]
fn clear_caches_does_not_change_what_resolves() {
    let mut b = RootBuilder::new(RootVersion::V4);
    let locale = LocaleFlags::new(LocaleFlags::ENUS);
    let content = ContentFlags::new(ContentFlags::NONE);
    for i in 0..120u32 {
        b.add_file(FileDataId::new(1000 + i), ContentKey::from_bytes([(i % 250) as u8 + 1; 16]), None, locale, content);
    }
    let bytes = b.build().expect("build");
    let r = ContentResolver::new();
    r.load_root_file(&bytes).expect("load");
    let before = r.resolve_file_data_id(1007);
    assert!(before.is_some(), "a loaded FileDataID resolves");
    r.clear_caches();
    assert_eq!(r.resolve_file_data_id(1007), before, "clearing caches must not change lookup results: the root file is still loaded");
}
