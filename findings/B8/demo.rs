//! B8: DiskCache::write_file
//!  (1) temp path = path.with_extension("tmp"):
//!      - concurrent puts of the SAME key share one temp file -> spurious rename errors, torn content
//!      - two DIFFERENT keys that differ only after their last '.' share one temp file (same directory)
//!        -> errors and cross-key contamination (key A returns key B's bytes)
//!  (2) the result of libc::fsync is ignored: put() reports Ok although the data never reached stable storage.
#![allow(clippy::expect_used, clippy::unwrap_used, clippy::panic)]
#![allow(unsafe_code)]

use bytes::Bytes;
use cascette_cache::{
    config::DiskCacheConfig, disk_cache::DiskCache, key::CacheKey, traits::AsyncCache,
};
use futures::executor::block_on;
use std::{
    path::Path,
    sync::{
        Arc, Barrier,
        atomic::{AtomicBool, AtomicUsize, Ordering},
    },
    time::Duration,
};

#[derive(Debug, Clone, PartialEq, Eq, Hash)]
struct K(String);
impl CacheKey for K {
    fn as_cache_key(&self) -> &str {
        &self.0
    }
}

fn tmp() -> tempfile::TempDir {
    if Path::new("/dev/shm").is_dir() {
        tempfile::TempDir::new_in("/dev/shm").unwrap()
    } else {
        tempfile::TempDir::new().unwrap()
    }
}

const TTL: Duration = Duration::from_secs(3600);
const LEN: usize = 256 * 1024;

/// value written by writer `id`: LEN + id bytes, all equal to b'A' + id
fn value(id: usize) -> Bytes {
    Bytes::from(vec![b'A' + id as u8; LEN + id])
}
/// a stored value is sane iff it is exactly one writer's value
fn classify(v: &[u8], allowed: &[usize]) -> Result<usize, String> {
    let first = *v.first().ok_or("empty file")?;
    let id = first.wrapping_sub(b'A') as usize;
    if !allowed.contains(&id) {
        return Err(format!("content of foreign writer {:?}", first as char));
    }
    if !v.iter().all(|b| *b == first) {
        return Err("mixed bytes from several writers".into());
    }
    if v.len() != LEN + id {
        return Err(format!("wrong length {} for writer {id} (expected {})", v.len(), LEN + id));
    }
    Ok(id)
}

#[test]
fn b8_same_key_concurrent_puts_share_temp_file() {
    const THREADS: usize = 4;
    const PUTS: usize = 1500;
    let dir = tmp();
    let cache: Arc<DiskCache<K>> = Arc::new(DiskCache::new(DiskCacheConfig::new(dir.path())).unwrap());
    let key = K("encoding-file".into());
    let errors = AtomicUsize::new(0);
    let torn = AtomicUsize::new(0);
    let first_err = std::sync::Mutex::new(None::<String>);
    let first_torn = std::sync::Mutex::new(None::<String>);
    let bar = Barrier::new(THREADS);
    let all: Vec<usize> = (0..THREADS).collect();

    std::thread::scope(|s| {
        for id in 0..THREADS {
            let (cache, key, errors, torn, first_err, first_torn, bar, all) =
                (&cache, &key, &errors, &torn, &first_err, &first_torn, &bar, &all);
            s.spawn(move || {
                let v = value(id);
                bar.wait();
                for _ in 0..PUTS {
                    if let Err(e) = block_on(cache.put_with_ttl(key.clone(), v.clone(), TTL)) {
                        errors.fetch_add(1, Ordering::Relaxed);
                        first_err.lock().unwrap().get_or_insert(e.to_string());
                    }
                    // the published file must always be exactly one writer's value (that is what
                    // "write temp + atomic rename" is supposed to guarantee)
                    if let Ok(Some(got)) = block_on(cache.get(key)) {
                        if let Err(why) = classify(&got, all) {
                            torn.fetch_add(1, Ordering::Relaxed);
                            first_torn.lock().unwrap().get_or_insert(why);
                        }
                    }
                }
            });
        }
    });
    let (e, t) = (errors.load(Ordering::Relaxed), torn.load(Ordering::Relaxed));
    println!(
        "same key, {THREADS} writers x {PUTS} puts: put() errors = {e} (first: {:?}); torn/mixed reads = {t} (first: {:?})",
        first_err.lock().unwrap(),
        first_torn.lock().unwrap()
    );
    assert_eq!((e, t), (0, 0), "concurrent puts of one key interfere through the shared .tmp file");
}

#[test]
fn b8_keys_differing_after_last_dot_share_temp_file() {
    const PUTS: usize = 3000;
    let dir = tmp();
    // flat layout: both keys live in the same directory (with hashed subdirectories the two keys
    // additionally need to land in the same bucket)
    let cfg = DiskCacheConfig::new(dir.path()).with_subdirectories(false, 0);
    let cache: Arc<DiskCache<K>> = Arc::new(DiskCache::new(cfg).unwrap());
    // e.g. "<hash>.index" vs "<hash>.data", "wow-1.15.7.a" vs "wow-1.15.7.b"
    let keys = [K("0123abcd.index".into()), K("0123abcd.data".into())];
    println!(
        "temp paths: {:?} / {:?}",
        Path::new(&keys[0].0).with_extension("tmp"),
        Path::new(&keys[1].0).with_extension("tmp")
    );
    let errors = AtomicUsize::new(0);
    let wrong = AtomicUsize::new(0);
    let first_err = std::sync::Mutex::new(None::<String>);
    let first_wrong = std::sync::Mutex::new(None::<String>);
    let bar = Barrier::new(2);

    std::thread::scope(|s| {
        for id in 0..2 {
            let (cache, keys, errors, wrong, first_err, first_wrong, bar) =
                (&cache, &keys, &errors, &wrong, &first_err, &first_wrong, &bar);
            s.spawn(move || {
                let v = value(id);
                bar.wait();
                for _ in 0..PUTS {
                    if let Err(e) = block_on(cache.put_with_ttl(keys[id].clone(), v.clone(), TTL)) {
                        errors.fetch_add(1, Ordering::Relaxed);
                        first_err.lock().unwrap().get_or_insert(e.to_string());
                    }
                    // only this thread ever writes keys[id]: it must read back exactly its own value
                    if let Ok(Some(got)) = block_on(cache.get(&keys[id])) {
                        if let Err(why) = classify(&got, &[id]) {
                            wrong.fetch_add(1, Ordering::Relaxed);
                            first_wrong.lock().unwrap().get_or_insert(format!("key {:?}: {why}", keys[id].0));
                        }
                    }
                }
            });
        }
    });
    let (e, w) = (errors.load(Ordering::Relaxed), wrong.load(Ordering::Relaxed));
    println!(
        "two keys sharing a temp name, {PUTS} puts each: put() errors = {e} (first: {:?}); wrong content read back = {w} (first: {:?})",
        first_err.lock().unwrap(),
        first_wrong.lock().unwrap()
    );
    assert_eq!((e, w), (0, 0), "independent keys interfere through the shared .tmp file");
}

// ---- (2) fsync result ignored -------------------------------------------------------------
// Interpose fsync(2) for this test binary only (symbols defined in the executable win over
// libc.so at link time). When FAIL_FSYNC is set the call fails with EIO, like a dying disk /
// full thin-provisioned volume / NFS server error would.
static FAIL_FSYNC: AtomicBool = AtomicBool::new(false);
static FSYNC_CALLS: AtomicUsize = AtomicUsize::new(0);

// (raw declarations instead of the `libc` crate so the demo does not depend on cascette-cache's
// own dependency list)
use std::ffi::{c_int, c_long};
unsafe extern "C" {
    fn syscall(num: c_long, ...) -> c_long;
    fn __errno_location() -> *mut c_int;
}
#[cfg(target_arch = "x86_64")]
const SYS_FSYNC: c_long = 74;
#[cfg(target_arch = "aarch64")]
const SYS_FSYNC: c_long = 82;
const EIO: c_int = 5;

#[unsafe(no_mangle)]
pub extern "C" fn fsync(fd: c_int) -> c_int {
    FSYNC_CALLS.fetch_add(1, Ordering::SeqCst);
    if FAIL_FSYNC.load(Ordering::SeqCst) {
        unsafe { *__errno_location() = EIO };
        return -1;
    }
    unsafe { syscall(SYS_FSYNC, fd) as c_int }
}

#[test]
fn b8_fsync_failure_is_swallowed() {
    let dir = tempfile::TempDir::new().unwrap();
    let cache: DiskCache<K> = DiskCache::new(DiskCacheConfig::new(dir.path())).unwrap();

    FAIL_FSYNC.store(true, Ordering::SeqCst);
    let before = FSYNC_CALLS.load(Ordering::SeqCst);
    let res = block_on(cache.put_with_ttl(K("durable".into()), Bytes::from_static(b"payload"), TTL));
    FAIL_FSYNC.store(false, Ordering::SeqCst);
    let calls = FSYNC_CALLS.load(Ordering::SeqCst) - before;

    println!("fsync() called {calls}x, each failing with EIO; put_with_ttl returned {res:?}");
    assert!(calls >= 1, "interposed fsync was not reached");
    assert!(res.is_err(), "fsync failed with EIO but put_with_ttl reported success");
}
