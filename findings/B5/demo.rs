//! B5: DiskCache background cleanup task
//!  (a) updates fresh local atomics instead of the cache's entry_count/disk_usage, so
//!      stats() keep counting entries the task has already deleted from index + disk;
//!  (b) when only max_disk_bytes is exceeded, excess_count == 0 -> nothing is evicted.
#![allow(clippy::expect_used, clippy::unwrap_used, clippy::panic)]

use bytes::Bytes;
use cascette_cache::{
    config::DiskCacheConfig, disk_cache::DiskCache, key::RibbitKey, traits::AsyncCache,
};
use std::{path::Path, time::Duration};

fn files_under(dir: &Path) -> (usize, u64) {
    let (mut n, mut bytes) = (0, 0);
    for e in std::fs::read_dir(dir).unwrap() {
        let p = e.unwrap().path();
        if p.is_dir() {
            let (a, b) = files_under(&p);
            n += a;
            bytes += b;
        } else {
            n += 1;
            bytes += p.metadata().unwrap().len();
        }
    }
    (n, bytes)
}

#[tokio::test(flavor = "multi_thread", worker_threads = 2)]
async fn b5a_cleanup_task_updates_private_counters() {
    let dir = tempfile::TempDir::new().unwrap();
    let mut cfg = DiskCacheConfig::new(dir.path()).with_max_files(1000);
    cfg.cleanup_interval = Duration::from_millis(20);
    cfg.sync_interval = Duration::from_secs(3600);
    let cache: DiskCache<RibbitKey> = DiskCache::new_with_background_tasks(cfg).unwrap();

    for i in 0..10 {
        cache
            .put_with_ttl(
                RibbitKey::new(format!("k{i}"), "us"),
                Bytes::from(vec![0u8; 100]),
                Duration::from_millis(50),
            )
            .await
            .unwrap();
    }
    let before = cache.stats().await.unwrap();
    tokio::time::sleep(Duration::from_millis(500)).await; // expiry + many cleanup ticks

    let (files, bytes) = files_under(dir.path());
    let after = cache.stats().await.unwrap();
    println!(
        "before: entries={} bytes={} | after cleanup: files on disk={} ({} bytes) but stats: entries={} bytes={}",
        before.entry_count, before.memory_usage_bytes, files, bytes, after.entry_count, after.memory_usage_bytes
    );
    assert_eq!(files, 0, "cleanup task should have deleted the expired files");
    assert_eq!(
        (after.entry_count, after.memory_usage_bytes),
        (0, 0),
        "cleanup task deleted {} entries from index+disk but the cache's counters were not updated",
        before.entry_count
    );
}

#[tokio::test(flavor = "multi_thread", worker_threads = 2)]
async fn b5b_max_disk_bytes_never_enforced() {
    let dir = tempfile::TempDir::new().unwrap();
    let mut cfg = DiskCacheConfig::new(dir.path())
        .with_max_files(1000)
        .with_max_disk_usage(1000);
    cfg.cleanup_interval = Duration::from_millis(20);
    cfg.sync_interval = Duration::from_secs(3600);
    let cache: DiskCache<RibbitKey> = DiskCache::new_with_background_tasks(cfg).unwrap();

    for i in 0..100 {
        cache
            .put_with_ttl(
                RibbitKey::new(format!("k{i}"), "us"),
                Bytes::from(vec![0u8; 100]),
                Duration::from_secs(3600),
            )
            .await
            .unwrap();
    }
    tokio::time::sleep(Duration::from_millis(500)).await; // >20 cleanup ticks

    let (files, bytes) = files_under(dir.path());
    let st = cache.stats().await.unwrap();
    println!(
        "max_disk_bytes=1000 max_files=1000 -> after >20 cleanup ticks: files={} bytes_on_disk={} stats.entries={} stats.bytes={}",
        files, bytes, st.entry_count, st.memory_usage_bytes
    );
    assert!(
        bytes <= 1000,
        "max_disk_bytes=1000 not enforced: {bytes} bytes in {files} files remain after cleanup"
    );
}
