//! A6 demo: ZbsdiffPatcher::apply_patch_from_data parses and validates the patch header but never looks at
//! header.output_size; the only length check is against the constructor argument.
#![allow(clippy::expect_used, clippy::unwrap_used, clippy::panic)]

use cascette_formats::zbsdiff::{ZbsdiffBuilder, ZbsdiffHeader, ZbsdiffPatcher, apply_patch_memory};
use std::io::Cursor;

/// Header states N = 1000 but the control block produces 12 bytes; the caller constructs the patcher with
/// M = 12.  apply_patch_memory rejects this patch, ZbsdiffPatcher::apply_patch_from_data accepts it.
#[test]
fn a6_header_output_size_ignored_by_streaming_patcher() {
    let old = b"Hello, World!".to_vec();
    let new = b"Hello, Rust!".to_vec(); // 12 bytes
    let mut patch = ZbsdiffBuilder::new(old.clone(), new.clone()).build_simple_patch().expect("build");

    // Header layout (32 bytes): signature[8], control_size i64 LE, diff_size i64 LE, output_size i64 LE.
    assert_eq!(ZbsdiffHeader::parse_from_patch(&patch).unwrap().output_size, 12);
    patch[24..32].copy_from_slice(&1000i64.to_le_bytes());
    let header = ZbsdiffHeader::parse_from_patch(&patch).expect("still a valid header");
    assert_eq!(header.output_size, 1000);

    // Reference behaviour: the in-memory applier enforces the header value.
    let mem = apply_patch_memory(&old, &patch);
    println!("apply_patch_memory: {:?}", mem.as_ref().map(Vec::len).map_err(ToString::to_string));
    assert!(mem.is_err(), "apply_patch_memory must reject: header says 1000, patch yields 12");

    // Streaming patcher built with M = 12 (!= header N = 1000).
    let r = ZbsdiffPatcher::new(Cursor::new(old), 12).apply_patch_from_data(&patch);
    println!(
        "ZbsdiffPatcher::new(_, 12).apply_patch_from_data (header.output_size = 1000): {:?}",
        r.as_ref().map(Vec::len).map_err(ToString::to_string)
    );
    match r {
        Err(_) => {}
        Ok(out) => panic!(
            "patch header states output_size = {} but apply_patch_from_data returned Ok with {} bytes",
            header.output_size,
            out.len()
        ),
    }
}

/// The converse: an untouched, valid patch (header N = 12) applied through a patcher constructed with
/// M = 12 keeps working - guards the fix against over-rejecting.
#[test]
fn a6_matching_sizes_still_work() {
    let old = b"Hello, World!".to_vec();
    let new = b"Hello, Rust!".to_vec();
    let patch = ZbsdiffBuilder::new(old.clone(), new.clone()).build_simple_patch().expect("build");
    let out = ZbsdiffPatcher::new(Cursor::new(old), new.len()).apply_patch_from_data(&patch).expect("apply");
    assert_eq!(out, new);
}
