//! C8 demo: IndexManager::save_index uses a fixed temp path
//! (`path.with_extension("tmp")`) and is reachable concurrently through `&self`
//! (`save_all(&self)`; DynamicContainer::write calls it while holding only the
//! index *read* lock). Two concurrent saves of the same bucket share the temp
//! file: one saver truncates/removes/renames the file the other one is still
//! writing, so (1) save_all reports spurious errors and (2) the "atomic
//! replace" guarantee is lost - a reader can observe a torn final .idx file.
#![allow(clippy::expect_used, clippy::unwrap_used)]

use std::sync::Arc;
use std::sync::atomic::{AtomicBool, AtomicUsize, Ordering};

use cascette_client_storage::container::{AccessMode, Container, DynamicContainer};
use cascette_client_storage::index::IndexManager;
use cascette_crypto::EncodingKey;

/// All keys land in bucket 0 (XOR of first nine bytes is 0).
fn key(i: u16) -> EncodingKey {
    let [a, b] = i.to_be_bytes();
    let mut k = [0u8; 16];
    k[0] = a;
    k[1] = b;
    k[2] = a;
    k[3] = b;
    k[4] = 0x5A;
    k[5] = 0x5A;
    EncodingKey::from_bytes(k)
}

const ENTRIES: u16 = 1200;

/// Run `savers` threads that each call `save_all()` `rounds` times on the same
/// manager while one reader keeps loading the final .idx file.
/// Returns (save errors, reader anomalies, sample messages).
fn stress(savers: usize, rounds: usize) -> (usize, usize, Vec<String>) {
    let dir = tempfile::tempdir().expect("tempdir");
    let mut index = IndexManager::new(dir.path());
    for i in 0..ENTRIES {
        index.add_entry(&key(i), 0, u32::from(i) * 64, 64).expect("add");
    }
    index.save_all().expect("initial save");
    let idx_path = dir.path().join("0000000001.idx");
    assert!(idx_path.exists());

    let index = &index;
    let save_errors = AtomicUsize::new(0);
    let read_anomalies = AtomicUsize::new(0);
    let done = AtomicBool::new(false);
    let samples = std::sync::Mutex::new(Vec::<String>::new());

    std::thread::scope(|s| {
        // Reader: with an atomic write-temp-then-rename protocol the final path
        // must always hold a complete, valid index with all entries.
        s.spawn(|| {
            while !done.load(Ordering::Relaxed) {
                let mut probe = IndexManager::new(dir.path());
                match probe.load_index(0, &idx_path) {
                    Ok(()) if probe.entry_count() == usize::from(ENTRIES) => {}
                    Ok(()) => {
                        read_anomalies.fetch_add(1, Ordering::Relaxed);
                        let mut g = samples.lock().unwrap();
                        if g.len() < 6 {
                            g.push(format!("reader: torn file, {} of {ENTRIES} entries visible", probe.entry_count()));
                        }
                    }
                    Err(e) => {
                        read_anomalies.fetch_add(1, Ordering::Relaxed);
                        let mut g = samples.lock().unwrap();
                        if g.len() < 6 {
                            g.push(format!("reader: {}", e.to_string().lines().next().unwrap_or("")));
                        }
                    }
                }
            }
        });

        let handles: Vec<_> = (0..savers)
            .map(|_| {
                s.spawn(|| {
                    for _ in 0..rounds {
                        if let Err(e) = index.save_all() {
                            save_errors.fetch_add(1, Ordering::Relaxed);
                            let mut g = samples.lock().unwrap();
                            if g.len() < 6 {
                                g.push(format!("saver: {e}"));
                            }
                        }
                    }
                })
            })
            .collect();
        for h in handles {
            h.join().unwrap();
        }
        done.store(true, Ordering::Relaxed);
    });

    (
        save_errors.load(Ordering::Relaxed),
        read_anomalies.load(Ordering::Relaxed),
        samples.into_inner().unwrap(),
    )
}

#[test]
fn c8_control_single_saver_is_atomic() {
    let (errs, anomalies, samples) = stress(1, 400);
    eprintln!("1 saver : save errors = {errs}, reader anomalies = {anomalies} {samples:?}");
    assert_eq!((errs, anomalies), (0, 0));
}

#[test]
fn c8_concurrent_savers_share_temp_file() {
    let (errs, anomalies, samples) = stress(8, 200);
    eprintln!("8 savers: save errors = {errs}, reader anomalies = {anomalies}");
    for s in &samples {
        eprintln!("  {s}");
    }
    assert_eq!(
        (errs, anomalies),
        (0, 0),
        "concurrent save_all(&self) calls interfere through the shared .tmp file"
    );
}

/// Reachability through the public container API: concurrent
/// DynamicContainer::write calls run save_all under a *read* lock.
#[test]
fn c8_concurrent_container_writes() {
    let rt = tokio::runtime::Builder::new_multi_thread()
        .worker_threads(8)
        .enable_all()
        .build()
        .expect("rt");
    let dir = tempfile::tempdir().expect("tempdir");
    let errors = rt.block_on(async {
        let container = Arc::new(
            DynamicContainer::new(
                AccessMode::ReadWrite,
                dir.path().to_path_buf(),
                false,
                100,
                1024 * 1024 * 1024,
                false,
            )
            .expect("create"),
        );
        container.open().await.expect("open");

        let mut tasks = Vec::new();
        for t in 0..8u32 {
            let c = Arc::clone(&container);
            tasks.push(tokio::spawn(async move {
                let mut errs = Vec::new();
                for i in 0..150u32 {
                    let payload = format!("task {t} item {i}").into_bytes();
                    if let Err(e) = c.write(&[0u8; 16], &payload).await {
                        errs.push(e.to_string());
                    }
                }
                errs
            }));
        }
        let mut all = Vec::new();
        for t in tasks {
            all.extend(t.await.expect("join"));
        }
        all
    });
    eprintln!("DynamicContainer::write x 8 tasks x 150: {} spurious errors", errors.len());
    for e in errors.iter().take(5) {
        eprintln!("  {e}");
    }
    assert!(errors.is_empty(), "writes failed spuriously: {} errors", errors.len());
}
