//! Triage finding 4: `LruManager::load_from_disk` accepts a `.lru` file whose
//! prev/next/head/tail indices are out of range or form a cycle. The file's
//! MD5 only proves integrity, not that the links are well formed, and anyone
//! who can write the file can compute the MD5 (`lru_file::serialize` does).
//!
//! After loading, `for_each_entry` (called by `run_cycle`), `evict_tail` and
//! `touch` index `entries[idx]` with the loaded indices (panic) or follow
//! `next` forever (hang).

use std::panic::{AssertUnwindSafe, catch_unwind};
use std::sync::mpsc;
use std::thread;
use std::time::Duration;

use cascette_client_storage::lru::LruManager;
use cascette_client_storage::lru::lru_file::{
    LRU_SENTINEL, LruFileEntry, LruFileHeader, generation_to_filename, serialize,
};

const KEY: [u8; 9] = [1, 2, 3, 4, 5, 6, 7, 8, 9];

/// Write a checksummed `.lru` file for generation 1 and return the temp dir.
fn write_lru(header: &LruFileHeader, entries: &[LruFileEntry]) -> tempfile::TempDir {
    let dir = tempfile::tempdir().expect("tempdir");
    let bytes = serialize(header, entries);
    std::fs::write(dir.path().join(generation_to_filename(1)), bytes).expect("write .lru");
    dir
}

fn runtime() -> tokio::runtime::Runtime {
    tokio::runtime::Builder::new_current_thread()
        .build()
        .expect("tokio runtime")
}

/// Run `f` on a helper thread; `None` means it did not finish within 10 s.
fn with_watchdog<T: Send + 'static>(f: impl FnOnce() -> T + Send + 'static) -> Option<T> {
    let (tx, rx) = mpsc::channel();
    thread::spawn(move || {
        let _ = tx.send(f());
    });
    rx.recv_timeout(Duration::from_secs(10)).ok()
}

/// Header tail index 7 with a single entry: `for_each_entry` indexes
/// `entries[7]`.
#[test]
fn run_cycle_tail_index_out_of_range() {
    let header = LruFileHeader {
        version: 1,
        hash: [0; 16],
        mru_head: 7,
        lru_tail: 7,
    };
    let entries = [LruFileEntry {
        prev: LRU_SENTINEL,
        next: LRU_SENTINEL,
        ekey: KEY,
        flags: 0,
    }];
    let dir = write_lru(&header, &entries);

    let r = with_watchdog(move || {
        let mut lru = LruManager::new(4, dir.path().to_path_buf());
        catch_unwind(AssertUnwindSafe(|| {
            runtime()
                .block_on(lru.run_cycle(0, 0))
                .map(|s| s.active_entries)
                .map_err(|e| e.to_string())
        }))
    })
    .expect("run_cycle did not return within 10 s");
    assert!(r.is_ok(), "run_cycle panicked on out-of-range tail index");
}

/// One entry whose `next` points to itself: `for_each_entry` never reaches
/// the sentinel.
#[test]
fn run_cycle_cyclic_next_link() {
    let header = LruFileHeader {
        version: 1,
        hash: [0; 16],
        mru_head: 0,
        lru_tail: 0,
    };
    let entries = [LruFileEntry {
        prev: LRU_SENTINEL,
        next: 0,
        ekey: KEY,
        flags: 0,
    }];
    let dir = write_lru(&header, &entries);

    let r = with_watchdog(move || {
        let mut lru = LruManager::new(4, dir.path().to_path_buf());
        catch_unwind(AssertUnwindSafe(|| {
            runtime()
                .block_on(lru.run_cycle(0, 0))
                .map(|s| s.active_entries)
                .map_err(|e| e.to_string())
        }))
    });
    assert!(
        r.is_some(),
        "run_cycle hung (did not return within 10 s) on a cyclic next link"
    );
}

/// Two-entry cycle 0 -> 1 -> 0 with in-range indices everywhere.
#[test]
fn run_cycle_two_entry_cycle() {
    let header = LruFileHeader {
        version: 1,
        hash: [0; 16],
        mru_head: 1,
        lru_tail: 0,
    };
    let entries = [
        LruFileEntry {
            prev: 1,
            next: 1,
            ekey: KEY,
            flags: 0,
        },
        LruFileEntry {
            prev: 0,
            next: 0,
            ekey: [9; 9],
            flags: 0,
        },
    ];
    let dir = write_lru(&header, &entries);

    let r = with_watchdog(move || {
        let mut lru = LruManager::new(4, dir.path().to_path_buf());
        catch_unwind(AssertUnwindSafe(|| {
            runtime()
                .block_on(lru.run_cycle(0, 0))
                .map(|s| s.active_entries)
                .map_err(|e| e.to_string())
        }))
    });
    assert!(
        r.is_some(),
        "run_cycle hung (did not return within 10 s) on a two-entry cycle"
    );
}

/// An active entry that is not on the list (head/tail are sentinels) but has
/// an out-of-range `prev`: loading succeeds, `touch` of that key unlinks it
/// and indexes `entries[99]`.
#[test]
fn touch_after_load_with_out_of_range_prev() {
    let header = LruFileHeader {
        version: 1,
        hash: [0; 16],
        mru_head: LRU_SENTINEL,
        lru_tail: LRU_SENTINEL,
    };
    let entries = [LruFileEntry {
        prev: 99,
        next: LRU_SENTINEL,
        ekey: KEY,
        flags: 0,
    }];
    let dir = write_lru(&header, &entries);

    let r = with_watchdog(move || {
        let mut lru = LruManager::new(4, dir.path().to_path_buf());
        catch_unwind(AssertUnwindSafe(|| {
            let loaded = runtime()
                .block_on(lru.load_from_disk(1))
                .map_err(|e| e.to_string());
            if loaded.is_ok() {
                lru.touch(&KEY);
            }
            loaded
        }))
    })
    .expect("did not return within 10 s");
    assert!(r.is_ok(), "touch panicked after loading out-of-range prev");
}

/// A well-formed file (written by the manager itself) still loads.
#[test]
fn well_formed_file_still_loads() {
    let dir = tempfile::tempdir().expect("tempdir");
    let rt = runtime();
    let mut lru = LruManager::new(4, dir.path().to_path_buf());
    lru.touch(&[1; 9]);
    lru.touch(&[2; 9]);
    lru.touch(&[3; 9]);
    lru.touch(&[1; 9]);
    lru.remove(&[2; 9]);
    rt.block_on(lru.checkpoint_to_disk()).expect("checkpoint");

    let mut fresh = LruManager::new(4, dir.path().to_path_buf());
    rt.block_on(fresh.load_from_disk(1)).expect("load");
    assert_eq!(fresh.len(), 2);
    let mut keys = Vec::new();
    fresh.for_each_entry(|k| keys.push(*k));
    assert_eq!(keys, vec![[3; 9], [1; 9]]);
}
