//! Demonstration: the ESpec string parser recurses without a depth limit.
//!
//! `Parser::parse_espec` -> `parse_block_table` / `parse_encrypted` ->
//! `parse_espec` nests one level per `b:` / `e:{..}` prefix in the input. A
//! long enough chain of prefixes overflows the stack, which aborts the whole
//! process (SIGABRT) instead of returning `Err(ESpecError)`.
//!
//! A stack overflow cannot be caught inside the test process, so each test
//! re-executes this test binary as a child (selected by an env var) and the
//! parent only checks how the child ended.
//!
//! Run: cargo test --offline -p cascette-formats --test rec_1

#![allow(clippy::expect_used, clippy::unwrap_used, clippy::panic)]

use cascette_formats::espec::ESpec;
use std::process::Command;

/// When set, the test runs in child mode and its value selects the input.
const CHILD_ENV: &str = "REC_1_CHILD_INPUT";

/// Nesting levels in the hostile input (real specs nest 2-3 levels).
const LEVELS: usize = 200_000;

fn input_for(kind: &str) -> String {
    match kind {
        // b:b:b: ... b:n
        "block_shorthand" => "b:".repeat(LEVELS) + "n",
        // b:{*=b:{*= ... n ... }}
        "block_braces" => "b:{*=".repeat(LEVELS) + "n" + &"}".repeat(LEVELS),
        // e:{KEY,IV,e:{KEY,IV, ... n ... }}
        "encrypted" => "e:{0123456789ABCDEF,06FC152E,".repeat(LEVELS) + "n" + &"}".repeat(LEVELS),
        // Sanity: a legitimate 3-level spec must still parse in the child.
        "legit" => "b:{256K*=e:{0123456789ABCDEF,06FC152E,z}}".to_string(),
        other => panic!("unknown input kind {other}"),
    }
}

/// Child mode: call the parser and report how it returned.
fn child(kind: &str) {
    let input = input_for(kind);
    match ESpec::parse(&input) {
        Ok(spec) => {
            println!("CHILD {kind}: parser returned Ok");
            // Only the parser is under test here, not the recursive Drop.
            std::mem::forget(spec);
        }
        Err(e) => println!("CHILD {kind}: parser returned Err({e})"),
    }
}

/// Parent mode: re-run exactly this test in a child process and require a
/// normal exit (the parser returned, with either Ok or Err).
fn parent(test_name: &str, kind: &str) {
    let exe = std::env::current_exe().expect("current_exe");
    let out = Command::new(exe)
        .args([test_name, "--exact", "--nocapture", "--test-threads=1"])
        .env(CHILD_ENV, kind)
        .output()
        .expect("spawn child");
    let stdout = String::from_utf8_lossy(&out.stdout);
    let stderr = String::from_utf8_lossy(&out.stderr);
    println!("child status: {:?}", out.status);
    #[cfg(unix)]
    {
        use std::os::unix::process::ExitStatusExt;
        println!("child signal: {:?}", out.status.signal());
    }
    println!("child stdout:\n{stdout}");
    println!("child stderr:\n{stderr}");
    assert!(
        out.status.success(),
        "ESpec::parse did not return on `{kind}` input with {LEVELS} levels: child ended with {:?}",
        out.status
    );
    assert!(
        stdout.contains(&format!("CHILD {kind}: parser returned")),
        "child did not reach the end of the parser call"
    );
}

fn run(test_name: &str, kind: &str) {
    match std::env::var(CHILD_ENV) {
        Ok(k) => child(&k),
        Err(_) => parent(test_name, kind),
    }
}

#[test]
fn rec_1_block_shorthand() {
    run("rec_1_block_shorthand", "block_shorthand");
}

#[test]
fn rec_1_block_braces() {
    run("rec_1_block_braces", "block_braces");
}

#[test]
fn rec_1_encrypted() {
    run("rec_1_encrypted", "encrypted");
}

#[test]
fn rec_1_legit_spec_still_parses() {
    run("rec_1_legit_spec_still_parses", "legit");
    if std::env::var(CHILD_ENV).is_err() {
        assert!(ESpec::parse(&input_for("legit")).is_ok());
    }
}
