//! C18: compacting with any non-overlapping span set (zero-length spans,
//! unsorted input) leaves exactly the live bytes in offset order.
#![allow(clippy::expect_used, clippy::unwrap_used)]

use cascette_client_storage::storage::compaction::{
    CompactionFileMover, DataSpan, extract_compact_segment,
};
use std::fs::OpenOptions;

#[test]
fn zero_length_span_at_start_of_live_span_is_not_an_overlap() {
    let live = DataSpan { offset: 100, length: 50 };
    let empty = DataSpan { offset: 100, length: 0 };
    assert!(!live.overlaps(&empty) && !empty.overlaps(&live));

    let data: Vec<u8> = (0..300u32).map(|i| (i % 251) as u8).collect();

    for spans in [vec![empty, live], vec![live, empty]] {
        let dir = tempfile::tempdir().expect("tempdir");
        let path = dir.path().join("data.000");
        std::fs::write(&path, &data).expect("write");
        let mut file = OpenOptions::new().read(true).write(true).open(&path).expect("open");
        let mut mover = CompactionFileMover::new(0);
        let mut s = spans.clone();
        let res = extract_compact_segment(&mut file, &mut s, &mut mover);
        assert!(
            res.is_ok(),
            "C18: non-overlapping span set {spans:?} must be compacted regardless of input order, got {res:?}"
        );
        assert_eq!(res.unwrap(), 250, "C18: bytes saved");
        assert_eq!(std::fs::read(&path).expect("read"), &data[100..150]);
    }
}
