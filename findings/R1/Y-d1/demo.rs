//! C04: a successfully written object is readable byte-for-byte after reopen,
//! for any number of earlier writes (here: an archive that already holds
//! almost 1 GiB, the limit of the 30-bit offset field of an index entry).
#![allow(clippy::expect_used, clippy::unwrap_used)]

use cascette_client_storage::index::IndexManager;
use cascette_client_storage::storage::ArchiveManager;
use cascette_crypto::EncodingKey;

#[tokio::test]
async fn write_past_one_gib_is_readable_after_reopen() {
    let dir = tempfile::tempdir().expect("tempdir");
    let path = dir.path();

    // An existing installation whose data.000 is almost full (sparse file,
    // 16 bytes below the 1 GiB segment size).
    let f = std::fs::File::create(path.join("data.000")).expect("create");
    f.set_len((1u64 << 30) - 16).expect("set_len");
    drop(f);

    let mut archives = ArchiveManager::new(path);
    archives.open_all().await.expect("open_all");
    let mut index = IndexManager::new(path);
    index.load_all().await.expect("load_all");

    let first: Vec<u8> = (0..100u32).map(|i| (i * 7 + 1) as u8).collect();
    let second: Vec<u8> = (0..200u32).map(|i| (i * 13 + 5) as u8).collect();
    let mut keys = Vec::new();
    for payload in [&first, &second] {
        let (id, off, size, ekey) = archives.write_content(payload, false).expect("write");
        let ekey = EncodingKey::from_bytes(ekey);
        index.add_entry(&ekey, id, off, size).expect("add_entry");
        keys.push(ekey);
    }

    // Immediately readable.
    for (k, payload) in keys.iter().zip([&first, &second]) {
        let e = index.lookup(k).expect("lookup before reopen");
        let got = archives
            .read_content(e.archive_id(), e.archive_offset(), e.size)
            .expect("read before reopen");
        assert!(&got == payload, "C04: read before reopen returns the written bytes");
    }

    index.save_all().expect("save_all");
    drop(index);
    drop(archives);

    // Reopen.
    let mut archives = ArchiveManager::new(path);
    archives.open_all().await.expect("open_all 2");
    let mut index = IndexManager::new(path);
    index.load_all().await.expect("load_all 2");

    for (n, (k, payload)) in keys.iter().zip([&first, &second]).enumerate() {
        let e = index.lookup(k).expect("C04: key written before reopen must be found");
        let got = archives.read_content(e.archive_id(), e.archive_offset(), e.size);
        assert!(
            got.as_ref().ok() == Some(payload),
            "C04: object #{n} (archive {}, offset {:#x}, size {}) must read back byte-for-byte after reopen, got {:?}",
            e.archive_id(),
            e.archive_offset(),
            e.size,
            got.as_ref().map(|v| v.iter().take(8).copied().collect::<Vec<u8>>()),
        );
    }
}
