//! C05: counts agree with lookups - IndexManager::stats() (and with it
//! Installation::stats().index_entries) counts the keys that lookup finds.
#![allow(clippy::expect_used, clippy::unwrap_used)]

use cascette_client_storage::Installation;
use cascette_client_storage::index::IndexManager;
use cascette_crypto::EncodingKey;

fn key(n: u8) -> EncodingKey {
    let mut k = [0u8; 16];
    k[0] = n;
    k[7] = 0xA0;
    EncodingKey::from_bytes(k)
}

#[test]
fn stats_count_pending_entries_and_removals() {
    let dir = tempfile::tempdir().expect("tempdir");
    let mut m = IndexManager::new(dir.path());
    for n in 1..=5u8 {
        m.add_entry(&key(n), 1, u32::from(n) * 64, 64).expect("add");
    }
    let found = (1..=5u8).filter(|&n| m.lookup(&key(n)).is_some()).count();
    assert_eq!(found, 5);
    assert_eq!(m.entry_count(), 5);
    assert_eq!(
        m.stats().total_entries,
        found,
        "C05: stats().total_entries must equal the number of keys lookup finds (5 added, none flushed)"
    );

    m.flush_all_updates().expect("flush");
    assert_eq!(m.stats().total_entries, 5);
    assert!(m.remove_entry(&key(3)));
    assert_eq!(m.entry_count(), 4);
    assert_eq!(
        m.stats().total_entries,
        4,
        "C05: a removed key (pending tombstone) must not be counted"
    );
}

#[tokio::test]
async fn installation_stats_count_written_files() {
    let dir = tempfile::tempdir().expect("tempdir");
    let inst = Installation::open(dir.path().join("i")).expect("open");
    inst.initialize().await.expect("init");
    inst.write_file(b"one".to_vec(), false).await.expect("w1");
    inst.write_file(b"two".to_vec(), false).await.expect("w2");
    assert_eq!(inst.get_all_index_entries().await.len(), 2);
    assert_eq!(
        inst.stats().await.index_entries,
        2,
        "C05: Installation::stats().index_entries must agree with the enumeration"
    );
}
