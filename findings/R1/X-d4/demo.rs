//! C16: for any (old, new) pair - including empty new - a patch produced by any of the
//! builders (simple, chunked, suffix-array) applies to old and yields exactly new.
use cascette_formats::zbsdiff::{ZbsdiffBuilder, ZbsdiffPatcher, apply_patch_memory};
use std::io::Cursor;

#[test]
fn every_builder_handles_empty_new() {
    for old in [&b""[..], &b"a"[..], &b"Content to delete"[..]] {
        let new: &[u8] = b"";
        let b = ZbsdiffBuilder::new(old.to_vec(), new.to_vec());
        let patches = [
            ("simple", b.build_simple_patch()),
            ("suffix-array", b.build_optimized_patch()),
            ("chunked", b.build_chunked_patch()),
        ];
        for (name, patch) in patches {
            let patch = patch.unwrap_or_else(|e| {
                panic!(
                    "C16: the {name} builder must produce a patch for old = {:?}, new = \"\" \
                     (the other builders do), got Err({e})",
                    String::from_utf8_lossy(old)
                )
            });
            let mem = apply_patch_memory(old, &patch).expect("in-memory apply");
            let streamed = ZbsdiffPatcher::new(Cursor::new(old.to_vec()), 0)
                .apply_patch_from_data(&patch)
                .expect("streaming apply");
            assert_eq!(mem, new, "C16: {name} patch applied in memory must yield new");
            assert_eq!(streamed, new, "C16: {name} patch applied streaming must yield new");
        }
    }
}
