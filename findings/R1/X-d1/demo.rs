//! C01: the chunk table of a BLTE container is truthful - the decompressed size
//! recorded for every chunk equals the number of content bytes that chunk decodes to.
use cascette_crypto::{TactKey, TactKeyStore};
use cascette_formats::CascFormat;
use cascette_formats::blte::{BlteBuilder, BlteFile, CompressionMode, EncryptionSpec};

const KEY_NAME: u64 = 0x1122_3344_5566_7788;
const KEY: [u8; 16] = [7u8; 16];

fn check(mode: CompressionMode, payload: &[u8]) {
    let spec = EncryptionSpec::salsa20(KEY_NAME, [1, 2, 3, 4]);
    let blte = BlteBuilder::new()
        .with_compression(mode)
        .with_encryption(spec, KEY)
        .add_data(payload)
        .expect("add_data")
        .build()
        .expect("build");
    let bytes = blte.build().expect("serialize");
    let parsed = BlteFile::parse(&bytes).expect("parse");

    let mut keys = TactKeyStore::new();
    keys.add(TactKey::new(KEY_NAME, KEY));
    let decoded = parsed.decompress_with_keys(&keys).expect("decode");
    assert_eq!(decoded, payload, "content must round-trip");

    let infos = &parsed
        .header
        .extended
        .as_ref()
        .expect("encrypted content uses the chunk table")
        .chunk_infos;
    assert_eq!(infos.len(), 1);
    assert_eq!(
        infos[0].decompressed_size as usize,
        decoded.len(),
        "C01: chunk table must be truthful: recorded decompressed size of an encrypted \
         chunk (inner mode {mode:?}) must equal the {} content bytes it decodes to",
        decoded.len()
    );
}

#[test]
fn encrypted_chunk_table_records_plaintext_size_inner_none() {
    check(CompressionMode::None, &[0xAB; 64]);
}

#[test]
fn encrypted_chunk_table_records_plaintext_size_inner_zlib() {
    check(CompressionMode::ZLib, &[0u8; 10_000]);
}
