//! C14: no constructible policy and no server hint makes `RetryPolicy::execute` panic.
#![allow(clippy::unwrap_used, clippy::expect_used)]

use cascette_protocol::cache::ProtocolCache;
use cascette_protocol::{
    CacheConfig, CdnClient, CdnConfig, CdnEndpoint, ContentType, ProtocolError, RetryPolicy,
};
use std::sync::Arc;
use std::sync::atomic::{AtomicU32, Ordering};
use std::time::Duration;
use wiremock::matchers::method;
use wiremock::{Mock, MockServer, ResponseTemplate};

/// Runs `fut` in its own task for at most `limit`; returns the panic message if it panicked.
/// Still waiting after `limit` is fine here (a huge hint / backoff is honoured by waiting).
async fn panic_of<F>(limit: Duration, fut: F) -> Option<String>
where
    F: std::future::Future + Send + 'static,
    F::Output: Send + 'static,
{
    let handle = tokio::spawn(fut);
    match tokio::time::timeout(limit, handle).await {
        Ok(Err(join)) if join.is_panic() => {
            let p = join.into_panic();
            Some(
                p.downcast_ref::<String>()
                    .cloned()
                    .or_else(|| p.downcast_ref::<&str>().map(|s| (*s).to_string()))
                    .unwrap_or_else(|| "<non-string panic>".to_string()),
            )
        }
        _ => None,
    }
}

#[tokio::test]
async fn retry_after_hint_with_jitter_does_not_panic() {
    let policy = RetryPolicy {
        max_attempts: 2,
        initial_backoff: Duration::from_millis(1),
        max_backoff: Duration::from_millis(10),
        multiplier: 2.0,
        jitter: true,
    };
    let panic = panic_of(Duration::from_millis(500), async move {
        policy
            .execute(|| async {
                Err::<(), _>(ProtocolError::RateLimited {
                    retry_after: Some(Duration::from_secs(u64::MAX)),
                })
            })
            .await
    })
    .await;
    assert!(
        panic.is_none(),
        "C14: execute must wait the Retry-After hint (plus jitter), never panic; hint = u64::MAX s, jitter on; panicked with: {panic:?}"
    );
}

#[tokio::test]
async fn cdn_download_survives_a_hostile_retry_after_header() {
    let server = MockServer::start().await;
    Mock::given(method("GET"))
        .respond_with(
            ResponseTemplate::new(429).append_header("Retry-After", "18446744073709551615"),
        )
        .mount(&server)
        .await;
    let cache = Arc::new(ProtocolCache::new(&CacheConfig::default()).unwrap());
    let client = CdnClient::new(cache, CdnConfig::default()).unwrap();
    let endpoint = CdnEndpoint {
        host: server.uri().replace("http://", ""),
        path: "tpr/wow".to_string(),
        product_path: None,
        scheme: Some("http".to_string()),
        is_fallback: false,
        strict: false,
        max_hosts: None,
    };
    let panic = panic_of(Duration::from_millis(1500), async move {
        let key = [0xab_u8, 0xcd, 0xef, 0x12, 0x34, 0x56, 0x78, 0x90];
        client.download(&endpoint, ContentType::Data, &key).await.map(|v| v.len())
    })
    .await;
    assert!(
        panic.is_none(),
        "C14: a 429 with 'Retry-After: 18446744073709551615' must not panic the downloading task \
         (default policy, jitter on); panicked with: {panic:?}"
    );
}

#[tokio::test]
async fn unbounded_max_backoff_with_huge_multiplier_does_not_panic() {
    for multiplier in [1e300_f64, f64::INFINITY] {
        let policy = RetryPolicy {
            max_attempts: 3,
            initial_backoff: Duration::from_millis(1),
            max_backoff: Duration::MAX, // "no cap"
            multiplier,
            jitter: false,
        };
        let calls = Arc::new(AtomicU32::new(0));
        let c = calls.clone();
        let panic = panic_of(Duration::from_millis(500), async move {
            policy
                .execute(|| {
                    let c = c.clone();
                    async move {
                        // one retryable failure, then success
                        if c.fetch_add(1, Ordering::SeqCst) == 0 {
                            Err(ProtocolError::Timeout)
                        } else {
                            Ok(7_u32)
                        }
                    }
                })
                .await
        })
        .await;
        assert!(
            panic.is_none() && calls.load(Ordering::SeqCst) == 2,
            "C14: policy {{max_backoff: Duration::MAX, multiplier: {multiplier:e}}} with outcomes [retryable, Ok] must make \
             2 attempts and return Ok; attempts = {}, panicked with: {panic:?}",
            calls.load(Ordering::SeqCst)
        );
    }
}
