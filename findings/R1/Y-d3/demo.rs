//! C17: touching a key (capacity >= 1) leaves it present and most recent, and
//! the manager holds exactly the keys a textbook LRU holds - also for the
//! all-zero key, also across checkpoint + load.
#![allow(clippy::expect_used, clippy::unwrap_used)]

use cascette_client_storage::lru::LruManager;

fn order(lru: &LruManager) -> Vec<[u8; 9]> {
    let mut v = Vec::new();
    lru.for_each_entry(|k| v.push(*k));
    v
}

#[tokio::test]
async fn zero_key_is_an_ordinary_key() {
    let dir = tempfile::tempdir().expect("tempdir");
    let mut lru = LruManager::new(3, dir.path().to_path_buf());

    let a = [1u8; 9];
    let z = [0u8; 9];
    let b = [2u8; 9];
    assert!(lru.touch(&a));
    assert!(lru.touch(&z));
    assert!(lru.touch(&b));
    assert!(lru.contains(&z));
    assert_eq!(lru.len(), 3);

    lru.checkpoint_to_disk().await.expect("checkpoint");
    let generation = lru.generation();
    lru.load_from_disk(generation).await.expect("load");

    assert!(
        lru.contains(&z),
        "C17: the all-zero key was held before checkpoint and must be held after load"
    );
    assert_eq!(lru.len(), 3, "C17: reload must not lose entries");

    // A new key must evict exactly the LRU tail (a) and keep z, b.
    let c = [3u8; 9];
    assert!(lru.touch(&c));
    assert!(!lru.contains(&a));
    assert_eq!(order(&lru), vec![z, b, c], "C17: recency order after reload + touch");
}

#[test]
fn enumeration_includes_the_zero_key() {
    let dir = tempfile::tempdir().expect("tempdir");
    let mut lru = LruManager::new(3, dir.path().to_path_buf());
    let a = [1u8; 9];
    let z = [0u8; 9];
    let b = [2u8; 9];
    assert!(lru.touch(&a));
    assert!(lru.touch(&z));
    assert!(lru.touch(&b));
    assert_eq!(lru.len(), 3);
    // Enumeration agrees with membership (LRU tail -> MRU head).
    assert_eq!(
        order(&lru),
        vec![a, z, b],
        "C17: for_each_entry must yield every held key in recency order, including the all-zero key"
    );
}
