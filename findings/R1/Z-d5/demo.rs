//! C13: the parsed answer does not depend on how the transport split the bytes into packets.
#![allow(clippy::unwrap_used, clippy::expect_used)]

use cascette_protocol::RibbitClient;
use std::time::Duration;
use tokio::io::{AsyncReadExt, AsyncWriteExt};
use tokio::net::TcpListener;

/// Valid BPSV (the reader skips blank lines): header, seqn, a blank line, two rows.
const RESPONSE: &str = "Region!STRING:0|BuildId!DEC:4\n## seqn = 5\n\nus|1\neu|2\n";

/// Serves RESPONSE split into TCP segments at the given byte offsets, then closes.
async fn serve(splits: &'static [usize]) -> String {
    let listener = TcpListener::bind("127.0.0.1:0").await.unwrap();
    let addr = listener.local_addr().unwrap();
    tokio::spawn(async move {
        let (mut s, _) = listener.accept().await.unwrap();
        s.set_nodelay(true).unwrap();
        let mut buf = [0u8; 1024];
        let _ = s.read(&mut buf).await;
        let bytes = RESPONSE.as_bytes();
        let mut from = 0;
        for &to in splits.iter().chain(std::iter::once(&bytes.len())) {
            s.write_all(&bytes[from..to]).await.unwrap();
            s.flush().await.unwrap();
            tokio::time::sleep(Duration::from_millis(100)).await;
            from = to;
        }
        let _ = s.shutdown().await;
    });
    format!("tcp://{addr}")
}

async fn rows_with(splits: &'static [usize]) -> Result<Vec<String>, String> {
    let client = RibbitClient::new(serve(splits).await).unwrap();
    client
        .query("v2/products/wow/versions")
        .await
        .map(|d| d.rows().iter().map(|r| r.get_raw(0).unwrap().to_string()).collect())
        .map_err(|e| e.to_string())
}

#[tokio::test]
async fn answer_is_independent_of_segmentation() {
    let blank = RESPONSE.find("\n\n").unwrap() + 2; // segment boundary right after the blank line
    let one_segment = rows_with(&[]).await;
    let mid_row = rows_with(&[10, 47]).await;
    let after_blank_line: &'static [usize] = Box::leak(vec![blank].into_boxed_slice());
    let at_blank = rows_with(after_blank_line).await;
    assert_eq!(one_segment, Ok(vec!["us".to_string(), "eu".to_string()]));
    assert_eq!(mid_row, one_segment);
    assert_eq!(
        at_blank, one_segment,
        "C13: the same response bytes must parse to the same rows for every split into TCP segments; \
         with a segment boundary after byte {blank} the client stopped reading before the rows arrived"
    );
}
