//! C12: a multi-layer cache answers a get with the value of the LATEST put for
//! that key while any layer still holds it - never a replaced value.
#![allow(clippy::unwrap_used, clippy::expect_used, clippy::panic)]

use bytes::Bytes;
use cascette_cache::{
    AsyncCache, MultiLayerCacheImpl,
    config::{DiskCacheConfig, MemoryCacheConfig, MultiLayerCacheConfig},
    key::RibbitKey,
    traits::MultiLayerCache,
};

fn two_layers(dir: &std::path::Path) -> MultiLayerCacheImpl<RibbitKey> {
    let config = MultiLayerCacheConfig::new()
        .add_memory_layer(MemoryCacheConfig::new().with_max_entries(1)) // tiny L1
        .add_disk_layer(DiskCacheConfig::new(dir));
    MultiLayerCacheImpl::new(config).unwrap()
}

/// put() after an older copy sits in the slower layer; the tiny first layer then
/// evicts the key. The replaced value must not come back.
#[tokio::test]
async fn put_replaces_the_copy_in_the_slower_layer() {
    let dir = tempfile::tempdir().unwrap();
    let cache = two_layers(dir.path());
    let key = RibbitKey::new("summary", "us");
    let filler = RibbitKey::new("filler", "us");

    cache
        .put_to_layer(key.clone(), Bytes::from_static(b"old"), 1)
        .await
        .unwrap();
    cache
        .put(key.clone(), Bytes::from_static(b"new"))
        .await
        .unwrap();
    assert_eq!(
        cache.get(&key).await.unwrap(),
        Some(Bytes::from_static(b"new"))
    );

    // max_entries = 1: this put evicts `key` from the first layer
    cache
        .put(filler.clone(), Bytes::from_static(b"x"))
        .await
        .unwrap();

    let got = cache.get(&key).await.unwrap();
    assert!(
        got.is_none() || got == Some(Bytes::from_static(b"new")),
        "C12: get must return the latest put (\"new\") or nothing, never the replaced value; got {got:?}"
    );
}

/// put_to_layer() into the slower layer while the faster layer holds an older copy.
#[tokio::test]
async fn put_to_slower_layer_replaces_the_copy_in_the_faster_layer() {
    let dir = tempfile::tempdir().unwrap();
    let cache = two_layers(dir.path());
    let key = RibbitKey::new("summary", "us");

    cache
        .put(key.clone(), Bytes::from_static(b"old"))
        .await
        .unwrap();
    cache
        .put_to_layer(key.clone(), Bytes::from_static(b"new"), 1)
        .await
        .unwrap();

    let got = cache.get(&key).await.unwrap();
    assert_eq!(
        got,
        Some(Bytes::from_static(b"new")),
        "C12: get must return the value of the latest put for the key (put_to_layer(.., 1) wrote \"new\")"
    );
}
