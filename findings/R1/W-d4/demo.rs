//! C10 / C12: a removed value is never served again. DiskCache::get serves files
//! that are on disk but not (yet) in the in-memory index of this instance, so
//! remove() has to delete such a file as well.
#![allow(clippy::unwrap_used, clippy::expect_used, clippy::panic)]

use bytes::Bytes;
use cascette_cache::{
    AsyncCache, DiskCache, MultiLayerCacheImpl,
    config::{DiskCacheConfig, MemoryCacheConfig, MultiLayerCacheConfig},
    key::RibbitKey,
};

#[tokio::test]
async fn disk_remove_by_a_new_instance_removes_the_value() {
    for subdirs in [true, false] {
        let dir = tempfile::tempdir().unwrap();
        let config = DiskCacheConfig::new(dir.path()).with_subdirectories(subdirs, 2);
        let key = RibbitKey::new("summary", "us");
        {
            let first: DiskCache<RibbitKey> = DiskCache::new(config.clone()).unwrap();
            first
                .put(key.clone(), Bytes::from_static(b"secret"))
                .await
                .unwrap();
        }
        let second: DiskCache<RibbitKey> = DiskCache::new(config).unwrap();
        let removed = second.remove(&key).await.unwrap();
        let got = second.get(&key).await.unwrap();
        assert_eq!(
            got, None,
            "C10: after remove(key) (returned {removed}) get(key) must return nothing, not the removed value"
        );
        assert!(
            removed,
            "C10: remove of a key whose value was retrievable must report true"
        );
    }
}

#[tokio::test]
async fn multi_layer_remove_by_a_new_instance_removes_the_value() {
    let dir = tempfile::tempdir().unwrap();
    let config = MultiLayerCacheConfig::new()
        .add_memory_layer(MemoryCacheConfig::new().with_max_entries(4))
        .add_disk_layer(DiskCacheConfig::new(dir.path()));
    let key = RibbitKey::new("summary", "us");
    {
        use cascette_cache::traits::MultiLayerCache;
        let first: MultiLayerCacheImpl<RibbitKey> =
            MultiLayerCacheImpl::new(config.clone()).unwrap();
        first
            .put_to_layer(key.clone(), Bytes::from_static(b"secret"), 1)
            .await
            .unwrap();
    }
    let second: MultiLayerCacheImpl<RibbitKey> = MultiLayerCacheImpl::new(config).unwrap();
    second.remove(&key).await.unwrap();
    assert_eq!(
        second.get(&key).await.unwrap(),
        None,
        "C12: after remove no layer answers for the key"
    );
}
