//! C03: looking up an inserted key in the built-then-serialized-then-parsed archive index
//! returns exactly the value that was inserted (or the builder refuses the entry).
use cascette_formats::archive::{ArchiveIndex, ArchiveIndexBuilder};
use std::io::Cursor;

fn check(offset_bytes: u8, offset: u64) {
    let key = vec![0x5Au8; 16];
    let mut builder = ArchiveIndexBuilder::with_config(16, offset_bytes, 4);
    builder.add_entry(vec![0x11u8; 16], 100, 0);
    builder.add_entry(key.clone(), 4096, offset);
    builder.add_entry(vec![0xEEu8; 16], 200, 7);

    let mut out = Cursor::new(Vec::new());
    let Ok(_) = builder.build(&mut out) else {
        return; // refusing an offset that does not fit the configured width is fine
    };

    let parsed = ArchiveIndex::parse(Cursor::new(out.into_inner())).expect("own output parses");
    let found = parsed.find_entry(&key).expect("inserted key is found");
    assert_eq!(
        (found.size, found.offset),
        (4096, offset),
        "C03: build() returned Ok with offset_bytes = {offset_bytes}, so the parsed index must \
         resolve the key to the inserted (size, offset) = (4096, {offset:#x})"
    );
}

#[test]
fn offset_just_above_4_byte_range() {
    check(4, 0x1_0000_0005);
}

#[test]
fn offset_just_above_5_byte_range() {
    check(5, 0x100_0000_0005);
}

#[test]
fn offsets_at_the_top_of_the_range_still_round_trip() {
    check(4, 0xFFFF_FFFF);
    check(5, 0xFF_FFFF_FFFF);
}
