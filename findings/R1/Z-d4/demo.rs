//! C15: every transport serves the NEWEST build of the product, for any timestamps
//! the validator lets through - including ISO 8601 timestamps with different UTC offsets.
#![allow(clippy::unwrap_used, clippy::expect_used)]

use cascette_protocol::{RibbitClient, TactClient};
use cascette_ribbit::{AppState, BuildDatabase, ServerConfig};
use std::io::Write;
use std::sync::Arc;
use std::time::Duration;
use tempfile::NamedTempFile;

fn record(id: u64, build: &str, build_time: &str) -> String {
    format!(
        r#"{{"id":{id},"product":"wow","version":"1.0.0.{build}","build":"{build}",
        "build_config":"0123456789abcdef0123456789abcdef","cdn_config":"fedcba9876543210fedcba9876543210",
        "keyring":null,"product_config":null,"build_time":"{build_time}",
        "encoding_ekey":"aaaabbbbccccddddeeeeffffaaaaffff","root_ekey":"bbbbccccddddeeeeffffaaaabbbbcccc",
        "install_ekey":"ccccddddeeeeffffaaaabbbbccccdddd","download_ekey":"ddddeeeeffffaaaabbbbccccddddeeee"}}"#
    )
}

#[tokio::test]
async fn newest_build_is_chosen_by_instant_not_by_string() {
    let _ = rustls::crypto::ring::default_provider().install_default();

    // build 100 was made in Seoul at 08:00 local time  = 2024-05-31 23:00 UTC
    // build 200 was made 90 minutes LATER, recorded in UTC = 2024-06-01 00:30 UTC
    let mut db = NamedTempFile::new().unwrap();
    write!(
        db,
        "[{},{}]",
        record(1, "100", "2024-06-01T08:00:00+09:00"),
        record(2, "200", "2024-06-01T00:30:00+00:00")
    )
    .unwrap();

    let parsed = BuildDatabase::from_file(db.path()).expect("both records pass validation");
    let latest = parsed.latest_build("wow").unwrap().build.clone();

    // start the real servers
    let free_port = || {
        let l = std::net::TcpListener::bind("127.0.0.1:0").unwrap();
        l.local_addr().unwrap()
    };
    let (http_addr, tcp_addr) = (free_port(), free_port());
    let config = ServerConfig {
        http_bind: http_addr,
        tcp_bind: tcp_addr,
        builds: db.path().to_path_buf(),
        cdn_hosts: "cdn.test.com".to_string(),
        cdn_path: "tpr/wow".to_string(),
        tls_cert: None,
        tls_key: None,
    };
    let state = Arc::new(AppState::new(&config).unwrap());
    tokio::spawn(cascette_ribbit::http::start_server(http_addr, state.clone()));
    tokio::spawn(cascette_ribbit::tcp::start_server(tcp_addr, state.clone()));
    for _ in 0..100 {
        if tokio::net::TcpStream::connect(tcp_addr).await.is_ok()
            && tokio::net::TcpStream::connect(http_addr).await.is_ok()
        {
            break;
        }
        tokio::time::sleep(Duration::from_millis(20)).await;
    }

    let ribbit = RibbitClient::new(format!("tcp://{tcp_addr}")).unwrap();
    let tact = TactClient::new(format!("http://{http_addr}"), false).unwrap();
    let v1 = ribbit.query("v1/products/wow/versions").await.unwrap();
    let v2 = ribbit.query("v2/products/wow/versions").await.unwrap();
    let http = tact.query("v1/products/wow/versions").await.unwrap();
    // column 4 of the versions table is BuildId
    let served = (
        v1.rows()[0].get_raw(4).unwrap().to_string(),
        v2.rows()[0].get_raw(4).unwrap().to_string(),
        http.rows()[0].get_raw(4).unwrap().to_string(),
    );

    assert_eq!(
        (latest.as_str(), served.0.as_str(), served.1.as_str(), served.2.as_str()),
        ("200", "200", "200", "200"),
        "C15: (latest_build, TCP v1, TCP v2, HTTP) must all report BuildId 200 - build 200 \
         (2024-06-01T00:30:00+00:00) is 90 minutes newer than build 100 (2024-06-01T08:00:00+09:00 = 2024-05-31T23:00Z)"
    );
}
