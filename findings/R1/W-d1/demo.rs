//! C10: put_with_ttl must accept every TTL ("TTLs far above ... the elapsed time").
//! A TTL that does not fit the clock (Duration::MAX, u64::MAX seconds) means
//! "never expires"; it must not panic, and for the disk cache it must not poison
//! the index lock so that every later operation fails.
#![allow(clippy::unwrap_used, clippy::expect_used, clippy::panic)]

use bytes::Bytes;
use cascette_cache::{
    AsyncCache, DiskCache, MemoryCache,
    config::{DiskCacheConfig, MemoryCacheConfig},
    key::RibbitKey,
};
use std::{sync::Arc, time::Duration};

#[tokio::test]
async fn memory_put_with_huge_ttl_stores_the_value() {
    for ttl in [Duration::MAX, Duration::from_secs(u64::MAX)] {
        let cache: Arc<MemoryCache<RibbitKey>> =
            Arc::new(MemoryCache::new(MemoryCacheConfig::new().with_max_entries(10)).unwrap());
        let key = RibbitKey::new("summary", "us");
        let c = Arc::clone(&cache);
        let k = key.clone();
        let joined =
            tokio::spawn(async move { c.put_with_ttl(k, Bytes::from_static(b"v"), ttl).await })
                .await;
        assert!(
            matches!(joined, Ok(Ok(()))),
            "C10: MemoryCache::put_with_ttl(ttl = {ttl:?}) must succeed, got {joined:?}"
        );
        assert_eq!(
            cache.get(&key).await.unwrap(),
            Some(Bytes::from_static(b"v")),
            "C10: a value put with a TTL far above the elapsed time must be served"
        );
    }
}

#[tokio::test]
async fn disk_put_with_huge_ttl_stores_the_value_and_keeps_the_cache_usable() {
    let dir = tempfile::tempdir().unwrap();
    let cache: Arc<DiskCache<RibbitKey>> =
        Arc::new(DiskCache::new(DiskCacheConfig::new(dir.path())).unwrap());
    let key = RibbitKey::new("summary", "us");
    let c = Arc::clone(&cache);
    let k = key.clone();
    let joined = tokio::spawn(async move {
        c.put_with_ttl(k, Bytes::from_static(b"v"), Duration::MAX)
            .await
    })
    .await;
    let other = RibbitKey::new("other", "us");
    let later_put = cache.put(other.clone(), Bytes::from_static(b"w")).await;
    assert!(
        later_put.is_ok(),
        "C10: after put_with_ttl(Duration::MAX) an unrelated put must still work, got {later_put:?} \
         (first put: {joined:?})"
    );
    assert!(
        matches!(joined, Ok(Ok(()))),
        "C10: DiskCache::put_with_ttl(Duration::MAX) must succeed, got {joined:?}"
    );
    assert_eq!(
        cache.get(&key).await.unwrap(),
        Some(Bytes::from_static(b"v")),
        "C10: a value put with a TTL far above the elapsed time must be served"
    );
}
