//! C05: the residency database's counts and enumeration agree with lookups.
#![allow(clippy::expect_used, clippy::unwrap_used)]

use cascette_client_storage::AccessMode;
use cascette_client_storage::container::ResidencyContainer;

#[tokio::test]
async fn resident_count_agrees_with_is_resident_and_scan() {
    let dir = tempfile::tempdir().expect("tempdir");
    let mut c = ResidencyContainer::new(
        "wow".to_string(),
        AccessMode::ReadWrite,
        dir.path().to_path_buf(),
    );
    c.initialize().await.expect("init");

    let k1 = [0x11u8; 16];
    let k2 = [0x22u8; 16];
    c.mark_resident(&k1).expect("mark k1");
    c.mark_resident(&k2).expect("mark k2");
    c.mark_span_non_resident(&k2, 0, 100).expect("span k2");

    assert!(c.is_resident(&k1));
    assert!(!c.is_resident(&k2));
    let by_lookup = [k1, k2].iter().filter(|k| c.is_resident(k)).count();
    assert_eq!(c.scan_keys().len(), by_lookup);
    assert_eq!(
        c.resident_count(),
        by_lookup,
        "C05: resident_count() must equal the number of keys reported resident by is_resident()/scan_keys()"
    );
}
