//! C13: a TACT endpoint that closes the connection mid-response is a transient
//! failure; the query must move on to the next protocol (TACT HTTP, Ribbit TCP).
#![allow(clippy::unwrap_used, clippy::expect_used)]

use cascette_protocol::{CacheConfig, ClientConfig, RibbitTactClient};
use std::sync::Arc;
use std::sync::atomic::{AtomicUsize, Ordering};
use tokio::io::{AsyncReadExt, AsyncWriteExt};
use tokio::net::TcpListener;
use wiremock::matchers::{method, path};
use wiremock::{Mock, MockServer, ResponseTemplate};

const BPSV: &str = "Region!STRING:0|BuildConfig!HEX:16|BuildId!DEC:4\n## seqn = 7\nus|0123456789abcdef0123456789abcdef|42\neu|0123456789abcdef0123456789abcdef|42\n";

/// An HTTP endpoint whose connections die mid-response.
/// `partial = true`: status line, headers with Content-Length 1000, 10 body bytes, close.
/// `partial = false`: read the request, close without a single response byte.
async fn dying_http_endpoint(partial: bool) -> (String, Arc<AtomicUsize>) {
    let listener = TcpListener::bind("127.0.0.1:0").await.unwrap();
    let addr = listener.local_addr().unwrap();
    let hits = Arc::new(AtomicUsize::new(0));
    let hits2 = hits.clone();
    tokio::spawn(async move {
        loop {
            let Ok((mut s, _)) = listener.accept().await else {
                return;
            };
            hits2.fetch_add(1, Ordering::SeqCst);
            tokio::spawn(async move {
                let mut buf = [0u8; 4096];
                let _ = s.read(&mut buf).await;
                if partial {
                    let _ = s
                        .write_all(
                            b"HTTP/1.1 200 OK\r\nContent-Type: text/plain\r\nContent-Length: 1000\r\n\r\nRegion!STR",
                        )
                        .await;
                    let _ = s.flush().await;
                }
                drop(s);
            });
        }
    });
    (format!("http://{addr}"), hits)
}

async fn run(partial: bool) {
    let (dying_url, dying_hits) = dying_http_endpoint(partial).await;

    let good = MockServer::start().await;
    Mock::given(method("GET"))
        .and(path("/wow/versions"))
        .respond_with(ResponseTemplate::new(200).set_body_string(BPSV))
        .mount(&good)
        .await;

    let config = ClientConfig {
        tact_https_url: dying_url,
        tact_http_url: good.uri(),
        ribbit_url: "tcp://127.0.0.1:1".to_string(),
        cache_config: CacheConfig::default(),
        ..Default::default()
    };
    let client = RibbitTactClient::new(config).unwrap();
    let result = client.query("v1/products/wow/versions").await;

    assert!(dying_hits.load(Ordering::SeqCst) >= 1, "first endpoint was contacted");
    let good_requests = good.received_requests().await.unwrap().len();
    assert!(
        result.is_ok() && good_requests == 1,
        "C13: first endpoint closed the connection mid-response (partial body sent: {partial}) - a transient \
         failure - so the query must fail over to TACT HTTP, which serves a valid answer; \
         got {result:?}, requests seen by the healthy TACT HTTP endpoint: {good_requests}"
    );
    assert_eq!(result.unwrap().rows().len(), 2);
}

#[tokio::test]
async fn closed_after_partial_body_fails_over() {
    run(true).await;
}

#[tokio::test]
async fn closed_before_any_response_byte_fails_over() {
    run(false).await;
}
