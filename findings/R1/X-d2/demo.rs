//! C01: BLTE encode/decode is the identity on content for ALL payloads,
//! including the empty payload, with per-chunk encryption.
use cascette_crypto::{TactKey, TactKeyStore};
use cascette_formats::CascFormat;
use cascette_formats::blte::{BlteBuilder, BlteFile, EncryptionSpec};

const KEY_NAME: u64 = 0x0102_0304_0506_0708;
const KEY: [u8; 16] = [0x42u8; 16];

fn keys() -> TactKeyStore {
    let mut keys = TactKeyStore::new();
    keys.add(TactKey::new(KEY_NAME, KEY));
    keys
}

fn roundtrip(builder: BlteBuilder, expected: &[u8], what: &str) {
    let blte = builder.build().expect("build");
    let bytes = blte.build().expect("serialize");
    let parsed = BlteFile::parse(&bytes).expect("parse");
    let decoded = parsed.decompress_with_keys(&keys());
    assert_eq!(
        decoded.as_ref().map(Vec::as_slice).map_err(ToString::to_string),
        Ok(expected),
        "C01: {what}: the encoder returned Ok, so decoding with the matching key \
         must yield exactly the bytes that were added"
    );
}

#[test]
fn empty_payload_salsa20_with_encryption() {
    let spec = EncryptionSpec::salsa20(KEY_NAME, [9, 8, 7, 6]);
    let b = BlteBuilder::new()
        .with_encryption(spec, KEY)
        .add_data(b"")
        .expect("add_data(empty)");
    roundtrip(b, b"", "with_encryption + add_data(b\"\")");
}

#[test]
fn empty_payload_arc4_add_encrypted_data() {
    let spec = EncryptionSpec::arc4(KEY_NAME, [9, 8, 7, 6]);
    let b = BlteBuilder::new()
        .add_encrypted_data(b"", spec, KEY, 0)
        .expect("add_encrypted_data(empty)");
    roundtrip(b, b"", "add_encrypted_data(b\"\")");
}

#[test]
fn empty_chunk_between_two_encrypted_chunks() {
    let spec = EncryptionSpec::salsa20(KEY_NAME, [1, 1, 1, 1]);
    let b = BlteBuilder::new()
        .add_mixed_data(b"head", Some((spec, KEY)))
        .expect("head")
        .add_mixed_data(b"", Some((spec, KEY)))
        .expect("empty")
        .add_mixed_data(b"tail", Some((spec, KEY)))
        .expect("tail");
    roundtrip(b, b"headtail", "add_mixed_data(head), add_mixed_data(empty), add_mixed_data(tail)");
}
