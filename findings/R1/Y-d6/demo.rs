//! C05: after save_all + reload, lookup returns the location of the most
//! recent insertion - also when the bucket was loaded from an index file whose
//! name carries a version other than 1 (as every Agent-written file does).
#![allow(clippy::expect_used, clippy::unwrap_used)]

use cascette_client_storage::index::IndexManager;
use cascette_crypto::EncodingKey;

fn key(n: u8) -> EncodingKey {
    // All keys in bucket 0: bytes 0 and 1 equal, rest zero -> XOR = 0.
    let mut k = [0u8; 16];
    k[0] = n;
    k[1] = n;
    EncodingKey::from_bytes(k)
}

#[tokio::test]
async fn save_after_loading_a_versioned_index_is_visible_after_reload() {
    assert_eq!(IndexManager::bucket_for_key(&key(1)), 0);
    // Several version numbers: which of two files for one bucket is read last
    // depends on the directory order, so one number alone could pass by luck.
    for version in [0u32, 2, 3, 5, 8, 0x10, 0x1234, 0xFFFF_FFFF] {
        let dir = tempfile::tempdir().expect("tempdir");
        let path = dir.path();
        let existing = format!("00{version:08x}.idx");

        // Produce a valid bucket-0 index and give it the name an existing
        // installation would have: a version other than 1.
        {
            let mut m = IndexManager::new(path);
            m.add_entry(&key(1), 1, 100, 10).expect("add");
            m.flush_all_updates().expect("flush");
            std::fs::rename(path.join("0000000001.idx"), path.join(&existing)).expect("rename");
        }

        // Open the installation, add one entry, move another, save.
        {
            let mut m = IndexManager::new(path);
            m.load_all().await.expect("load");
            assert!(m.lookup(&key(1)).is_some());
            m.add_entry(&key(2), 2, 200, 20).expect("add 2");
            assert!(m.update_entry(&key(1), 7, 700, 10));
            m.save_all().expect("save_all");
        }

        // Reload.
        let mut m = IndexManager::new(path);
        m.load_all().await.expect("reload");
        let e2 = m.lookup(&key(2)).map(|e| (e.archive_id(), e.archive_offset()));
        let e1 = m.lookup(&key(1)).map(|e| (e.archive_id(), e.archive_offset()));
        let mut files: Vec<_> = std::fs::read_dir(path)
            .unwrap()
            .flatten()
            .map(|e| e.file_name())
            .collect();
        files.sort();
        assert!(
            e2 == Some((2, 200)) && e1 == Some((7, 700)),
            "C05: bucket loaded from {existing}: after save_all + reload the latest insert/update must be visible; key2 = {e2:?}, key1 = {e1:?}; files: {files:?}"
        );
    }
}
