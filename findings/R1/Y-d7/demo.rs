//! C05: a key whose first nine bytes are zero behaves like any other key over
//! add / flush / save / reload.
#![allow(clippy::expect_used, clippy::unwrap_used)]

use cascette_client_storage::index::IndexManager;
use cascette_crypto::EncodingKey;

#[tokio::test]
async fn zero_prefix_key_survives_flush_and_reload() {
    let dir = tempfile::tempdir().expect("tempdir");
    let path = dir.path();
    let mut k = [0u8; 16];
    k[15] = 1;
    let zero = EncodingKey::from_bytes(k);

    let mut m = IndexManager::new(path);
    m.add_entry(&zero, 3, 4096, 500).expect("add");
    assert!(m.has_entry(&zero));
    m.save_all().expect("save");

    let mut r = IndexManager::new(path);
    r.load_all().await.expect("reload 1");
    assert!(r.has_entry(&zero), "C05: found after save_all + reload (update section)");

    m.flush_all_updates().expect("flush");
    assert!(m.has_entry(&zero), "C05: found after flush in memory");
    assert_eq!(m.entry_count(), 1);

    let mut r = IndexManager::new(path);
    r.load_all().await.expect("reload 2");
    assert!(
        r.has_entry(&zero),
        "C05: a key that was added and never removed must be found after flush + reload (entry_count = {})",
        r.entry_count()
    );
}
