//! C05: update_entry / update_entry_status on an existing key take effect (and
//! say so) whatever the fill state of the bucket's update section, exactly as
//! add_entry and remove_entry do.
#![allow(clippy::expect_used, clippy::unwrap_used)]

use cascette_client_storage::index::{IndexManager, UpdateStatus};
use cascette_crypto::EncodingKey;

fn key(n: u16) -> EncodingKey {
    // bucket 0: byte pairs cancel in the XOR.
    let mut k = [0u8; 16];
    let [hi, lo] = n.to_be_bytes();
    k[0] = hi;
    k[1] = hi;
    k[2] = lo;
    k[3] = lo;
    k[4] = 0x55;
    k[5] = 0x55;
    EncodingKey::from_bytes(k)
}

#[test]
fn update_on_full_update_section() {
    let dir = tempfile::tempdir().expect("tempdir");
    let mut m = IndexManager::new(dir.path());
    for n in 0..1260u16 {
        assert_eq!(IndexManager::bucket_for_key(&key(n)), 0);
        m.add_entry(&key(n), 1, u32::from(n) * 16, 16).expect("add");
    }
    assert_eq!(m.entry_count(), 1260);

    let ok = m.update_entry(&key(7), 1023, (1 << 30) - 1, 99);
    let got = m.lookup(&key(7)).map(|e| (e.archive_id(), e.archive_offset(), e.size));
    assert!(
        ok && got == Some((1023, (1 << 30) - 1, 99)),
        "C05: update_entry on an existing key must take effect with 1260 pending updates: returned {ok}, lookup = {got:?}"
    );
    assert_eq!(m.entry_count(), 1260, "C05: an update neither adds nor loses keys");
}

#[test]
fn status_change_on_full_update_section() {
    let dir = tempfile::tempdir().expect("tempdir");
    let mut m = IndexManager::new(dir.path());
    for n in 0..1260u16 {
        m.add_entry(&key(n), 1, u32::from(n) * 16, 16).expect("add");
    }
    assert!(
        m.update_entry_status(&key(8), UpdateStatus::DataNonResident),
        "C05: update_entry_status on an existing key must take effect with 1260 pending updates"
    );
    // A status change to Delete is a removal and must be visible as one.
    assert!(m.update_entry_status(&key(9), UpdateStatus::Delete));
    assert!(!m.has_entry(&key(9)));
    assert_eq!(m.entry_count(), 1259);
}
