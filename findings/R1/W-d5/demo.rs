//! C10: after every operation on the in-memory cache the number of cached bytes
//! is within max_memory_bytes (value sizes from 0 to ABOVE the memory limit), and
//! a get returns the value of the most recent SUCCESSFUL put.
#![allow(clippy::unwrap_used, clippy::expect_used, clippy::panic)]

use bytes::Bytes;
use cascette_cache::{
    AsyncCache, EvictionPolicy, MemoryCache, config::MemoryCacheConfig, key::RibbitKey,
};

#[tokio::test]
async fn value_above_the_memory_limit_never_pushes_usage_over_the_limit() {
    for policy in [
        EvictionPolicy::Lru,
        EvictionPolicy::Lfu,
        EvictionPolicy::Fifo,
        EvictionPolicy::Random,
    ] {
        let config = MemoryCacheConfig::new()
            .with_max_entries(10)
            .with_max_memory(100)
            .with_eviction_policy(policy.clone());
        let cache: MemoryCache<RibbitKey> = MemoryCache::new(config).unwrap();
        let key = RibbitKey::new("big", "us");

        // an EMPTY cache and one value that can never fit
        let put = cache.put(key.clone(), Bytes::from(vec![7u8; 200])).await;
        let stats = cache.stats().await.unwrap();
        assert!(
            stats.memory_usage_bytes <= 100,
            "C10 ({policy:?}): max_memory_bytes = 100 but {} bytes are cached after one put of 200 bytes (put returned {put:?})",
            stats.memory_usage_bytes
        );
        // whatever put answered, get must agree with it
        let got = cache.get(&key).await.unwrap();
        assert_eq!(
            got.is_some(),
            put.is_ok(),
            "C10: get must serve exactly the successful puts (put returned {put:?})"
        );
    }
}
