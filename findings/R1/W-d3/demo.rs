//! C11: when several tasks use one MemoryCache at the same time, then once all
//! tasks have finished the reported entry count and byte usage equal the real
//! contents. Here: one thread calls clear() while another one puts fresh keys.
#![allow(clippy::unwrap_used, clippy::expect_used, clippy::panic)]

use bytes::Bytes;
use cascette_cache::{AsyncCache, MemoryCache, config::MemoryCacheConfig, key::RibbitKey};
use futures::executor::block_on;
use std::sync::{
    Barrier,
    atomic::{AtomicBool, Ordering},
};

const PREFILL: usize = 5_000;
const MAX_PUTS: usize = 20_000;
const VALUE_LEN: usize = 10;
const ROUNDS: usize = 200;

#[test]
fn clear_racing_with_put_keeps_the_books() {
    let prefill: Vec<RibbitKey> = (0..PREFILL)
        .map(|i| RibbitKey::new(format!("prefill{i}"), "us"))
        .collect();

    for round in 0..ROUNDS {
        let cache: MemoryCache<RibbitKey> =
            MemoryCache::new(MemoryCacheConfig::new().with_max_entries(10_000_000)).unwrap();
        for key in &prefill {
            block_on(cache.put(key.clone(), Bytes::from(vec![1u8; VALUE_LEN]))).unwrap();
        }

        let barrier = Barrier::new(2);
        let cleared = AtomicBool::new(false);
        let puts = std::thread::scope(|scope| {
            scope.spawn(|| {
                barrier.wait();
                block_on(cache.clear()).unwrap();
                cleared.store(true, Ordering::SeqCst);
            });
            // Puts fresh keys until clear() has returned; returns how many it put
            let putter = scope.spawn(|| {
                barrier.wait();
                let mut n = 0usize;
                while n < MAX_PUTS && !cleared.load(Ordering::SeqCst) {
                    let key = RibbitKey::new(format!("fresh{n}"), "us");
                    block_on(cache.put(key, Bytes::from(vec![2u8; VALUE_LEN]))).unwrap();
                    n += 1;
                }
                n
            });
            putter.join().unwrap()
        });

        // Both threads are done: count what is really retrievable
        let fresh = (0..puts).map(|i| RibbitKey::new(format!("fresh{i}"), "us"));
        let mut real_entries = 0usize;
        let mut real_bytes = 0usize;
        for key in prefill.iter().cloned().chain(fresh) {
            if let Some(value) = block_on(cache.get(&key)).unwrap() {
                real_entries += 1;
                real_bytes += value.len();
            }
        }
        let stats = block_on(cache.stats()).unwrap();
        let size = block_on(cache.size()).unwrap();
        assert!(
            size == real_entries
                && stats.entry_count == real_entries
                && stats.memory_usage_bytes == real_bytes,
            "C11: after clear() raced with {puts} put()s (round {round}) the books must equal the contents: \
             size()={size}, stats.entry_count={}, stats.memory_usage_bytes={} but {real_entries} entries / \
             {real_bytes} bytes are retrievable",
            stats.entry_count,
            stats.memory_usage_bytes
        );
    }
}
