//! C13: a Ribbit V1 response whose connection is closed mid-response is a failed
//! answer: it must not be returned as a well-formed answer and must not be cached.
#![allow(clippy::unwrap_used, clippy::expect_used)]

use cascette_protocol::{CacheConfig, ClientConfig, RibbitTactClient};
use sha2::{Digest, Sha256};
use std::sync::Arc;
use std::sync::atomic::{AtomicUsize, Ordering};
use tokio::io::{AsyncReadExt, AsyncWriteExt};
use tokio::net::TcpListener;

const REGIONS: [&str; 7] = ["us", "eu", "cn", "kr", "tw", "sg", "xx"];

/// Same framing as cascette-ribbit's V1 responses (multipart MIME + SHA-256 checksum epilogue).
fn full_v1_response() -> Vec<u8> {
    let mut bpsv = String::from("Region!STRING:0|BuildConfig!HEX:16|BuildId!DEC:4|VersionsName!STRING:0\n");
    for r in REGIONS {
        bpsv.push_str(&format!("{r}|0123456789abcdef0123456789abcdef|42597|1.14.2.42597\n"));
    }
    bpsv.push_str("## seqn = 12345");
    let mut msg = String::new();
    msg.push_str("MIME-Version: 1.0\r\n");
    msg.push_str("Content-Type: multipart/alternative; boundary=\"RibbitBoundary\"\r\n\r\n");
    msg.push_str("--RibbitBoundary\r\nContent-Type: text/plain\r\nContent-Disposition: version\r\n\r\n");
    msg.push_str(&bpsv);
    msg.push_str("\r\n--RibbitBoundary--\r\n");
    let checksum = format!("{:x}", Sha256::digest(msg.as_bytes()));
    msg.push_str(&format!("Checksum: {checksum}\r\n"));
    msg.into_bytes()
}

/// Connection #0 gets the response cut after the third row, then the socket is closed;
/// later connections get the complete response.
async fn ribbit_server() -> (String, Arc<AtomicUsize>) {
    let listener = TcpListener::bind("127.0.0.1:0").await.unwrap();
    let addr = listener.local_addr().unwrap();
    let conns = Arc::new(AtomicUsize::new(0));
    let c2 = conns.clone();
    tokio::spawn(async move {
        loop {
            let Ok((mut s, _)) = listener.accept().await else {
                return;
            };
            let n = c2.fetch_add(1, Ordering::SeqCst);
            let full = full_v1_response();
            let body = if n == 0 {
                let text = String::from_utf8(full.clone()).unwrap();
                let cut = text.find("kr|").unwrap(); // after the rows us, eu, cn
                full[..cut].to_vec()
            } else {
                full
            };
            let mut buf = [0u8; 1024];
            let _ = s.read(&mut buf).await;
            let _ = s.write_all(&body).await;
            let _ = s.shutdown().await;
        }
    });
    (format!("tcp://{addr}"), conns)
}

#[tokio::test]
async fn truncated_v1_response_is_not_an_answer_and_is_not_cached() {
    let (url, conns) = ribbit_server().await;
    let config = ClientConfig {
        tact_https_url: String::new(),
        tact_http_url: String::new(),
        ribbit_url: url,
        cache_config: CacheConfig::default(),
        ..Default::default()
    };
    let client = RibbitTactClient::new(config).unwrap();

    // sanity: the complete response is valid for this client
    assert_eq!(
        cascette_protocol::mime_parser::parse_v1_mime_to_bpsv(&full_v1_response())
            .unwrap()
            .rows()
            .len(),
        7
    );

    let first = client.query("v1/products/wow/versions").await;
    let first_rows = first.as_ref().map(|d| d.rows().len());
    assert!(
        first.is_err(),
        "C13: the connection was closed mid-response (after 3 of 7 rows, before the closing boundary and \
         the checksum line); the query must fail, not return a well-formed answer; got Ok with {first_rows:?} rows"
    );

    let second = client.query("v1/products/wow/versions").await.unwrap();
    assert_eq!(
        (second.rows().len(), conns.load(Ordering::SeqCst)),
        (7, 2),
        "C13: a failed answer is never cached: the second query must reach the server and see all 7 rows"
    );
}
