//! C04: once Installation::write_file has succeeded, the object is readable by
//! its encoding key after closing and reopening the installation.
#![allow(clippy::expect_used, clippy::unwrap_used)]

use cascette_client_storage::Installation;
use cascette_crypto::EncodingKey;

#[tokio::test]
async fn written_file_survives_reopen() {
    let dir = tempfile::tempdir().expect("tempdir");
    let root = dir.path().join("install");

    let payload = b"payload that must survive a reopen".to_vec();

    let ekey = {
        let inst = Installation::open(root.clone()).expect("open");
        inst.initialize().await.expect("initialize");
        inst.write_file(payload.clone(), false).await.expect("write_file");

        let entries = inst.get_all_index_entries().await;
        assert_eq!(entries.len(), 1);
        let mut k = [0u8; 16];
        k[..9].copy_from_slice(&entries[0].key);
        let ekey = EncodingKey::from_bytes(k);
        let got = inst.read_file_by_encoding_key(&ekey).await.expect("read before reopen");
        assert_eq!(got, payload);
        ekey
    };

    let inst = Installation::open(root).expect("reopen");
    inst.initialize().await.expect("initialize after reopen");
    let got = inst.read_file_by_encoding_key(&ekey).await;
    assert_eq!(
        got.as_ref().ok(),
        Some(&payload),
        "C04: an object whose write_file returned Ok must be readable after reopen, got {got:?}"
    );
}
