//! C11 demo: BuildRecord::validate accepts field values that the server then
//! pastes verbatim into typed BPSV columns:
//!   * keyring  -> `KeyRing!HEX:16`      : never validated at all
//!   * build    -> `BuildId!DEC:4`       : only checked non-empty
//!   * version  -> `VersionsName!STRING` : only checked non-empty ('|' / '\n' allowed)
//!   * cdn_path -> cdns `Path`/`ConfigPath` : never validated ('|' allowed)
//! A database the validator accepts therefore yields responses that this
//! project's own client (cascette-protocol RibbitTactClient, which parses with
//! cascette_formats::bpsv typed parsing) rejects or mis-splits.
#![allow(clippy::unwrap_used, clippy::expect_used)]

use std::io::Write;
use std::net::SocketAddr;
use std::sync::Arc;
use std::time::Duration;

use cascette_protocol::{CacheConfig, ClientConfig, RibbitTactClient};
use cascette_ribbit::{AppState, ServerConfig};

fn record(product: &str, patch: &str) -> String {
    // A fully valid record; `patch` overrides individual JSON members.
    let base = serde_json::json!({
        "id": 1, "product": product, "version": "1.14.2.42597", "build": "42597",
        "build_config": "0123456789abcdef0123456789abcdef",
        "cdn_config": "fedcba9876543210fedcba9876543210",
        "keyring": null, "product_config": null,
        "build_time": "2024-01-01T00:00:00+00:00",
        "encoding_ekey": "aaaabbbbccccddddeeeeffffaaaaffff",
        "root_ekey": "bbbbccccddddeeeeffffaaaabbbbcccc",
        "install_ekey": "ccccddddeeeeffffaaaabbbbccccdddd",
        "download_ekey": "ddddeeeeffffaaaabbbbccccddddeeee"
    });
    let mut v = base;
    let p: serde_json::Value = serde_json::from_str(patch).unwrap();
    for (k, val) in p.as_object().unwrap() {
        v[k] = val.clone();
    }
    v.to_string()
}

async fn start(state: Arc<AppState>) -> SocketAddr {
    // Same wiring as tests/contract_test.rs: real command handler behind a socket.
    let listener = tokio::net::TcpListener::bind("127.0.0.1:0").await.unwrap();
    let addr = listener.local_addr().unwrap();
    tokio::spawn(async move {
        while let Ok((mut socket, _)) = listener.accept().await {
            let state = state.clone();
            tokio::spawn(async move {
                use tokio::io::{AsyncBufReadExt, AsyncWriteExt, BufReader};
                let mut reader = BufReader::new(&mut socket);
                let mut command = String::new();
                if let Ok(Ok(_)) =
                    tokio::time::timeout(Duration::from_secs(10), reader.read_line(&mut command)).await
                    && let Ok(resp) = cascette_ribbit::tcp::handlers::handle_command(command.trim(), &state)
                {
                    let socket = reader.into_inner();
                    let _ = socket.write_all(resp.as_bytes()).await;
                    let _ = socket.shutdown().await;
                }
            });
        }
    });
    addr
}

#[tokio::test]
async fn c11_validated_database_yields_client_parsable_responses() {
    let db = format!(
        "[{},{},{},{},{},{}]",
        record("ok", "{}"),
        record("p_keyring", r#"{"keyring":"zz"}"#),
        record("p_build", r#"{"build":"abc"}"#),
        record("p_version", r#"{"version":"1|2"}"#),
        record(
            "p_version_nl",
            r#"{"version":"1.2.3|\nxx|11111111111111111111111111111111|22222222222222222222222222222222||99999|forged"}"#
        ),
        record("p_cdn", r#"{"cdn_path":"tpr/wow|evil"}"#),
    );
    let mut file = tempfile::NamedTempFile::new().unwrap();
    file.write_all(db.as_bytes()).unwrap();

    let config = ServerConfig {
        http_bind: "127.0.0.1:0".parse().unwrap(),
        tcp_bind: "127.0.0.1:0".parse().unwrap(),
        builds: file.path().to_path_buf(),
        cdn_hosts: "cdn.test.com".to_string(),
        cdn_path: "test/path".to_string(),
        tls_cert: None,
        tls_key: None,
    };
    // The validator accepts the whole database.
    let state = Arc::new(AppState::new(&config).expect("BuildDatabase::from_file/validate accepted the database"));
    eprintln!("validator accepted all {} records", state.database().total_builds());
    let addr = start(state).await;

    let cache_dir = tempfile::tempdir().unwrap();
    let client = RibbitTactClient::new(ClientConfig {
        tact_http_url: String::new(),
        tact_https_url: String::new(),
        ribbit_url: format!("tcp://{addr}"),
        cache_config: CacheConfig { cache_dir: Some(cache_dir.path().to_path_buf()), ..Default::default() },
        connect_timeout: Duration::from_secs(5),
        request_timeout: Duration::from_secs(10),
        ..Default::default()
    })
    .unwrap();

    let mut problems = Vec::new();
    for (what, endpoint, expect_rows) in [
        ("control", "v2/products/ok/versions", 7usize),
        ("keyring=\"zz\"", "v2/products/p_keyring/versions", 7),
        ("build=\"abc\"", "v2/products/p_build/versions", 7),
        ("version=\"1|2\"", "v2/products/p_version/versions", 7),
        ("version with '|\\n' + forged row", "v2/products/p_version_nl/versions", 7),
        ("control cdns", "v2/products/ok/cdns", 5),
        ("cdn_path=\"tpr/wow|evil\"", "v2/products/p_cdn/cdns", 5),
    ] {
        match client.query(endpoint).await {
            Ok(doc) if doc.rows().len() == expect_rows => {
                eprintln!("{what:<36} {endpoint:<36} -> OK, {} rows", doc.rows().len());
            }
            Ok(doc) => {
                let forged: Vec<_> = doc
                    .rows()
                    .iter()
                    .filter_map(|r| r.get_raw_by_name("VersionsName", doc.schema()))
                    .filter(|v| *v == "forged")
                    .collect();
                eprintln!(
                    "{what:<36} {endpoint:<36} -> MIS-SPLIT: {} rows instead of {expect_rows}, {} forged rows accepted",
                    doc.rows().len(),
                    forged.len()
                );
                problems.push(what);
            }
            Err(e) => {
                eprintln!("{what:<36} {endpoint:<36} -> client REJECTS: {e}");
                problems.push(what);
            }
        }
    }
    assert!(
        problems.is_empty(),
        "validator-accepted records produce responses the project's own client cannot use: {problems:?}"
    );
}
