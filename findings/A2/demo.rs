//! A2 demo: BlteBuilder::add_encrypted_data forwards a caller-chosen block_index unchecked.
//! If it differs from the chunk's actual position, the container still builds, parses and
//! "decodes" (Ok) - to bytes different from what was added - instead of any error.
#![allow(clippy::expect_used, clippy::unwrap_used, clippy::panic)]

use cascette_crypto::{TactKey, TactKeyStore};
use cascette_formats::CascFormat;
use cascette_formats::blte::{BlteBuilder, BlteFile, EncryptionSpec};

#[test]
fn a2_add_encrypted_data_with_wrong_block_index() {
    let key_name = 0xFEDC_BA09_8765_4321u64;
    let key = [0xDE; 16];
    let spec = EncryptionSpec::salsa20(key_name, [0xAA, 0xBB, 0xCC, 0xDD]);
    let data = b"Data encrypted with a block index that is not the chunk position".to_vec();

    // The chunk will sit at position 0 but is encrypted for block index 1.
    let built = BlteBuilder::new().add_encrypted_data(&data, spec, key, 1);
    let builder = match built {
        Err(e) => {
            println!("builder rejected the mismatching index (good): {e}");
            return;
        }
        Ok(b) => b,
    };
    let blte = builder.build().expect("build");
    let bytes = blte.build().expect("serialize");
    let parsed = BlteFile::parse(&bytes).expect("parse");

    let mut ks = TactKeyStore::new();
    ks.add(TactKey::new(key_name, key));

    match parsed.decompress_with_keys(&ks) {
        Err(e) => println!("decoder reported an error (acceptable): {e}"),
        Ok(got) => {
            println!("decoded Ok, {} bytes, equal to input: {}", got.len(), got == data);
            assert_eq!(
                got, data,
                "container built by add_encrypted_data(.., block_index=1) at position 0 decodes Ok to different bytes"
            );
        }
    }
}
