#![allow(clippy::expect_used, clippy::unwrap_used, clippy::panic)]
//! T12 site 4: `PatchArchiveBuilder::write_to` stores `blocks.len() as u16`
//! in `PatchArchiveHeader::block_count`.
//!
//! The number of blocks is decided by the builder (entries are grouped by
//! serialized size). With the smallest legal block size (2^12 = 4096 bytes)
//! a file entry with 49 patches takes 22 + 49 * 42 = 2080 bytes, so no two
//! of them share a block: N such entries give N blocks.
//!
//! Heavy test: about 136 MB of output and roughly 1 GB of peak memory.

use cascette_formats::CascFormat;
use cascette_formats::patch_archive::{
    FilePatch, PatchArchive, PatchArchiveBuilder, PatchFileEntry,
};

const PATCHES_PER_ENTRY: usize = 49;

fn entry(i: u32) -> PatchFileEntry {
    let mut target_ckey = [0u8; 16];
    target_ckey[..4].copy_from_slice(&i.to_be_bytes());
    target_ckey[15] = 0x01;
    PatchFileEntry {
        target_ckey,
        decoded_size: u64::from(i) + 1,
        patches: (0..PATCHES_PER_ENTRY)
            .map(|p| FilePatch {
                source_ekey: [0xA0; 16],
                source_decoded_size: 500,
                patch_ekey: [0xB0; 16],
                patch_size: 200,
                patch_index: p as u8,
            })
            .collect(),
    }
}

fn run(entry_count: u32) {
    let mut builder = PatchArchiveBuilder::new().block_size_bits(12);
    for i in 0..entry_count {
        builder.add_entry(entry(i));
    }

    // A build error is a pass.
    let Ok(bytes) = builder.build() else { return };

    let parsed = match PatchArchive::parse(&bytes) {
        Ok(p) => p,
        Err(e) => panic!(
            "build succeeded for {entry_count} one-entry blocks ({} bytes out) but the bytes do not parse: {e}",
            bytes.len()
        ),
    };

    assert_eq!(
        parsed.total_file_entries(),
        entry_count as usize,
        "builder was given {entry_count} file entries ({} bytes out), parser returned {} entries in {} blocks (header block_count = {})",
        bytes.len(),
        parsed.total_file_entries(),
        parsed.blocks.len(),
        parsed.header.block_count
    );
    for (i, got) in parsed.all_file_entries().enumerate() {
        assert_eq!(got, &entry(i as u32), "entry {i} differs");
    }
}

#[test]
fn archive_with_65535_blocks_round_trips() {
    // control: largest block count that fits the u16
    run(65_535);
}

#[test]
fn archive_with_65536_blocks_round_trips_or_is_rejected() {
    run(65_536);
}

#[test]
fn archive_with_65537_blocks_round_trips_or_is_rejected() {
    run(65_537);
}
