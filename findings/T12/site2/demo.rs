#![allow(clippy::expect_used, clippy::unwrap_used, clippy::panic)]
//! T12 site 2: `serialize_block_data` in patch_archive/builder.rs writes
//! `entry.patches.len() as u8` as the num_patches byte of a file entry.
//!
//! 256 patches give the byte 0x00, which is the end-of-block sentinel.

use cascette_formats::CascFormat;
use cascette_formats::patch_archive::{
    FilePatch, PatchArchive, PatchArchiveBuilder, PatchFileEntry,
};

fn entry(target: u8, patch_count: usize) -> PatchFileEntry {
    PatchFileEntry {
        target_ckey: [target; 16],
        decoded_size: 1000 + u64::from(target),
        patches: (0..patch_count)
            .map(|i| {
                let mut source_ekey = [0xA0; 16];
                source_ekey[..4].copy_from_slice(&(i as u32).to_be_bytes());
                FilePatch {
                    source_ekey,
                    source_decoded_size: 500,
                    patch_ekey: [0xB0; 16],
                    patch_size: 200,
                    patch_index: (i % 256) as u8,
                }
            })
            .collect(),
    }
}

fn run(patch_count: usize) {
    let given = vec![entry(0x11, patch_count), entry(0x22, 1)];

    let mut builder = PatchArchiveBuilder::new();
    for e in &given {
        builder.add_entry(e.clone());
    }

    // A build error is a pass.
    let Ok(bytes) = builder.build() else { return };

    let parsed = PatchArchive::parse(&bytes).expect("built patch archive must parse");
    let got: Vec<PatchFileEntry> = parsed.all_file_entries().cloned().collect();

    assert_eq!(
        got.len(),
        given.len(),
        "builder was given {} file entries (first one with {patch_count} patches), parser returned {}",
        given.len(),
        got.len()
    );
    for (g, w) in got.iter().zip(&given) {
        assert_eq!(g.target_ckey, w.target_ckey);
        assert_eq!(
            g.patches.len(),
            w.patches.len(),
            "patch count differs after round trip"
        );
    }
    assert_eq!(got, given);
}

#[test]
fn file_entry_with_255_patches_round_trips() {
    // control: largest count that fits the u8
    run(255);
}

#[test]
fn file_entry_with_256_patches_round_trips_or_is_rejected() {
    run(256);
}

#[test]
fn file_entry_with_257_patches_round_trips_or_is_rejected() {
    run(257);
}
