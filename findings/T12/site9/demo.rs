#![allow(clippy::expect_used, clippy::unwrap_used, clippy::panic)]
//! T12 site 9: `build_entry` in tvfs/path_table.rs writes a name of up to 255
//! bytes behind one length byte and splits longer names in 255-byte chunks.
//! A length byte of 255 is 0xFF, which the parser takes for the NodeValue
//! marker.

use cascette_formats::tvfs::{TvfsBuilder, TvfsFile};

fn run(name_len: usize) {
    let long_name = "n".repeat(name_len);
    let files = [
        ("data/aaa.txt".to_string(), [0x01u8; 9]),
        (format!("data/{long_name}"), [0x02u8; 9]),
        ("data/zzz.txt".to_string(), [0x03u8; 9]),
    ];

    let mut builder = TvfsBuilder::new();
    for (i, (path, ekey)) in files.iter().enumerate() {
        builder.add_file(
            path.clone(),
            *ekey,
            100 + i as u32,
            200 + i as u32,
            Some([0x10 + i as u8; 16]),
        );
    }

    // A build error is a pass.
    let Ok(bytes) = builder.build() else { return };

    let parsed = match TvfsFile::parse(&bytes) {
        Ok(t) => t,
        Err(e) => panic!(
            "TvfsBuilder::build succeeded with a {name_len}-byte file name ({} bytes out) but the bytes do not parse: {e}",
            bytes.len()
        ),
    };

    let mut got: Vec<&str> = parsed
        .path_table
        .files
        .iter()
        .map(|f| f.path.as_str())
        .collect();
    got.sort_unstable();
    let mut want: Vec<&str> = files.iter().map(|(p, _)| p.as_str()).collect();
    want.sort_unstable();
    assert_eq!(
        got.len(),
        want.len(),
        "builder was given {} paths, parser returned {}: {:?}",
        want.len(),
        got.len(),
        got.iter()
            .map(|p| if p.len() > 40 {
                format!("{}..[{} bytes]", &p[..40], p.len())
            } else {
                (*p).to_string()
            })
            .collect::<Vec<_>>()
    );
    assert_eq!(got, want, "paths differ after round trip");

    for (path, ekey) in &files {
        let entry = parsed
            .resolve_path(path)
            .unwrap_or_else(|| panic!("path of {} bytes does not resolve", path.len()));
        assert_eq!(entry.ekey, ekey.to_vec());
    }
}

#[test]
fn name_of_254_bytes_round_trips() {
    // control: longest name whose length byte is not 0xFF
    run(254);
}

#[test]
fn name_of_255_bytes_round_trips_or_is_rejected() {
    run(255);
}

#[test]
fn name_of_256_bytes_round_trips_or_is_rejected() {
    run(256);
}

#[test]
fn name_of_600_bytes_round_trips_or_is_rejected() {
    run(600);
}
