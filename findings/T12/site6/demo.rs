#![allow(clippy::expect_used, clippy::unwrap_used, clippy::panic)]
//! T12 site 6: `DownloadManifestBuilder::build` passes `self.tags.len() as u16`
//! to the three header constructors.
//!
//! Expectation from reading the code: the truncated count is caught by the
//! `manifest.validate()` call at the end of `build` (TagCountMismatch).

use cascette_crypto::EncodingKey;
use cascette_formats::download::{
    DownloadError, DownloadManifest, DownloadManifestBuilder, TagType,
};

fn builder_with_tags(version: u8, tag_count: usize) -> DownloadManifestBuilder {
    let mut b = DownloadManifestBuilder::new(version)
        .unwrap()
        .add_file(EncodingKey::from_bytes([0x42; 16]), 1024, 0)
        .unwrap();
    for i in 0..tag_count {
        b = b.add_tag(format!("tag{i}"), TagType::Platform);
    }
    b.associate_file_with_tag(0, "tag0").unwrap()
}

fn run(version: u8, tag_count: usize) -> Option<DownloadError> {
    let builder = builder_with_tags(version, tag_count);
    assert_eq!(builder.tag_count(), tag_count);

    // A build error is a pass.
    let manifest = match builder.build() {
        Ok(m) => m,
        Err(e) => return Some(e),
    };
    let bytes = match manifest.build() {
        Ok(b) => b,
        Err(e) => return Some(e),
    };

    let parsed = DownloadManifest::parse(&bytes).expect("built manifest must parse");
    assert_eq!(
        parsed.tags.len(),
        tag_count,
        "v{version}: builder was given {tag_count} tags, parser returned {}",
        parsed.tags.len()
    );
    for (i, tag) in parsed.tags.iter().enumerate() {
        assert_eq!(tag.name, format!("tag{i}"));
    }
    assert!(parsed.tags[0].has_file(0));
    None
}

#[test]
fn manifest_with_65535_tags_round_trips() {
    // control: largest tag count that fits the u16
    for version in 1..=3 {
        assert!(run(version, 65_535).is_none(), "v{version} must build");
    }
}

#[test]
fn manifest_with_65536_tags_round_trips_or_is_rejected() {
    for version in 1..=3 {
        let outcome = run(version, 65_536);
        println!("v{version}, 65536 tags: {outcome:?}");
    }
}

#[test]
fn manifest_with_65537_tags_round_trips_or_is_rejected() {
    for version in 1..=3 {
        let outcome = run(version, 65_537);
        println!("v{version}, 65537 tags: {outcome:?}");
    }
}

#[test]
fn from_manifest_with_65536_tags_is_rejected_too() {
    // from_* constructor: take a valid manifest, push its tag list over the width
    let base = builder_with_tags(3, 65_535).build().unwrap();
    let b =
        DownloadManifestBuilder::from_manifest(&base).add_tag("extra".to_string(), TagType::Locale);
    assert_eq!(b.tag_count(), 65_536);
    match b.build() {
        Err(e) => println!("from_manifest + 1 tag: {e:?}"),
        Ok(m) => {
            let bytes = m.build().expect("serialise");
            let parsed = DownloadManifest::parse(&bytes).expect("parse");
            assert_eq!(parsed.tags.len(), 65_536);
        }
    }
}
