#![allow(clippy::expect_used, clippy::unwrap_used, clippy::panic)]
//! T12 site 8: `PatchIndexHeader::build` computes the extra header length as
//! `1 + self.key_size as u16 + self.extra_data.len() as u16`.
//!
//! `PatchIndexHeader` is a public struct with public fields and
//! `pub fn build(&self) -> Vec<u8>` cannot report an error.
//! `PatchIndexBuilder` always passes an empty `extra_data`, so the only way to
//! an oversized value is a hand-made header.

use cascette_formats::patch_index::PatchIndexHeader;

fn header_with_extra(extra_len: usize) -> PatchIndexHeader {
    // 12 (preamble) + 2 (extra_header_len) + 1 (key_size byte) + extra + 4 (block_count)
    let header_size = (12 + 2 + 1 + extra_len + 4) as u32;
    PatchIndexHeader {
        header_size,
        version: 1,
        data_size: header_size,
        key_size: 0,
        key_data: [0; 16],
        extra_data: vec![0u8; extra_len],
        blocks: Vec::new(),
    }
}

fn run(extra_len: usize) {
    let given = header_with_extra(extra_len);

    // build cannot fail: it returns Vec<u8>
    let bytes = given.build();

    let parsed = match PatchIndexHeader::parse(&bytes) {
        Ok(h) => h,
        Err(e) => panic!(
            "PatchIndexHeader::build wrote {} bytes for {extra_len} bytes of extra data, but they do not parse: {e}",
            bytes.len()
        ),
    };
    assert_eq!(
        parsed.extra_data.len(),
        given.extra_data.len(),
        "extra_data length differs after round trip ({} bytes were written, extra_header_len field = {})",
        bytes.len(),
        u16::from_le_bytes([bytes[12], bytes[13]])
    );
    assert_eq!(parsed, given);
}

#[test]
fn extra_data_of_65534_bytes_round_trips() {
    // control: 1 + 0 + 65534 = 65535 is the largest extra_header_len
    run(65_534);
}

#[test]
fn extra_data_of_65535_bytes_round_trips() {
    // the cast fits, the sum 1 + 0 + 65535 does not
    run(65_535);
}

#[test]
fn extra_data_of_65536_bytes_round_trips() {
    run(65_536);
}

#[test]
fn extra_data_of_70000_bytes_round_trips() {
    run(70_000);
}
