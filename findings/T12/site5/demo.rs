#![allow(clippy::expect_used, clippy::unwrap_used, clippy::panic)]
//! T12 site 5: `VfsTable::build` writes `entry.spans.len() as u8` as the span
//! count byte of a VFS entry.
//!
//! `VfsTable::build(&[VfsEntry], &TvfsHeader) -> Vec<u8>` is a public function
//! that cannot report an error; `TvfsBuilder` itself only ever produces
//! single-span entries, so the only way to an oversized count is this function.

use cascette_formats::tvfs::{TVFS_FLAG_INCLUDE_CKEY, TvfsHeader, VfsEntry, VfsSpan, VfsTable};

fn entry(offset: u32, span_count: usize) -> VfsEntry {
    VfsEntry {
        offset,
        spans: (0..span_count)
            .map(|i| VfsSpan {
                file_offset: (i as u32) * 0x1000,
                span_length: 0x1000,
                cft_offset: (i as u32) % 200,
            })
            .collect(),
    }
}

fn run(span_count: usize) {
    let header = TvfsHeader::new(TVFS_FLAG_INCLUDE_CKEY);
    let span_size = 4 + 4 + header.cft_offs_size() as usize;

    let first = entry(0, span_count);
    let second = entry((1 + span_count * span_size) as u32, 1);
    let given = vec![first, second];

    // build cannot fail: it returns Vec<u8>
    let bytes = VfsTable::build(&given, &header);
    assert_eq!(
        bytes.len(),
        (1 + span_count * span_size) + (1 + span_size),
        "all spans are written"
    );

    let parsed = match VfsTable::parse(&bytes, &header) {
        Ok(t) => t,
        Err(e) => panic!(
            "VfsTable::build wrote {} bytes for an entry with {span_count} spans, but they do not parse: {e}",
            bytes.len()
        ),
    };

    assert_eq!(
        parsed.entries.len(),
        given.len(),
        "builder was given {} entries (first one with {span_count} spans), parser returned {} (first one with {} spans)",
        given.len(),
        parsed.entries.len(),
        parsed.entries.first().map_or(0, |e| e.spans.len())
    );
    for (g, w) in parsed.entries.iter().zip(&given) {
        assert_eq!(g.offset, w.offset, "entry offset differs");
        assert_eq!(g.spans.len(), w.spans.len(), "span count differs");
        for (gs, ws) in g.spans.iter().zip(&w.spans) {
            assert_eq!(
                (gs.file_offset, gs.span_length, gs.cft_offset),
                (ws.file_offset, ws.span_length, ws.cft_offset)
            );
        }
    }

    // The entry the path table would point to
    let at0 = VfsTable::read_entry_at(&bytes, 0, &header).expect("entry at offset 0");
    assert_eq!(at0.spans.len(), span_count);
}

#[test]
fn vfs_entry_with_224_spans_round_trips() {
    // control: largest span count the parser takes for a file entry
    run(224);
}

#[test]
fn vfs_entry_with_256_spans_round_trips() {
    run(256);
}

#[test]
fn vfs_entry_with_257_spans_round_trips() {
    run(257);
}
