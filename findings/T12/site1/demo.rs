#![allow(clippy::expect_used, clippy::unwrap_used, clippy::panic)]
//! T12 site 1: `EncodingBuilder::build_ckey_pages` stores
//! `entry_data.encoding_keys.len() as u8` in `CKeyPageEntry::key_count`.
//!
//! A content key with 256 encoding keys gives key_count byte 0x00, which the
//! parser takes for page padding.

use cascette_crypto::{ContentKey, EncodingKey};
use cascette_formats::encoding::{CKeyEntryData, EKeyEntryData, EncodingBuilder, EncodingFile};

fn ekey(i: u32) -> EncodingKey {
    let mut b = [0u8; 16];
    b[..4].copy_from_slice(&i.to_be_bytes());
    b[15] = 0x01; // never all-zero
    EncodingKey::from_bytes(b)
}

fn run(key_count: u32) {
    let content_key = ContentKey::from_bytes([0x11; 16]);
    let keys: Vec<EncodingKey> = (0..key_count).map(ekey).collect();

    // One entry needs 1 + 5 + 16 + 16 * 256 = 4118 bytes: use 8 KiB CKey pages
    // so that the entry fits in its page.
    let mut builder = EncodingBuilder::new().with_page_sizes(8, 4);
    builder.add_ckey_entry(CKeyEntryData {
        content_key,
        file_size: 1234,
        encoding_keys: keys.clone(),
    });
    for k in &keys {
        builder.add_ekey_entry(EKeyEntryData {
            encoding_key: *k,
            espec: "z".to_string(),
            file_size: 10,
        });
    }

    // Either step may refuse the value: that is a pass.
    let Ok(file) = builder.build() else { return };
    let Ok(bytes) = file.build() else { return };

    let parsed = EncodingFile::parse(&bytes).expect("built encoding file must parse");
    let entries: Vec<_> = parsed
        .ckey_pages
        .iter()
        .flat_map(|p| p.entries.iter())
        .collect();

    assert_eq!(
        entries.len(),
        1,
        "builder was given 1 CKey entry ({key_count} encoding keys), parser returned {}",
        entries.len()
    );
    assert_eq!(entries[0].content_key, content_key);
    assert_eq!(entries[0].file_size, 1234);
    assert_eq!(
        entries[0].encoding_keys.len(),
        keys.len(),
        "encoding key count differs after round trip"
    );
    assert_eq!(entries[0].encoding_keys, keys);
    assert_eq!(parsed.find_encoding(&content_key), Some(keys[0]));
}

#[test]
fn ckey_entry_with_255_encoding_keys_round_trips() {
    // control: largest count that fits the u8
    run(255);
}

#[test]
fn ckey_entry_with_256_encoding_keys_round_trips_or_is_rejected() {
    run(256);
}

#[test]
fn ckey_entry_with_257_encoding_keys_round_trips_or_is_rejected() {
    run(257);
}
