#![allow(clippy::expect_used, clippy::unwrap_used, clippy::panic)]
//! T12 site 3: `write_encoding_info` in patch_archive/builder.rs writes
//! `espec_bytes.len() as u8` as the ESpec length byte of the extended header.
//!
//! An ESpec string of 256 bytes or more is written in full behind a length
//! byte that holds only the low 8 bits of its length.

use cascette_formats::CascFormat;
use cascette_formats::patch_archive::{
    PatchArchive, PatchArchiveBuilder, PatchArchiveEncodingInfo, PatchFileEntry,
};

/// A block-table ESpec ("b:{1=z,2=z,...,*=n}") padded to exactly `len` bytes.
fn espec_of_len(len: usize) -> String {
    let mut s = String::from("b:{");
    let mut i = 1;
    while s.len() + 16 < len {
        s.push_str(&format!("{i}K=z,"));
        i += 1;
    }
    let tail = "*=n}";
    while s.len() + tail.len() < len {
        s.push('1'); // widen the last size literal
    }
    s.push_str(tail);
    assert_eq!(s.len(), len);
    s
}

fn run(espec_len: usize) {
    let info = PatchArchiveEncodingInfo {
        encoding_ckey: [0xAA; 16],
        encoding_ekey: [0xBB; 16],
        decoded_size: 50_000_000,
        encoded_size: 49_500_000,
        espec: espec_of_len(espec_len),
    };

    let mut builder = PatchArchiveBuilder::new().encoding_info(info.clone());
    builder.add_file_entry(
        [0x02; 16],
        1000,
        vec![([0x01; 16], 500, [0x03; 16], 200, 0)],
    );
    let given: Vec<PatchFileEntry> = builder.entries().to_vec();

    // A build error is a pass.
    let Ok(bytes) = builder.build() else { return };

    let parsed = match PatchArchive::parse(&bytes) {
        Ok(p) => p,
        Err(e) => panic!(
            "build succeeded with a {espec_len}-byte ESpec ({} bytes out) but the bytes do not parse: {e}",
            bytes.len()
        ),
    };

    let got_info = parsed
        .encoding_info
        .as_ref()
        .expect("extended header must be present");
    assert_eq!(
        got_info.espec.len(),
        info.espec.len(),
        "ESpec length differs after round trip"
    );
    assert_eq!(got_info, &info);
    let got: Vec<PatchFileEntry> = parsed.all_file_entries().cloned().collect();
    assert_eq!(got, given);
}

#[test]
fn espec_of_255_bytes_round_trips() {
    // control: longest string that fits the u8
    run(255);
}

#[test]
fn espec_of_256_bytes_round_trips_or_is_rejected() {
    run(256);
}

#[test]
fn espec_of_300_bytes_round_trips_or_is_rejected() {
    run(300);
}
