#![allow(clippy::expect_used, clippy::unwrap_used, clippy::panic)]
//! T12 site 7: `SizeManifestBuilder::build` sets
//! `self.tag_count = self.tags.len() as u16`.
//!
//! Expectation from reading the code: the truncated count is caught by the
//! `manifest.validate()` call at the end of `build` (TagCountMismatch).

use cascette_formats::install::TagType;
use cascette_formats::size::{SizeError, SizeManifest, SizeManifestBuilder};

fn run(version: u8, tag_count: usize) -> Option<SizeError> {
    let mut b = SizeManifestBuilder::new()
        .version(version)
        .add_entry(vec![0xAA; 9], 100);
    for i in 0..tag_count {
        b = b.add_tag(format!("tag{i}"), TagType::Platform);
    }
    b = b.tag_file(0, 0);

    // A build error is a pass.
    let manifest = match b.build() {
        Ok(m) => m,
        Err(e) => return Some(e),
    };
    let bytes = match manifest.build() {
        Ok(b) => b,
        Err(e) => return Some(e),
    };

    let parsed = SizeManifest::parse(&bytes).expect("built manifest must parse");
    assert_eq!(
        parsed.tags.len(),
        tag_count,
        "v{version}: builder was given {tag_count} tags, parser returned {}",
        parsed.tags.len()
    );
    for (i, tag) in parsed.tags.iter().enumerate() {
        assert_eq!(tag.name, format!("tag{i}"));
    }
    assert_eq!(parsed.entries.len(), 1);
    assert_eq!(parsed.entries[0].esize, 100);
    None
}

#[test]
fn manifest_with_65535_tags_round_trips() {
    // control: largest tag count that fits the u16
    for version in 1..=2 {
        assert!(run(version, 65_535).is_none(), "v{version} must build");
    }
}

#[test]
fn manifest_with_65536_tags_round_trips_or_is_rejected() {
    for version in 1..=2 {
        let outcome = run(version, 65_536);
        println!("v{version}, 65536 tags: {outcome:?}");
    }
}

#[test]
fn manifest_with_65537_tags_round_trips_or_is_rejected() {
    for version in 1..=2 {
        let outcome = run(version, 65_537);
        println!("v{version}, 65537 tags: {outcome:?}");
    }
}
