//! A1 demo: BlteBuilder::add_data under with_encryption() encrypts every call's
//! first chunk with block index 0, while BlteFile::decompress_with_keys decrypts
//! chunk N with block index N.  Two add_data calls therefore do not round-trip.
#![allow(clippy::expect_used, clippy::unwrap_used, clippy::panic)]

use cascette_crypto::{TactKey, TactKeyStore};
use cascette_formats::CascFormat;
use cascette_formats::blte::{BlteBuilder, BlteFile, EncryptionSpec};

const KEY_NAME: u64 = 0x1234_5678_90AB_CDEF;
const KEY: [u8; 16] = [0x42; 16];
const IV: [u8; 4] = [0x11, 0x22, 0x33, 0x44];

fn store() -> TactKeyStore {
    let mut ks = TactKeyStore::new();
    ks.add(TactKey::new(KEY_NAME, KEY));
    ks
}

/// Two single-chunk add_data calls under with_encryption().
#[test]
fn a1_two_add_data_calls_encrypted_round_trip() {
    let a = b"first part of the payload / ".to_vec();
    let b = b"second part of the payload".to_vec();

    let blte = BlteBuilder::new()
        .with_encryption(EncryptionSpec::salsa20(KEY_NAME, IV), KEY)
        .add_data(&a)
        .expect("add_data #1")
        .add_data(&b)
        .expect("add_data #2")
        .build()
        .expect("build");
    assert_eq!(blte.chunks.len(), 2);

    let bytes = blte.build().expect("serialize");
    let parsed = BlteFile::parse(&bytes).expect("parse");
    let out = parsed.decompress_with_keys(&store());

    let mut expected = a.clone();
    expected.extend_from_slice(&b);
    match out {
        Ok(got) => assert_eq!(
            got, expected,
            "decompress_with_keys returned Ok but not the concatenation of the added bytes"
        ),
        Err(e) => panic!("decompress_with_keys failed on builder output: {e}"),
    }
}

/// Multi-chunk add_data after a previous add_data: the per-call counter restarts at 0.
#[test]
fn a1_multi_chunk_add_data_after_first_call() {
    let a = vec![0xAAu8; 10];
    let b: Vec<u8> = (0..100u8).collect();

    let blte = BlteBuilder::new()
        .with_chunk_size_unchecked(32)
        .with_encryption(EncryptionSpec::salsa20(KEY_NAME, IV), KEY)
        .add_data(&a)
        .expect("add_data #1")
        .add_data(&b) // 4 chunks, encrypted with indices 0,1,2,3 instead of 1,2,3,4
        .expect("add_data #2")
        .build()
        .expect("build");
    assert_eq!(blte.chunks.len(), 5);

    let bytes = blte.build().expect("serialize");
    let parsed = BlteFile::parse(&bytes).expect("parse");
    let out = parsed.decompress_with_keys(&store());

    let mut expected = a.clone();
    expected.extend_from_slice(&b);
    match out {
        Ok(got) => assert_eq!(got, expected, "Ok but wrong bytes"),
        Err(e) => panic!("decompress_with_keys failed on builder output: {e}"),
    }
}
