//! C10 demo: tcp::start_server does `listener.accept().await.map_err(..)?`
//! inside its accept loop. A *transient* accept error - here EMFILE because the
//! process is momentarily out of file descriptors - makes start_server return,
//! dropping the listener: the TCP service is dead for every client even after
//! descriptors are available again.
//!
//! Linux only (uses getrlimit/setrlimit directly; no extra dependency).
#![allow(clippy::unwrap_used, clippy::expect_used, unsafe_code)]
#![cfg(target_os = "linux")]

use std::io::{Read, Write};
use std::sync::Arc;
use std::time::Duration;

use cascette_ribbit::{AppState, ServerConfig};

#[repr(C)]
struct RLimit {
    cur: u64,
    max: u64,
}
const RLIMIT_NOFILE: i32 = 7;
unsafe extern "C" {
    fn getrlimit(resource: i32, rlim: *mut RLimit) -> i32;
    fn setrlimit(resource: i32, rlim: *const RLimit) -> i32;
}

fn set_nofile_soft(limit: u64) -> u64 {
    let mut r = RLimit { cur: 0, max: 0 };
    assert_eq!(unsafe { getrlimit(RLIMIT_NOFILE, &raw mut r) }, 0);
    let old = r.cur;
    r.cur = limit.min(r.max);
    assert_eq!(unsafe { setrlimit(RLIMIT_NOFILE, &raw const r) }, 0);
    old
}

fn test_state() -> (tempfile::NamedTempFile, Arc<AppState>) {
    let mut file = tempfile::NamedTempFile::new().unwrap();
    file.write_all(
        br#"[{"id":1,"product":"wow","version":"1.14.2.42597","build":"42597",
        "build_config":"0123456789abcdef0123456789abcdef","cdn_config":"fedcba9876543210fedcba9876543210",
        "keyring":null,"product_config":null,"build_time":"2024-01-01T00:00:00+00:00",
        "encoding_ekey":"aaaabbbbccccddddeeeeffffaaaaffff","root_ekey":"bbbbccccddddeeeeffffaaaabbbbcccc",
        "install_ekey":"ccccddddeeeeffffaaaabbbbccccdddd","download_ekey":"ddddeeeeffffaaaabbbbccccddddeeee"}]"#,
    )
    .unwrap();
    let config = ServerConfig {
        http_bind: "127.0.0.1:0".parse().unwrap(),
        tcp_bind: "127.0.0.1:0".parse().unwrap(),
        builds: file.path().to_path_buf(),
        cdn_hosts: "cdn.test.com".to_string(),
        cdn_path: "test/path".to_string(),
        tls_cert: None,
        tls_key: None,
    };
    let state = Arc::new(AppState::new(&config).unwrap());
    (file, state)
}

/// One blocking request/response against the server.
fn request(addr: std::net::SocketAddr) -> std::io::Result<String> {
    let mut s = std::net::TcpStream::connect(addr)?;
    s.set_read_timeout(Some(Duration::from_secs(3)))?;
    s.write_all(b"v2/products/wow/versions\n")?;
    let mut out = String::new();
    s.read_to_string(&mut out)?;
    Ok(out)
}

#[tokio::test(flavor = "multi_thread", worker_threads = 2)]
async fn c10_server_survives_transient_accept_error() {
    let (_db, state) = test_state();

    let probe = std::net::TcpListener::bind("127.0.0.1:0").unwrap();
    let addr = probe.local_addr().unwrap();
    drop(probe);
    let server = tokio::spawn(cascette_ribbit::tcp::start_server(addr, state));

    // Wait until it serves.
    let mut up = false;
    for _ in 0..100 {
        if tokio::task::spawn_blocking(move || request(addr)).await.unwrap().is_ok_and(|r| r.contains("Region!STRING:0")) {
            up = true;
            break;
        }
        tokio::time::sleep(Duration::from_millis(20)).await;
    }
    assert!(up, "server answers before the fd shortage");

    // --- Transient fd shortage -------------------------------------------
    let old_limit = set_nofile_soft(128);
    let mut spare = Vec::new();
    loop {
        match std::fs::File::open("/dev/null") {
            Ok(f) => spare.push(f),
            Err(e) => {
                assert_eq!(e.raw_os_error(), Some(24), "EMFILE expected, got {e}");
                break;
            }
        }
    }
    // Exactly one descriptor free: the client takes it, so the server-side
    // accept() of that (kernel-completed) connection fails with EMFILE.
    spare.pop();
    let victim = std::net::TcpStream::connect(addr).expect("client connect uses the last fd");
    tokio::time::sleep(Duration::from_millis(500)).await;

    // --- Shortage is over -------------------------------------------------
    drop(victim);
    drop(spare);
    set_nofile_soft(old_limit);
    tokio::time::sleep(Duration::from_millis(200)).await;

    let finished = server.is_finished();
    let after = tokio::task::spawn_blocking(move || request(addr)).await.unwrap();
    let server_result = if finished { Some(server.await.unwrap()) } else { server.abort(); None };
    eprintln!("start_server task finished: {finished}; returned: {server_result:?}");
    eprintln!(
        "request after descriptors were freed again: {:?}",
        after.as_ref().map(|r| r.lines().next().unwrap_or("").to_string())
    );

    assert!(
        !finished && after.is_ok(),
        "a transient accept() error (EMFILE) terminated the TCP server for all clients"
    );
}
