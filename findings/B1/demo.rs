//! B1: MultiLayerCacheImpl::get self-deadlock (promotion_tracker write guard held
//! while should_promote() takes the read lock of the same std::sync::RwLock).
//!
//! Sequence: put_to_layer(k, v, 1); get(k) [starts tracking]; get(k) [hangs].
#![allow(clippy::expect_used, clippy::unwrap_used, clippy::panic)]

use bytes::Bytes;
use cascette_cache::{
    config::{DiskCacheConfig, MemoryCacheConfig, MultiLayerCacheConfig},
    key::RibbitKey,
    multi_layer::MultiLayerCacheImpl,
    traits::{AsyncCache, MultiLayerCache},
};
use std::{sync::mpsc, time::Duration};

#[test]
fn b1_second_get_of_l2_entry_never_returns() {
    let (tx, rx) = mpsc::channel::<&'static str>();

    // Run on a detached OS thread: the deadlock blocks the thread itself
    // (std RwLock), so tokio::time::timeout on the same runtime could not fire.
    std::thread::spawn(move || {
        let rt = tokio::runtime::Builder::new_current_thread()
            .enable_all()
            .build()
            .unwrap();
        rt.block_on(async move {
            let dir = tempfile::TempDir::new().unwrap();
            let cfg = MultiLayerCacheConfig::new()
                .add_memory_layer(MemoryCacheConfig::new().with_max_entries(100))
                .add_disk_layer(DiskCacheConfig::new(dir.path()).with_max_files(100));
            let cache: MultiLayerCacheImpl<RibbitKey> = MultiLayerCacheImpl::new(cfg).unwrap();

            let k = RibbitKey::new("summary", "us");
            let v = Bytes::from_static(b"payload");

            cache.put_to_layer(k.clone(), v.clone(), 1).await.unwrap();
            tx.send("put_to_layer done").unwrap();

            assert_eq!(cache.get(&k).await.unwrap(), Some(v.clone()));
            tx.send("get #1 done").unwrap();

            assert_eq!(cache.get(&k).await.unwrap(), Some(v.clone()));
            tx.send("get #2 done").unwrap();
        });
    });

    let t = Duration::from_secs(5);
    assert_eq!(rx.recv_timeout(t).expect("put_to_layer"), "put_to_layer done");
    assert_eq!(rx.recv_timeout(t).expect("get #1"), "get #1 done");
    match rx.recv_timeout(t) {
        Ok(m) => assert_eq!(m, "get #2 done"),
        Err(e) => panic!("DEADLOCK: second get() of an L2-resident key did not return within {t:?} ({e})"),
    }
}
