//! C2 demo: Installation::read_file_by_encoding_key (and ..._by_content_key)
//! BLTE-decode twice. ArchiveManager::read_content already strips the local
//! header and BLTE-decodes; Installation::decode_blte then sniffs the *file
//! content* for "BLTE" (at offset 0 or 0x1E) and decodes it again, so stored
//! content that itself is/looks like a BLTE container comes back altered
//! (or the read fails).
#![allow(clippy::expect_used, clippy::unwrap_used)]

use cascette_client_storage::Installation;
use cascette_crypto::EncodingKey;
use cascette_formats::CascFormat;
use cascette_formats::blte::{BlteFile, CompressionMode};

fn blte_wrap(payload: &[u8]) -> Vec<u8> {
    BlteFile::single_chunk(payload.to_vec(), CompressionMode::None)
        .expect("blte")
        .build()
        .expect("build")
}

/// Write `content` into a fresh installation and read it back by encoding key.
async fn round_trip(content: &[u8]) -> Result<Vec<u8>, String> {
    let dir = tempfile::tempdir().expect("tempdir");
    let install = Installation::open(dir.path().to_path_buf()).expect("open");
    install.initialize().await.expect("initialize");

    install
        .write_file(content.to_vec(), false)
        .await
        .expect("write_file");

    // Encoding key under which write_file indexed the data: MD5(BLTE(content)).
    let ekey = EncodingKey::from_data(&blte_wrap(content));
    assert!(install.has_encoding_key(&ekey).await, "entry indexed");

    install
        .read_file_by_encoding_key(&ekey)
        .await
        .map_err(|e| e.to_string())
}

#[tokio::test]
async fn c2_plain_content_round_trips() {
    // Control: ordinary content is fine.
    let content = b"plain file content, nothing special".to_vec();
    assert_eq!(round_trip(&content).await.expect("read"), content);
}

#[tokio::test]
async fn c2_content_that_is_a_blte_container_round_trips() {
    // The stored *file* is itself a BLTE container (e.g. a nested/cached blob).
    let inner = b"inner payload: the quick brown fox jumps over the lazy dog 0123456789".to_vec();
    let content = blte_wrap(&inner);
    assert_eq!(&content[..4], b"BLTE");

    let got = round_trip(&content).await;
    eprintln!(
        "stored {} bytes starting with BLTE; read back: {:?}",
        content.len(),
        got.as_ref().map(|v| String::from_utf8_lossy(v).into_owned())
    );
    assert_eq!(
        got.as_deref(),
        Ok(content.as_slice()),
        "content must come back byte-identical"
    );
}

#[tokio::test]
async fn c2_content_with_blte_magic_at_0x1e_round_trips() {
    // 30 arbitrary bytes followed by the ASCII text "BLTE..." (not a container).
    let mut content = vec![b'x'; 0x1E];
    content.extend_from_slice(b"BLTE is the name of a Blizzard container format");

    let got = round_trip(&content).await;
    eprintln!("magic at 0x1E; read back: {got:?}");
    assert_eq!(
        got.as_deref(),
        Ok(content.as_slice()),
        "content must come back byte-identical"
    );
}
