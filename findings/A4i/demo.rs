//! A4i demo: encoding/page.rs:39 EncodingPage::read_options vec![0u8; page_size] - page_size is a caller-supplied usize binrw arg.
#![allow(clippy::expect_used, clippy::unwrap_used, clippy::panic, unsafe_code, dead_code)]

/// Counting allocator: records the largest single allocation request and REFUSES (returns null)
/// any single request above 1 GiB.  A refused request makes the Rust runtime print
/// "memory allocation of N bytes failed" and abort the test process (SIGABRT) - that abort IS
/// the demonstration for the multi-GB cases.  Requests below the limit are served normally and
/// the recorded maximum is compared against the input length afterwards.
mod guard {
    use std::alloc::{GlobalAlloc, Layout, System};
    use std::sync::atomic::{AtomicUsize, Ordering};

    pub const LIMIT: usize = 1 << 30; // 1 GiB
    pub static MAX_REQ: AtomicUsize = AtomicUsize::new(0);

    pub struct Guard;

    fn note(size: usize) -> bool {
        MAX_REQ.fetch_max(size, Ordering::SeqCst);
        size <= LIMIT
    }

    unsafe impl GlobalAlloc for Guard {
        unsafe fn alloc(&self, l: Layout) -> *mut u8 {
            if note(l.size()) { unsafe { System.alloc(l) } } else { std::ptr::null_mut() }
        }
        unsafe fn alloc_zeroed(&self, l: Layout) -> *mut u8 {
            if note(l.size()) { unsafe { System.alloc_zeroed(l) } } else { std::ptr::null_mut() }
        }
        unsafe fn realloc(&self, p: *mut u8, l: Layout, new_size: usize) -> *mut u8 {
            if note(new_size) { unsafe { System.realloc(p, l, new_size) } } else { std::ptr::null_mut() }
        }
        unsafe fn dealloc(&self, p: *mut u8, l: Layout) {
            unsafe { System.dealloc(p, l) }
        }
    }

    pub fn reset() {
        MAX_REQ.store(0, Ordering::SeqCst);
    }
    pub fn max() -> usize {
        MAX_REQ.load(Ordering::SeqCst)
    }
    /// Generous proportionality bound: 1 MiB + 64 x input length.
    pub fn bound(input_len: usize) -> usize {
        (1 << 20) + 64 * input_len
    }
    /// Run `f`, then report and assert the largest single request made while it ran.
    pub fn check<T>(what: &str, input_len: usize, f: impl FnOnce() -> T) -> T {
        eprintln!("[{what}] input_len={input_len} bytes; calling parser (requests > 1 GiB are refused -> abort)");
        reset();
        let r = f();
        let m = max();
        eprintln!("[{what}] input_len={input_len} bytes, largest single allocation request = {m} bytes");
        assert!(
            m <= bound(input_len),
            "[{what}] largest single allocation request {m} bytes is out of proportion to the {input_len}-byte input (bound {})",
            bound(input_len)
        );
        r
    }
}

#[global_allocator]
static GLOBAL: guard::Guard = guard::Guard;

use binrw::BinRead;
use cascette_formats::encoding::{EncodingHeader, EncodingPage};
use std::io::Cursor;

/// Entry type with Args = () as EncodingPage<T> requires.
#[derive(Debug, BinRead)]
struct DummyEntry {
    _b: u8,
}

/// EncodingPage<T> has NO caller inside the workspace (EncodingFile::parse has its own page loop, see A4a).
/// The only header-derived value a caller could pass is EncodingHeader::ckey_page_size()/ekey_page_size()
/// = u16 KiB field * 1024 <= 65535 * 1024 = 67_107_840 bytes (just under 64 MiB).
#[test]
fn a4i_1_with_largest_header_derived_page_size() {
    let mut h = EncodingHeader::new();
    h.ckey_page_size_kb = 0xFFFF;
    let page_size = h.ckey_page_size();
    assert_eq!(page_size, 67_107_840);
    let data = [0u8; 32]; // PageInfo only, no page body
    let r = guard::check("A4i EncodingPage::read_options, page_size = 0xFFFF KiB", data.len(), || {
        EncodingPage::<DummyEntry>::read_options(&mut Cursor::new(&data[..]), binrw::Endian::Big, (page_size,)).map(|_| ()).map_err(|e| e.to_string())
    });
    eprintln!("result: {r:?}");
}

/// The type itself does not bound its argument: any usize is accepted.
#[test]
fn a4i_2_arg_itself_is_unbounded() {
    let data = [0u8; 32];
    let r = guard::check("A4i EncodingPage::read_options, page_size = 8 GiB (caller bug)", data.len(), || {
        EncodingPage::<DummyEntry>::read_options(&mut Cursor::new(&data[..]), binrw::Endian::Big, (8usize << 30,)).map(|_| ()).map_err(|e| e.to_string())
    });
    eprintln!("result: {r:?}");
}
