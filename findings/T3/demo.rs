//! Triage finding 3: `patch_archive::decompress_patch_data` computes a block
//! range as `offset + size * count` from numbers taken from the ESpec string.
//! Large values overflow (debug: arithmetic-overflow panic; release: wraps so
//! that `chunk_end < offset` and `data[offset..chunk_end]` panics).
//!
//! The ESpec string is attacker-controlled (it is stored in the patch archive
//! / encoding file). Both public functions used here are re-exported from
//! `cascette_formats::patch_archive`.

use std::panic::catch_unwind;

use cascette_formats::patch_archive::{decompress_patch_data, parse_compression_spec};

fn run(spec_str: &str, data: &[u8]) -> std::thread::Result<Result<usize, String>> {
    let spec = parse_compression_spec(spec_str).expect("spec string parses");
    catch_unwind(|| {
        decompress_patch_data(data, &spec)
            .map(|v| v.len())
            .map_err(|e| e.to_string())
    })
}

/// Second block size is u64::MAX: `1 + u64::MAX` overflows. In release the
/// sum wraps to 0, `min(len)` keeps 0, and the slice is `data[1..0]`.
#[test]
fn block_size_u64_max_after_first_block() {
    let r = run("{1=n,18446744073709551615=n}", &[0u8; 4]);
    assert!(r.is_ok(), "decompress_patch_data panicked");
    // The second block is clamped to the rest of the data, all 4 bytes copied.
    assert_eq!(r.ok(), Some(Ok(4)));
}

/// `size * count` overflows: 2^63 * 2.
#[test]
fn block_size_times_count_overflows() {
    let r = run("{1=n,9223372036854775808*2=n}", &[0u8; 4]);
    assert!(r.is_ok(), "decompress_patch_data panicked");
    assert_eq!(r.ok(), Some(Ok(4)));
}

/// Well-formed specs keep working.
#[test]
fn well_formed_spec_unchanged() {
    let r = run("{2=n,*=n}", &[1u8, 2, 3, 4, 5]);
    assert_eq!(r.ok(), Some(Ok(5)));
}
