//! A4g demo: BLTE - chunk-table sizes drive vec![0; compressed_size-1] (parse) and Vec::with_capacity(sum decompressed_size) (decompress).
#![allow(clippy::expect_used, clippy::unwrap_used, clippy::panic, unsafe_code, dead_code)]

/// Counting allocator: records the largest single allocation request and REFUSES (returns null)
/// any single request above 1 GiB.  A refused request makes the Rust runtime print
/// "memory allocation of N bytes failed" and abort the test process (SIGABRT) - that abort IS
/// the demonstration for the multi-GB cases.  Requests below the limit are served normally and
/// the recorded maximum is compared against the input length afterwards.
mod guard {
    use std::alloc::{GlobalAlloc, Layout, System};
    use std::sync::atomic::{AtomicUsize, Ordering};

    pub const LIMIT: usize = 1 << 30; // 1 GiB
    pub static MAX_REQ: AtomicUsize = AtomicUsize::new(0);

    pub struct Guard;

    fn note(size: usize) -> bool {
        MAX_REQ.fetch_max(size, Ordering::SeqCst);
        size <= LIMIT
    }

    unsafe impl GlobalAlloc for Guard {
        unsafe fn alloc(&self, l: Layout) -> *mut u8 {
            if note(l.size()) { unsafe { System.alloc(l) } } else { std::ptr::null_mut() }
        }
        unsafe fn alloc_zeroed(&self, l: Layout) -> *mut u8 {
            if note(l.size()) { unsafe { System.alloc_zeroed(l) } } else { std::ptr::null_mut() }
        }
        unsafe fn realloc(&self, p: *mut u8, l: Layout, new_size: usize) -> *mut u8 {
            if note(new_size) { unsafe { System.realloc(p, l, new_size) } } else { std::ptr::null_mut() }
        }
        unsafe fn dealloc(&self, p: *mut u8, l: Layout) {
            unsafe { System.dealloc(p, l) }
        }
    }

    pub fn reset() {
        MAX_REQ.store(0, Ordering::SeqCst);
    }
    pub fn max() -> usize {
        MAX_REQ.load(Ordering::SeqCst)
    }
    /// Generous proportionality bound: 1 MiB + 64 x input length.
    pub fn bound(input_len: usize) -> usize {
        (1 << 20) + 64 * input_len
    }
    /// Run `f`, then report and assert the largest single request made while it ran.
    pub fn check<T>(what: &str, input_len: usize, f: impl FnOnce() -> T) -> T {
        eprintln!("[{what}] input_len={input_len} bytes; calling parser (requests > 1 GiB are refused -> abort)");
        reset();
        let r = f();
        let m = max();
        eprintln!("[{what}] input_len={input_len} bytes, largest single allocation request = {m} bytes");
        assert!(
            m <= bound(input_len),
            "[{what}] largest single allocation request {m} bytes is out of proportion to the {input_len}-byte input (bound {})",
            bound(input_len)
        );
        r
    }
}

#[global_allocator]
static GLOBAL: guard::Guard = guard::Guard;

use cascette_crypto::TactKeyStore;
use cascette_formats::CascFormat;
use cascette_formats::blte::BlteFile;

/// BLTE with `n` chunks, each: compressed_size / decompressed_size as given, zero checksum, then chunk bytes.
fn blte(n: u32, compressed_size: u32, decompressed_size: u32, chunk_bytes: &[u8]) -> Vec<u8> {
    let header_size = 12 + 24 * n;
    let mut v = b"BLTE".to_vec();
    v.extend_from_slice(&header_size.to_be_bytes());
    v.push(0x0F);
    v.extend_from_slice(&n.to_be_bytes()[1..]);
    for _ in 0..n {
        v.extend_from_slice(&compressed_size.to_be_bytes());
        v.extend_from_slice(&decompressed_size.to_be_bytes());
        v.extend_from_slice(&[0u8; 16]);
    }
    for _ in 0..n {
        v.extend_from_slice(chunk_bytes);
    }
    v
}

/// chunk.rs:83 vec![0u8; compressed_size - 1]: 37-byte input, compressed_size = 0xFFFF_FFFF.
#[test]
fn a4g_1_parse_compressed_size() {
    let data = blte(1, 0xFFFF_FFFF, 0, b"N");
    assert_eq!(data.len(), 37);
    let r = guard::check("A4g blte/chunk.rs:83 compressed_size", data.len(), || BlteFile::parse(&data).map(|_| ()).map_err(|e| e.to_string()));
    eprintln!("result: {r:?}");
}

/// mod.rs:131 Vec::with_capacity(estimate_decompressed_size()) in decompress():
/// 37-byte input, one empty 'N' chunk (compressed_size = 1) claiming decompressed_size = 0xFFFF_FFFF.
#[test]
fn a4g_2_decompress_estimate_one_chunk() {
    let data = blte(1, 1, 0xFFFF_FFFF, b"N");
    assert_eq!(data.len(), 37);
    let parsed = BlteFile::parse(&data).expect("parses fine");
    let r = guard::check("A4g blte/mod.rs:131 decompress() estimate, 1 chunk", data.len(), || parsed.decompress().map(|v| v.len()).map_err(|e| e.to_string()));
    eprintln!("result: {r:?}");
}

/// Same with 16 chunks (412-byte input): the estimate is the SUM of the fields = 16 x (4 GiB - 1).
#[test]
fn a4g_3_decompress_estimate_sum_of_16_chunks() {
    let data = blte(16, 1, 0xFFFF_FFFF, b"N");
    assert_eq!(data.len(), 412);
    let parsed = BlteFile::parse(&data).expect("parses fine");
    let r = guard::check("A4g blte/mod.rs:131 decompress() estimate, 16 chunks", data.len(), || parsed.decompress().map(|v| v.len()).map_err(|e| e.to_string()));
    eprintln!("result: {r:?}");
}

/// mod.rs:161 the same pre-allocation in decompress_with_keys().
#[test]
fn a4g_4_decompress_with_keys_estimate() {
    let data = blte(1, 1, 0xFFFF_FFFF, b"N");
    let parsed = BlteFile::parse(&data).expect("parses fine");
    let ks = TactKeyStore::new();
    let r = guard::check("A4g blte/mod.rs:161 decompress_with_keys() estimate", data.len(), || parsed.decompress_with_keys(&ks).map(|v| v.len()).map_err(|e| e.to_string()));
    eprintln!("result: {r:?}");
}
