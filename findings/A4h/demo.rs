//! A4h demo: tvfs EstTable::read_options vec![0u8; table_size] - table_size is the u32 binrw arg.
#![allow(clippy::expect_used, clippy::unwrap_used, clippy::panic, unsafe_code, dead_code)]

/// Counting allocator: records the largest single allocation request and REFUSES (returns null)
/// any single request above 1 GiB.  A refused request makes the Rust runtime print
/// "memory allocation of N bytes failed" and abort the test process (SIGABRT) - that abort IS
/// the demonstration for the multi-GB cases.  Requests below the limit are served normally and
/// the recorded maximum is compared against the input length afterwards.
mod guard {
    use std::alloc::{GlobalAlloc, Layout, System};
    use std::sync::atomic::{AtomicUsize, Ordering};

    pub const LIMIT: usize = 1 << 30; // 1 GiB
    pub static MAX_REQ: AtomicUsize = AtomicUsize::new(0);

    pub struct Guard;

    fn note(size: usize) -> bool {
        MAX_REQ.fetch_max(size, Ordering::SeqCst);
        size <= LIMIT
    }

    unsafe impl GlobalAlloc for Guard {
        unsafe fn alloc(&self, l: Layout) -> *mut u8 {
            if note(l.size()) { unsafe { System.alloc(l) } } else { std::ptr::null_mut() }
        }
        unsafe fn alloc_zeroed(&self, l: Layout) -> *mut u8 {
            if note(l.size()) { unsafe { System.alloc_zeroed(l) } } else { std::ptr::null_mut() }
        }
        unsafe fn realloc(&self, p: *mut u8, l: Layout, new_size: usize) -> *mut u8 {
            if note(new_size) { unsafe { System.realloc(p, l, new_size) } } else { std::ptr::null_mut() }
        }
        unsafe fn dealloc(&self, p: *mut u8, l: Layout) {
            unsafe { System.dealloc(p, l) }
        }
    }

    pub fn reset() {
        MAX_REQ.store(0, Ordering::SeqCst);
    }
    pub fn max() -> usize {
        MAX_REQ.load(Ordering::SeqCst)
    }
    /// Generous proportionality bound: 1 MiB + 64 x input length.
    pub fn bound(input_len: usize) -> usize {
        (1 << 20) + 64 * input_len
    }
    /// Run `f`, then report and assert the largest single request made while it ran.
    pub fn check<T>(what: &str, input_len: usize, f: impl FnOnce() -> T) -> T {
        eprintln!("[{what}] input_len={input_len} bytes; calling parser (requests > 1 GiB are refused -> abort)");
        reset();
        let r = f();
        let m = max();
        eprintln!("[{what}] input_len={input_len} bytes, largest single allocation request = {m} bytes");
        assert!(
            m <= bound(input_len),
            "[{what}] largest single allocation request {m} bytes is out of proportion to the {input_len}-byte input (bound {})",
            bound(input_len)
        );
        r
    }
}

#[global_allocator]
static GLOBAL: guard::Guard = guard::Guard;

use binrw::BinRead;
use cascette_formats::tvfs::{EstTable, TvfsFile};
use std::io::Cursor;

/// 46-byte TVFS header with the EST flag; all tables empty except est_table_size = 0xFFFF_FFFF.
fn tvfs_header(est_offset: u32, est_size: u32) -> Vec<u8> {
    let mut v = b"TVFS".to_vec();
    v.extend_from_slice(&[1, 46, 9, 9]); // format_version, header_size, ekey_size, pkey_size
    v.extend_from_slice(&2u32.to_be_bytes()); // flags = TVFS_FLAG_ENCODING_SPEC
    for _ in 0..3 {
        v.extend_from_slice(&46u32.to_be_bytes()); // table offset
        v.extend_from_slice(&0u32.to_be_bytes()); // table size
    }
    v.extend_from_slice(&0u16.to_be_bytes()); // max_depth
    v.extend_from_slice(&est_offset.to_be_bytes());
    v.extend_from_slice(&est_size.to_be_bytes());
    assert_eq!(v.len(), 46);
    v
}

/// Through TvfsFile::parse (the only in-tree caller): tvfs/mod.rs:98 rejects est_offset + est_size >
/// data.len() BEFORE EstTable::read_options runs, so the request is bounded by the input length.
#[test]
fn a4h_1_via_tvfs_file_parse_is_bounded() {
    let data = tvfs_header(46, 0xFFFF_FFFF);
    let r = guard::check("A4h TvfsFile::parse, est_table_size=0xFFFFFFFF", data.len(), || TvfsFile::parse(&data).map(|_| ()).map_err(|e| e.to_string()));
    eprintln!("result: {r:?}");
    assert!(r.is_err());
}

/// Calling the public BinRead impl directly with an unchecked size: empty reader, args = (u32::MAX,).
#[test]
fn a4h_2_direct_read_options_unchecked_arg() {
    let empty: [u8; 0] = [];
    let r = guard::check("A4h EstTable::read_options direct, args=(0xFFFFFFFF,)", 0, || {
        EstTable::read_options(&mut Cursor::new(&empty[..]), binrw::Endian::Big, (0xFFFF_FFFF,)).map(|_| ()).map_err(|e| e.to_string())
    });
    eprintln!("result: {r:?}");
}
