//! B3: max_memory_bytes triggers needs_eviction(), but perform_eviction() sizes the
//! eviction from max_entries only, so the byte limit is never enforced.
#![allow(clippy::expect_used, clippy::unwrap_used, clippy::panic)]

use bytes::Bytes;
use cascette_cache::{
    config::MemoryCacheConfig, key::RibbitKey, memory_cache::MemoryCache, traits::AsyncCache,
};

#[tokio::test]
async fn b3_max_memory_bytes_is_not_enforced() {
    let cfg = MemoryCacheConfig::new()
        .with_max_entries(1000)
        .with_max_memory(1000);
    let cache: MemoryCache<RibbitKey> = MemoryCache::new(cfg).unwrap();

    for i in 0..100 {
        cache
            .put(RibbitKey::new(format!("k{i}"), "us"), Bytes::from(vec![0u8; 100]))
            .await
            .unwrap();
    }

    let st = cache.stats().await.unwrap();
    let mut still_readable = 0;
    for i in 0..100 {
        if cache.get(&RibbitKey::new(format!("k{i}"), "us")).await.unwrap().is_some() {
            still_readable += 1;
        }
    }
    println!(
        "max_memory_bytes=1000 max_entries=1000 -> entries={} memory_usage_bytes={} readable={}",
        st.entry_count, st.memory_usage_bytes, still_readable
    );
    assert!(
        st.memory_usage_bytes <= 1000 + 100,
        "byte limit 1000 not enforced: {} bytes in {} entries cached",
        st.memory_usage_bytes,
        st.entry_count
    );
}
