//! B6: DiskCache::get not-indexed fallback serves a file found on disk and re-indexes it
//! with expires_at: None. A TTL'd entry written by instance 1 is served forever by
//! instance 2 (new process / restart) on the same directory.
#![allow(clippy::expect_used, clippy::unwrap_used, clippy::panic)]

use bytes::Bytes;
use cascette_cache::{
    config::DiskCacheConfig, disk_cache::DiskCache, key::RibbitKey, traits::AsyncCache,
};
use std::time::Duration;

#[tokio::test]
async fn b6_ttl_lost_across_instances() {
    let dir = tempfile::TempDir::new().unwrap();
    let key = RibbitKey::new("versions", "us");
    let val = Bytes::from_static(b"stale-version-manifest");

    {
        let c1: DiskCache<RibbitKey> = DiskCache::new(DiskCacheConfig::new(dir.path())).unwrap();
        c1.put_with_ttl(key.clone(), val.clone(), Duration::from_millis(50))
            .await
            .unwrap();
        assert_eq!(c1.get(&key).await.unwrap(), Some(val.clone()));
    } // instance 1 dropped ("process exit")

    tokio::time::sleep(Duration::from_millis(200)).await; // 4x the TTL

    // Control: the same instance would have honoured the TTL.
    // New instance on the same directory:
    let c2: DiskCache<RibbitKey> = DiskCache::new(DiskCacheConfig::new(dir.path())).unwrap();
    let first = c2.get(&key).await.unwrap();
    tokio::time::sleep(Duration::from_millis(200)).await;
    let second = c2.get(&key).await.unwrap();
    println!(
        "TTL=50ms; instance 2 get at +200ms -> {:?}; at +400ms -> {:?}; contains={}",
        first.as_ref().map(|b| String::from_utf8_lossy(b).into_owned()),
        second.as_ref().map(|b| String::from_utf8_lossy(b).into_owned()),
        c2.contains(&key).await.unwrap()
    );
    assert_eq!(first, None, "expired (TTL 50ms, age 200ms) entry served by a fresh instance");
    assert_eq!(second, None, "expired entry re-indexed with expires_at=None and served forever");
}
