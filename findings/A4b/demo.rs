//! A4b demo: InstallManifest::parse - Vec::with_capacity(entry_count) and tag bit-mask vec![0; entry_count/8].
#![allow(clippy::expect_used, clippy::unwrap_used, clippy::panic, unsafe_code, dead_code)]

/// Counting allocator: records the largest single allocation request and REFUSES (returns null)
/// any single request above 1 GiB.  A refused request makes the Rust runtime print
/// "memory allocation of N bytes failed" and abort the test process (SIGABRT) - that abort IS
/// the demonstration for the multi-GB cases.  Requests below the limit are served normally and
/// the recorded maximum is compared against the input length afterwards.
mod guard {
    use std::alloc::{GlobalAlloc, Layout, System};
    use std::sync::atomic::{AtomicUsize, Ordering};

    pub const LIMIT: usize = 1 << 30; // 1 GiB
    pub static MAX_REQ: AtomicUsize = AtomicUsize::new(0);

    pub struct Guard;

    fn note(size: usize) -> bool {
        MAX_REQ.fetch_max(size, Ordering::SeqCst);
        size <= LIMIT
    }

    unsafe impl GlobalAlloc for Guard {
        unsafe fn alloc(&self, l: Layout) -> *mut u8 {
            if note(l.size()) { unsafe { System.alloc(l) } } else { std::ptr::null_mut() }
        }
        unsafe fn alloc_zeroed(&self, l: Layout) -> *mut u8 {
            if note(l.size()) { unsafe { System.alloc_zeroed(l) } } else { std::ptr::null_mut() }
        }
        unsafe fn realloc(&self, p: *mut u8, l: Layout, new_size: usize) -> *mut u8 {
            if note(new_size) { unsafe { System.realloc(p, l, new_size) } } else { std::ptr::null_mut() }
        }
        unsafe fn dealloc(&self, p: *mut u8, l: Layout) {
            unsafe { System.dealloc(p, l) }
        }
    }

    pub fn reset() {
        MAX_REQ.store(0, Ordering::SeqCst);
    }
    pub fn max() -> usize {
        MAX_REQ.load(Ordering::SeqCst)
    }
    /// Generous proportionality bound: 1 MiB + 64 x input length.
    pub fn bound(input_len: usize) -> usize {
        (1 << 20) + 64 * input_len
    }
    /// Run `f`, then report and assert the largest single request made while it ran.
    pub fn check<T>(what: &str, input_len: usize, f: impl FnOnce() -> T) -> T {
        eprintln!("[{what}] input_len={input_len} bytes; calling parser (requests > 1 GiB are refused -> abort)");
        reset();
        let r = f();
        let m = max();
        eprintln!("[{what}] input_len={input_len} bytes, largest single allocation request = {m} bytes");
        assert!(
            m <= bound(input_len),
            "[{what}] largest single allocation request {m} bytes is out of proportion to the {input_len}-byte input (bound {})",
            bound(input_len)
        );
        r
    }
}

#[global_allocator]
static GLOBAL: guard::Guard = guard::Guard;

use cascette_formats::install::InstallManifest;

fn header(tag_count: u16, entry_count: u32) -> Vec<u8> {
    let mut v = vec![b'I', b'N', 1, 16];
    v.extend_from_slice(&tag_count.to_be_bytes());
    v.extend_from_slice(&entry_count.to_be_bytes());
    v
}

/// manifest.rs:56 Vec::with_capacity(header.entry_count) - 10-byte input, no tags.
#[test]
fn a4b_1_entry_count() {
    let data = header(0, 0xFFFF_FFFF);
    let r = guard::check("A4b install/manifest.rs:56 entry_count", data.len(), || InstallManifest::parse(&data).map(|_| ()));
    eprintln!("result: {:?}", r.map_err(|e| e.to_string()));
}

/// tag.rs:226 vec![0u8; entry_count.div_ceil(8)] - 14-byte input, one tag "a", type 1.
/// 0xFFFF_FFFF / 8 = 512 MiB: below the 1 GiB refusal limit, so the request is served and measured.
#[test]
fn a4b_2_tag_bit_mask() {
    let mut data = header(1, 0xFFFF_FFFF);
    data.extend_from_slice(b"a\0");
    data.extend_from_slice(&1u16.to_be_bytes());
    let r = guard::check("A4b install/tag.rs:226 bit mask", data.len(), || InstallManifest::parse(&data).map(|_| ()));
    eprintln!("result: {:?}", r.map_err(|e| e.to_string()));
}
