//! B9: Md5ValidationHooks::should_skip_validation returns true for data > 100 MB and
//! NgdpBytes::validate_with_hooks then reports the content as VALID (and marks it validated)
//! without hashing. MultiLayerCacheImpl::{put_with_validation,get_with_validation} therefore
//! accept and return content whose MD5 differs from the requested content key.
#![allow(clippy::expect_used, clippy::unwrap_used, clippy::panic)]

use bytes::Bytes;
use cascette_cache::{
    config::{MemoryCacheConfig, MultiLayerCacheConfig},
    key::RibbitKey,
    multi_layer::MultiLayerCacheImpl,
    validation::Md5ValidationHooks,
};
use cascette_crypto::ContentKey;
use std::sync::Arc;

fn cache() -> MultiLayerCacheImpl<RibbitKey> {
    let cfg = MultiLayerCacheConfig::new().add_memory_layer(
        MemoryCacheConfig::new()
            .with_max_entries(16)
            .with_max_memory(1 << 30),
    );
    let mut c = MultiLayerCacheImpl::new(cfg).unwrap();
    c.set_validation_hooks(Some(Arc::new(Md5ValidationHooks::new())));
    c
}

#[tokio::test]
async fn b9_large_content_with_wrong_md5_is_reported_valid() {
    let cache = cache();
    // The content key the caller asks for (MD5 of something else entirely)
    let wanted = ContentKey::from_data(b"the real file");

    // control: small corrupted content is rejected
    let small = Bytes::from(vec![0u8; 1024 * 1024]);
    let r = cache
        .put_with_validation(RibbitKey::new("small", "us"), wanted, small)
        .await;
    println!("control 1 MiB, wrong MD5: put_with_validation -> {:?}", r.as_ref().map(|v| v.is_valid));
    assert!(r.is_err(), "control: small corrupt content must be rejected");

    // 100 MiB + 1 byte of garbage
    let big = Bytes::from(vec![0u8; 100 * 1024 * 1024 + 1]);
    let actual_md5 = md5::compute(&big);
    assert_ne!(actual_md5.as_ref(), wanted.as_bytes());

    let key = RibbitKey::new("big", "us");
    let put = cache.put_with_validation(key.clone(), wanted, big.clone()).await;
    println!(
        "100 MiB + 1, wrong MD5: put_with_validation -> {:?}",
        put.as_ref().map(|v| (v.is_valid, v.hash_time))
    );

    let got = cache.get_with_validation(&key, Some(wanted)).await;
    let summary = got.as_ref().map(|o| {
        o.as_ref().map(|b| {
            (
                b.as_bytes().len(),
                b.is_validated(),
                hex::encode(md5::compute(b.as_bytes()).as_ref()),
            )
        })
    });
    println!(
        "get_with_validation(expected = {}) -> (len, is_validated, actual md5) = {:?}",
        hex::encode(wanted.as_bytes()),
        summary
    );

    assert!(put.is_err(), "corrupt >100MB content accepted by put_with_validation as valid");
    assert!(
        !matches!(got, Ok(Some(_))),
        "get_with_validation returned content whose MD5 != requested content key, flagged validated"
    );
}
