//! Numbers in an ESpec string are input: arithmetic on them must not overflow (dev / test builds panic, release builds wrap).
use cascette_formats::espec::ESpec;
use cascette_formats::patch_archive::get_compression_at_offset;

#[test]
fn block_size_unit_does_not_overflow() {
    for spec in ["b:{18446744073709551615K=n}", "b:{18446744073709551615M=n}", "b:{18014398509481984K=n,*=n}"] {
        let r = std::panic::catch_unwind(|| ESpec::parse(spec));
        assert!(r.is_ok(), "ESpec::parse({spec:?}) panicked");
        assert!(r.unwrap().is_err(), "an overflowing block size must be rejected: {spec:?}");
    }
    // control
    assert!(ESpec::parse("b:{16K*=z}").is_ok());
}

#[test]
fn compression_lookup_does_not_overflow() {
    let spec = ESpec::parse("b:{1=n,18446744073709551615=z,*=n}").expect("parses");
    let r = std::panic::catch_unwind(|| {
        let _ = get_compression_at_offset(&spec, 5);
    });
    assert!(r.is_ok(), "get_compression_at_offset panicked on an overflowing chunk end");
}
