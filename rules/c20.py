"""C20 - no key or endpoint string makes the library touch files outside its directories (structural clauses)."""
import re
from .facts import op_local, Slice, place_fields, op_const
from .lib import bool_switches, must_pass, enum_switches, return_holders
from .cachebooks import recv_fields

CRATES = ["cascette_cache", "cascette_protocol", "cascette_client_storage", "cascette_crypto", "cascette_formats"]

EXPLANATION = (
    "Static rules over the MIR of cascette-cache, cascette-protocol and cascette-client-storage. R1 path taint: sources are every "
    "CacheKey::as_cache_key result and string parameters that name a key/endpoint/archive/product/region/installation; sinks are "
    "Path::join, PathBuf::push, with_extension, with_file_name, set_extension, set_file_name; the backward slice of a sink argument is cut "
    "at integer-typed values and at charset-safe encodings (hex::encode, integer formatting); a source that still reaches the sink needs a "
    "dominating confinement check (a callee that walks Path::components and rejects non-Normal components, or tests for '..'/absolute) "
    "whose failing edge does not reach the sink. R2: a constant-range slice of a runtime-length string (`&hex[..2]`, `[2..4]`) in URL / "
    "cache-key builders needs a fixed-width source or a controlling length comparison. R4: for every type implementing CacheKey, "
    "PartialEq::eq and Hash::hash read no memo field (OnceLock) and every identity field is read by the code that produces the key "
    "string. R5: endpoint validation rejects every character outside its whitelist on every path (premise for the cache key template). "
    "R6: the file name a disk-cache entry is stored under contains the key string itself (not only a digest of it), so distinct keys "
    "cannot share a file. What the filesystem does with very long names is not decided.")

ASSUMPTIONS = ["injectivity for adversarial field contents (separator inside a field) and NAME_MAX behaviour are not decided",
               "download_range's `offset + length - 1` arithmetic is outside the statement (not a key/URL builder) and only reported as information"]

KRATES = ["cascette_cache", "cascette_protocol", "cascette_client_storage"]
SINK = re.compile(r"^std::path::Path::(join|with_extension|with_file_name)$|^std::path::PathBuf::(push|set_extension|set_file_name)$")
SRC_PARAM = re.compile(r"(^|_)(key|name|endpoint|archive|product|region|installation)(_name|_key|_str)?$")
NOT_SRC_PARAM = re.compile(r"(dir|base|root|path)$")
SAFE_ENC = re.compile(r"^hex::encode$|^hex::.*::encode|::generation_to_filename$|::generate_index_filename$|core::fmt::num::|\bDisplay for u\d+|::to_string$")
INT_TY = re.compile(r"^(u8|u16|u32|u64|u128|usize|i8|i16|i32|i64|i128|isize|bool|char)$|^\[u8; \d+\]$")
CONFINE_CALL = re.compile(r"std::path::Path::(components|is_absolute|has_root|is_relative|strip_prefix)$|str>?::contains$|::starts_with$|std::path::Path::canonicalize$|std::fs::canonicalize$")


def int_cut(b):
    return {i for i, d in enumerate(b.locals) if INT_TY.match(b.local_ty(i) or "")}


def tainted_sources(b, op):
    """(sources, slice) - tainted leaf sources of a sink argument: as_cache_key calls, named string params"""
    l = op_local(op)
    if l is None:
        return [], None
    sl = Slice(b, [l], transparent=True, stop_at=int_cut(b))
    srcs = []
    for c in sl.calls:
        if re.search(r"CacheKey>?::as_cache_key$", c.name) or re.search(r"CacheKey>?::as_cache_key$", c.orig_name):
            srcs.append(("as_cache_key()", c.loc()))
    for p in sl.locals:
        if 1 <= p <= b.argc:
            nm = b.local_name(p)
            ty = b.local_ty(p)
            if re.search(r"^&(mut )?str$|::String$|^&(mut )?alloc::string::String$", ty) and SRC_PARAM.search(nm or "") and not NOT_SRC_PARAM.search(nm or ""):
                srcs.append(("parameter %s: %s" % (nm, ty), b.loc()))
    # async bodies: parameters are captured upvars (`_1.upvar:endpoint`)
    from .facts import strip_regions
    for p in sl.places + ([op["p"]] if op["k"] in ("cp", "mv") else []):
        for e in p[1:]:
            if isinstance(e, dict) and str(e.get("n", "")).startswith("upvar:"):
                nm = e["n"][len("upvar:"):]
                ty = strip_regions(e.get("t", ""))
                if re.search(r"^&(mut )?str$|::String$", ty) and SRC_PARAM.search(nm) and not NOT_SRC_PARAM.search(nm):
                    if ("parameter %s: %s" % (nm, ty), b.loc()) not in srcs:
                        srcs.append(("parameter %s: %s" % (nm, ty), b.loc()))
    # String fields of a struct parameter that names an endpoint / key (`endpoint.path`, `endpoint.host`: server-supplied text)
    for p in sl.places + ([op["p"]] if op["k"] in ("cp", "mv") else []):
        owner = None
        # (async fns re-bind their captured parameters to named locals: `endpoint = _1.upvar:endpoint`)
        if (1 <= p[0] <= b.argc or b.locals[p[0]].get("u")) and SRC_PARAM.search(b.local_name(p[0]) or "") and "cascette_" in (b.local_ty(p[0]) or ""):
            owner = b.local_name(p[0])
        for e in p[1:]:
            if not isinstance(e, dict):
                continue
            nm = str(e.get("n", ""))
            if nm.startswith("upvar:"):
                if SRC_PARAM.search(nm[len("upvar:"):]):
                    owner = nm[len("upvar:"):]
                continue
            if owner and "f" in e and re.search(r"^&(mut )?str$|::String$", strip_regions(e.get("t", ""))):
                src = ("field %s.%s: String" % (owner, nm), b.loc())
                if src not in srcs:
                    srcs.append(src)
    # encodings cut taint: if every route goes through a safe encoding the slice still lists the source; approximate by
    # requiring that no safe encoding is in the slice for a source to count through that call
    if srcs and any(SAFE_ENC.search(c.name) for c in sl.calls) and not any(s[0].startswith("as_cache_key") for s in srcs):
        # e.g. hex::encode(ekey) of a fixed array parameter named *key
        enc_args = set()
        for c in sl.calls:
            if SAFE_ENC.search(c.name):
                for a in c.args:
                    if op_local(a) is not None:
                        enc_args |= Slice(b, [op_local(a)], transparent=True).locals
        srcs = [s for s in srcs if not any(b.local_name(p) in s[0] for p in enc_args if 1 <= p <= b.argc)]
    return srcs, sl


def confined(ctx, b, sink, sl):
    """a dominating confinement check on the tainted value whose failing edge does not reach the sink"""
    prog = ctx.prog
    for c in b.calls:
        if c.bb == sink.bb or not b.dominates(c.bb, sink.bb):
            continue
        is_check = bool(CONFINE_CALL.search(c.name))
        if not is_check:
            for t in prog.call_targets(c):
                tb = prog.bodies[t]
                fam = prog.family(tb)
                if any(x.calls_matching(r"std::path::Path::components$") for x in fam) or \
                   any(re.search(r"\.\.", o.get("s", "")) for x in fam for i, j, s in x.stmts() for o in s["r"].get("o", []) if o["k"] == "c"):
                    is_check = True
        if not is_check:
            continue
        # the checked value shares a root with the sink argument
        roots = set()
        for a in c.args:
            if op_local(a) is not None:
                roots |= Slice(b, [op_local(a)], transparent=True).locals
        if not (roots & sl.locals):
            continue
        # its result gates the sink
        from .c05 import enum_switches_through
        gates = False
        for (sbb, tt, ft) in bool_switches(b, c.dest[0]):
            if (sink.bb in b.reachable([tt], avoid={sbb})) != (sink.bb in b.reachable([ft], avoid={sbb})):
                gates = True
        for (ebb, m, other, via) in enum_switches_through(b, c.dest[0]):
            if 1 in m and sink.bb not in b.reachable([m[1]]):
                gates = True
        if gates:
            return True
    return False


def r1_path_taint(ctx):
    rule = "C20.R1"
    ctx.rule(rule, "key/endpoint/name strings reach path-building calls only through a confinement check or a charset-safe encoding")
    n = 0
    for c in ctx.prog.all_calls(SINK.pattern, krates=KRATES):
        b = c.body
        if len(c.args) < 2:
            continue
        n += 1
        ctx.call_sites += 1
        srcs, sl = tainted_sources(b, c.args[1])
        meth = c.name.split("::")[-1]
        if not srcs:
            ctx.ok(rule, [b.id, meth, c.bb], "argument is constant, integer-derived or charset-safe encoded", c.loc(), nontrivial=sl is not None,
                   sample={"in": b.id, "sink": meth, "at": c.loc()} if sl is not None else None)
            continue
        ctx.saw(b)
        if confined(ctx, b, c, sl):
            ctx.ok(rule, [b.id, meth, c.bb], "confined by a dominating check", c.loc(), sample={"in": b.id, "sink": meth, "sources": [s[0] for s in srcs]})
            continue
        ctx.bad(rule, [b.id, meth, srcs[0][0].split(":")[0]],
                "%s passes %s to Path::%s without a confinement check: a value such as `x/../../..` or an absolute path makes the store create, read, rename or "
                "delete files outside its configured directory (Path::join/push replace the base for absolute arguments and keep `..` components)" %
                (b.id, " / ".join(sorted({s[0] for s in srcs})), meth), c.loc(), {"sources": srcs})
    # with_extension on a key-derived file name: keys differing only after the last '.' share the derived name
    ctx.floor(rule, n, 30, "path-building call sites")


def r1b_extension(ctx):
    rule = "C20.R1"
    for c in ctx.prog.all_calls(r"^std::path::Path::with_extension$|^std::path::PathBuf::set_extension$", krates=["cascette_cache"]):
        b = c.body
        # receiver derives from a path that get_file_path built from the raw key string
        l = op_local(c.args[0])
        if l is None:
            continue
        sl = Slice(b, [l], transparent=True)
        params = [p for p in sl.locals if 1 <= p <= b.argc and "Path" in b.local_ty(p)]
        root = ctx.prog.bodies.get(b.root) if b.root else b
        callers_build_from_key = False
        if root:
            for (s, how, cc) in ctx.prog.callers.get(root.id, []):
                cb = ctx.prog.bodies[s]
                fam = ctx.prog.family(cb)
                if any(x.calls_matching(r"DiskCache::<K>::get_file_path$") for x in fam):
                    callers_build_from_key = True
        if callers_build_from_key:
            ctx.bad(rule, [b.id, "with_extension-on-key-path"],
                    "%s derives the temp name with with_extension() from a file name that is the raw key string: with_extension replaces everything after the last '.', "
                    "so two keys that differ only after their last '.' (e.g. `v1/products/wow.a` and `v1/products/wow.b`) write the same temp file" % b.id, c.loc())


STR_INDEX = re.compile(r"core::str::traits::<impl core::ops::index::Index<I> for str>::index$|<alloc::string::String as core::ops::index::Index<I>>::index$")


def r2_const_slices(ctx):
    rule = "C20.R2"
    ctx.rule(rule, "constant-range slices of runtime-length strings in URL / cache-key builders are length-guarded or fixed-width")
    n = 0
    for b in sorted(ctx.prog.bodies.values(), key=lambda x: x.id):
        if not (b.krate == "cascette_protocol" and re.search(r"src/cdn/", b.file)) and not (b.krate == "cascette_cache" and re.search(r"src/key\.rs$", b.file)):
            continue
        for c in b.calls:
            if c.bb not in b.live_blocks() or c.expn and False:
                continue
            if not STR_INDEX.search(c.name):
                continue
            # constant range?
            rl = op_local(c.args[1]) if len(c.args) > 1 else None
            if rl is None:
                continue
            rs = Slice(b, [rl], transparent=None)
            rng = [st for (bb_, idx_, st) in rs.stmts if st["r"]["k"] == "Agg" and st["r"].get("variant", "").startswith("Range")]
            if not rng or not all(op_const(o) is not None for o in rng[0]["r"]["o"]):
                continue
            hi = max([op_const(o) for o in rng[0]["r"]["o"]] + [0])
            if hi == 0:
                continue
            n += 1
            ctx.saw(b)
            ctx.call_sites += 1
            ssl = Slice(b, [op_local(c.args[0])], transparent=True)
            # fixed-width source: hex::encode of a fixed-size array / key type
            fixed = False
            for x in ssl.calls:
                if re.search(r"^hex::encode$", x.name):
                    at = b.local_ty(op_local(x.args[0])) if x.args and op_local(x.args[0]) is not None else ""
                    src_sl = Slice(b, [op_local(x.args[0])], transparent=True) if x.args and op_local(x.args[0]) is not None else None
                    if re.search(r"\[u8; \d+\]", at) or (src_sl and any(re.search(r"\[u8; \d+\]|ContentKey|EncodingKey", b.local_ty(l)) for l in src_sl.locals)):
                        fixed = True
            guarded = False
            for i, j, s in b.stmts():
                r = s["r"]
                if r["k"] == "Bin" and r["op"] in ("Lt", "Le", "Gt", "Ge", "Eq", "Ne"):
                    gs = Slice(b, [op_local(o) for o in r["o"] if op_local(o) is not None], transparent=True)
                    if any(re.search(r"::len$", x.name) for x in gs.calls) and (gs.locals & ssl.locals):
                        for (sbb, tt, ft) in bool_switches(b, s["p"][0]):
                            if (c.bb in b.reachable([tt], avoid={sbb})) != (c.bb in b.reachable([ft], avoid={sbb})):
                                guarded = True
            ctx.check(fixed or guarded, rule, [b.id, "slice", hi], "slice is length-guarded or its source has a fixed width",
                      "%s slices `[..%d]` out of a string whose length depends on the caller's key/archive name without any length check: a key shorter than %d hex "
                      "characters (content keys of length 0 or 1, short archive names) panics while the URL / cache key is being built" % (b.id, hi, hi), c.loc(),
                      sample={"in": b.id, "at": c.loc(), "upper_bound": hi})
    ctx.floor(rule, n, 10, "constant-range string slices in cdn/ and key.rs")


def r4_key_identity(ctx):
    rule = "C20.R4"
    ctx.rule(rule, "CacheKey types: eq/hash ignore memo fields; every identity field feeds the key string")
    prog = ctx.prog
    key_types = {}
    for im in prog.impls:
        if (im.get("trait") or "").endswith("key::CacheKey") and im.get("self_adt"):
            key_types[im["self_adt"]] = im
    ctx.floor(rule, len(key_types), 11, "types implementing CacheKey")
    for adt_id in sorted(key_types):
        adt = prog.adts.get(adt_id)
        if not adt or not adt["variants"]:
            continue
        fields = adt["variants"][0]["fields"]
        memo = {f["n"] for f in fields if re.search(r"OnceLock<|OnceCell<", f["ty"])}
        ident = [f["n"] for f in fields if f["n"] not in memo]
        # eq / hash bodies of this type
        for tr, meth in (("core::cmp::PartialEq", "eq"), ("core::hash::Hash", "hash")):
            bodies = [b for b in prog.bodies.values() if b.self_adt == adt_id and b.item == meth and (b.trait or "") == tr and not b.root]
            if not bodies:
                continue
            b = bodies[0]
            ctx.saw(b)
            read = set()
            for i, j, s in b.stmts():
                r = s["r"]
                for o in r.get("o", []):
                    if o["k"] in ("cp", "mv"):
                        read |= set(place_fields(o["p"]))
                if "p" in r:
                    read |= set(place_fields(r["p"]))
            for c in b.calls:
                for a in c.args:
                    if a["k"] in ("cp", "mv"):
                        read |= set(place_fields(a["p"]))
            bad = sorted(read & memo)
            # transitively: methods of the same type called from eq/hash (e.g. as_cache_key()) that read a memo field. A memo
            # is filled once and copied by Clone; when an identity field is `pub` the memo can be stale, so identity through
            # the memo compares what the key *was*
            via = []
            pub_ident = [f["n"] for f in fields if f.get("pub") and f["n"] not in memo]
            if not bad and pub_ident:
                seen = {b.id}
                work = [(b, [])]
                while work:
                    cur, chain = work.pop()
                    for fb in prog.family(cur):
                        for c in fb.calls:
                            for tid in prog.call_targets(c):
                                tb = prog.bodies.get(tid)
                                if tb is None or tb.id in seen or tb.self_adt != adt_id or len(chain) >= 3:
                                    continue
                                seen.add(tb.id)
                                rd = set()
                                for gb in prog.family(tb):
                                    for i, j, st in gb.stmts():
                                        r = st["r"]
                                        for o in r.get("o", []):
                                            if o["k"] in ("cp", "mv"):
                                                rd |= {re.sub(r"^upvar:(self__)?", "", x) for x in place_fields(o["p"])}
                                        if "p" in r:
                                            rd |= {re.sub(r"^upvar:(self__)?", "", x) for x in place_fields(r["p"])}
                                    for c2 in gb.calls:
                                        for a in c2.args:
                                            if a["k"] in ("cp", "mv"):
                                                rd |= {re.sub(r"^upvar:(self__)?", "", x) for x in place_fields(a["p"])}
                                if rd & memo:
                                    via.append((tb.item, sorted(rd & memo)))
                                work.append((tb, chain + [tb.item]))
            ctx.check(not via, rule, [adt_id, meth, "no-memo-via-method"], "%s reaches no memo field through the type's own methods" % meth,
                      "%s::%s goes through %s, which reads the lazily filled memo %s, while the identity field(s) %s are `pub` and Clone copies a filled memo: "
                      "a key whose field was changed after first use (or a clone of it) still compares and hashes as the old key, so the cache returns another key's value" %
                      (adt["name"], meth, via[0][0] if via else "", via[0][1] if via else "", pub_ident), b.loc(),
                      sample={"type": adt["name"], "method": meth, "via": via, "pub_identity_fields": pub_ident})
            ctx.check(not bad, rule, [adt_id, meth, "no-memo"], "%s ignores memo fields" % meth,
                      "%s::%s compares/hashes the memo field(s) %s (a OnceLock that is filled lazily by as_cache_key()): a stored key (memo filled) and a fresh lookup key "
                      "(memo empty) with identical identity fields are unequal, so in-memory index lookups always miss and the entry's bookkeeping (TTL, usage) is bypassed" %
                      (adt["name"], meth, bad), b.loc(), sample={"type": adt["name"], "method": meth, "fields_read": sorted(read)})
        # identity coverage: fields read by the key-string producers (as_cache_key + closures, constructors)
        prod = [b for b in prog.bodies.values() if b.self_adt == adt_id and (b.item in ("as_cache_key", "new") or (b.item or "").startswith("new") or (b.item or "").startswith("with_") or (b.item or "").startswith("from_"))]
        read = set()
        for b in prod:
            for fb in prog.family(b):
                for i, j, s in fb.stmts():
                    r = s["r"]
                    for o in r.get("o", []):
                        if o["k"] in ("cp", "mv"):
                            read |= {re.sub(r"^upvar:(self__)?", "", x) for x in place_fields(o["p"])}
                    if "p" in r:
                        read |= {re.sub(r"^upvar:(self__)?", "", x) for x in place_fields(r["p"])}
                    if r["k"] == "Agg" and r.get("ak") == "adt" and r["adt"] == adt_id:
                        pass
                for c in fb.calls:
                    for a in c.args:
                        if a["k"] in ("cp", "mv"):
                            read |= {re.sub(r"^upvar:(self__)?", "", x) for x in place_fields(a["p"])}
        keyprod = [b for b in prog.bodies.values() if b.self_adt == adt_id and b.item == "as_cache_key"]
        if keyprod:
            missing = [f for f in ident if f not in read]
            ctx.check(not missing, rule, [adt_id, "identity-coverage"], "every identity field is read when the key string is produced",
                      "%s: field(s) %s never flow into the cache key string: two keys that differ only there share one cache file" % (adt["name"], missing),
                      keyprod[0].loc(), sample={"type": adt["name"], "identity_fields": ident})


def r5_endpoint_whitelist(ctx):
    rule = "C20.R5"
    ctx.rule(rule, "validate_endpoint rejects every character outside its whitelist; the key template prefixes a constant directory")
    bs = [b for b in ctx.prog.bodies.values() if b.item == "validate_endpoint" and not b.root and b.krate == "cascette_protocol"]
    if not ctx.anchor(rule, bs, "client::validate_endpoint"):
        return
    b = bs[0]
    ctx.saw(b)
    nx = b.calls_matching(r"\bIterator>?::next$")
    an = b.calls_matching(r"char::methods::<impl char>::is_alphanumeric$|::is_ascii_alphanumeric$")
    from .lib import assigns_variant
    errb = set(assigns_variant(b, "Err"))
    okb = set(assigns_variant(b, "Ok"))
    good = bool(nx) and bool(an)
    if good:
        from .c12 import every_iteration
        good = every_iteration(b, nx[0], an[0].bb, bad_targets=okb)
    # the same test written with a quantifier: `endpoint.chars().find(|c| <class test>)` / all / any / position - the adaptor visits every character
    # (it stops at the first hit, which is what the loop's early return did) and the class test sits in the predicate closure
    fam = [b] + [ctx.prog.bodies[ch] for ch in ctx.prog.children.get(b.id, []) if ch in ctx.prog.bodies]
    if not good:
        quant = [c for c in b.calls if c.bb in b.live_blocks() and re.search(r"\bIterator>?::(find|all|any|position|find_map)$", c.orig_name or c.name) and "Chars" in (c.full or "")]
        pred_tests = any(cb.calls_matching(r"char::methods::<impl char>::is_alphanumeric$|::is_ascii_alphanumeric$") for cb in fam[1:])
        good = bool(quant) and pred_tests
    ctx.check(good and bool(errb), rule, [b.id, "all-chars-tested"], "every character passes the class test",
              "validate_endpoint no longer tests every character of the endpoint", b.loc(), sample={"validator": b.id})
    # allowed punctuation set (information + regression: a new path-significant character must not be admitted)
    allowed = set()
    for fb in fam:
        for i, blk in enumerate(fb.blocks):
            t = blk["t"]
            if t["k"] == "Switch":
                for v, tg in t["v"]:
                    if 0x20 < int(v) < 0x7f:
                        allowed.add(chr(int(v)))
    danger = sorted(allowed & set("\\:~$%*?\"<>|&;`' \t\n\0"))
    ctx.check(not danger, rule, [b.id, "whitelist"], "whitelist admits no shell/drive/escape characters (admits %s)" % sorted(allowed),
              "validate_endpoint admits %s" % danger, b.loc(), sample={"admitted_punctuation": sorted(allowed)})
    if "." in allowed and "/" in allowed:
        ctx.bad(rule, [b.id, "dot-and-slash"],
                "validate_endpoint admits both '.' and '/', so `..` path segments (e.g. `x/../../../etc`) pass validation and reach the disk cache path through the "
                "cache key `api/ribbit/{endpoint}`", b.loc())


def r6_injective_name(ctx):
    rule = "C20.R6"
    ctx.rule(rule, "the file a disk-cache entry lives in is named by the key string itself")
    bs = ctx.prog.find(self_ty=r"\bDiskCache\b", item="get_file_path", closure=False)
    if not ctx.anchor(rule, bs, "DiskCache::get_file_path"):
        return
    b = bs[0]
    ctx.saw(b)
    sinks = [c for c in b.calls if c.bb in b.live_blocks() and SINK.search(c.name)]
    rets = set(b.return_blocks())
    # the last path component on each path: sinks from which no other sink is reachable
    last = [c for c in sinks if not any(o.bb != c.bb and o.bb in b.reachable(b.succ[c.bb]) for o in sinks)]
    if not ctx.anchor(rule, last, "final path component in get_file_path"):
        return
    for n, c in enumerate(last):
        srcs, sl = tainted_sources(b, c.args[1])
        has_key = any(s[0].startswith("as_cache_key") for s in srcs)
        # ... and the key string arrives unmodified: a many-to-one rewrite on the way (replace, to_lowercase, trim, truncate, a char filter)
        # maps distinct keys to one file name while the in-memory index still keeps them apart
        LOSSY_STR = re.compile(r"str>?::(replace|replacen|to_lowercase|to_uppercase|to_ascii_lowercase|to_ascii_uppercase|trim\w*|split\w*|chars|char_indices|bytes|escape_\w+)$|"
                               r"String::(truncate|retain|replace_range|drain|pop|remove)$|Iterator>?::(filter|map|take|skip|collect)$")
        lossy = [x for x in (sl.calls if sl else []) if LOSSY_STR.search(x.name) or LOSSY_STR.search(x.orig_name or "")] if has_key else []
        ctx.check(not lossy, rule, [b.id, "final-component-verbatim", n], "the key string reaches the file name unmodified",
                  "DiskCache::get_file_path rewrites the key string with %s before using it as the file name: the rewrite is many-to-one (e.g. '/' and '_' both "
                  "become '_'), so two distinct keys the cache keeps apart in its index share one file - get returns the other key's value, remove deletes it" %
                  (lossy[0].name.split("::")[-1] if lossy else ""), c.loc(), sample={"final_component_at": c.loc()})
        ctx.check(has_key, rule, [b.id, "final-component", n], "final component contains the key string",
                  "DiskCache::get_file_path names the entry's file after something other than the full key string (only an integer digest of it reaches the final "
                  "component): the digest is not injective, so two distinct well-formed keys share one file and a get for one returns the other's bytes", c.loc(),
                  sample={"final_component_at": c.loc(), "contains_key_string": has_key})


KEY_FILES = ["crates/cascette-cache/src/key.rs", "crates/cascette-cache/src/disk_cache.rs", "crates/cascette-protocol/src/cache.rs"]


def r7_fixed_width_hex(ctx):
    """key strings and file names are made of hash bytes written as hex: a piece that consists of nothing but a hex placeholder is
    glued to its neighbours by the caller (a per-byte loop), so it must be fixed width (`{:02x}`) - `{:x}` drops the leading zero of
    bytes below 0x10 and two different hashes give the same key / file name"""
    import os
    from . import extract
    from .c15 import astx_records, PLACEHOLDER
    rule = "C20.R7"
    ctx.rule(rule, "in the key / file-name builders every format template that is only a hex placeholder has a zero-padded width")
    files = [os.path.join(extract.src_root(), f) for f in KEY_FILES if os.path.exists(os.path.join(extract.src_root(), f))]
    if not ctx.anchor(rule, len(files) == len(KEY_FILES), "key builder source files"):
        return
    recs = astx_records(files)
    n = 0
    for r in recs:
        if r.get("rec") != "macro" or r.get("name") not in ("format", "write", "writeln", "format_args", "print", "println"):
            continue
        t = r.get("template", "")
        phs = PLACEHOLDER.findall(t)
        hexes = [ph for ph in phs if re.search(r":[^}]*[xX]\??$", ph)]
        if not hexes:
            continue
        n += 1
        bare = t.strip() == "{%s}" % hexes[0] if len(phs) == 1 else False
        padded = all(re.search(r":0\d+[xX]$", ph) for ph in hexes)
        where = "%s:%s" % (r.get("file", "?"), r.get("line", "?"))
        ctx.check(padded or not bare, rule, [os.path.basename(str(r.get("file", ""))), r.get("fn", "?"), "hex-piece-fixed-width"], "hex piece has a fixed width",
                  "%s::%s writes a key piece with the template %r: the piece is nothing but a variable-width hex number, so consecutive pieces run together - bytes "
                  "01 23 and 12 03 both give `123`; two distinct hashes share one cache key / file name and overwrite each other" % (r.get("impl") or "", r.get("fn"), t),
                  where, sample={"template": t})
    ctx.floor(rule, n, 1, "hex placeholders in key / file-name builders")


def run(ctx):
    r7_fixed_width_hex(ctx)
    r1_path_taint(ctx)
    r1b_extension(ctx)
    r2_const_slices(ctx)
    r4_key_identity(ctx)
    r5_endpoint_whitelist(ctx)
    r6_injective_name(ctx)


from .selftest import for_families as _ff  # noqa: E402
selftest = _ff(['slice', 'taint'])
