"""Shared rule primitives (E-gate, E-dom helpers) on top of facts.py."""
import re, collections
from .facts import op_local, op_place, op_const, Slice, uses_of_local, place_fields, place_str


def copies_of(body, local, allow_not=False):
    """locals that hold a plain copy/move of `local` (transitively), optionally through `Not`.
    Returns dict local -> inverted? (bool)"""
    out = {local: False}
    changed = True
    while changed:
        changed = False
        for i, j, s in body.stmts():
            if len(s["p"]) != 1:
                continue
            d = s["p"][0]
            if d in out:
                continue
            r = s["r"]
            if r["k"] == "Use":
                o = r["o"][0]
                if o["k"] in ("cp", "mv") and len(o["p"]) == 1 and o["p"][0] in out:
                    out[d] = out[o["p"][0]]
                    changed = True
            elif allow_not and r["k"] == "Un" and r["op"] == "Not":
                o = r["o"][0]
                if o["k"] in ("cp", "mv") and len(o["p"]) == 1 and o["p"][0] in out:
                    out[d] = not out[o["p"][0]]
                    changed = True
    return out


def bool_switches(body, local):
    """Switch terminators deciding on the bool in `local` (through copies and `!`).
    Returns list of (bb, true_target, false_target)."""
    cps = copies_of(body, local, allow_not=True)
    res = []
    live = body.live_blocks()
    for i, b in enumerate(body.blocks):
        if i not in live:
            continue
        t = b["t"]
        if t["k"] != "Switch":
            continue
        l = op_local(t["d"])
        if l is None or l not in cps or len(t["d"]["p"]) != 1:
            continue
        inv = cps[l]
        zero = None
        for v, tgt in t["v"]:
            if int(v) == 0:
                zero = tgt
        other = t["o"]
        if zero is None:
            continue
        tt, ft = (other, zero)
        if inv:
            tt, ft = ft, tt
        res.append((i, tt, ft))
    return res


TRY_BRANCH = re.compile(r"\bTry>?::branch$")


def enum_switches(body, local, through_try=True):
    """Switch terminators on the discriminant of the enum value held in `local` (directly, through
    copies/moves, references, or through `Try::branch`).
    Returns list of (bb, {variant_index: target}, otherwise_target, via_try)."""
    holders = {local: False}
    changed = True
    while changed:
        changed = False
        for i, j, s in body.stmts():
            d = s["p"][0]
            if len(s["p"]) != 1 or d in holders:
                continue
            r = s["r"]
            src = None
            if r["k"] == "Use" and r["o"][0]["k"] in ("cp", "mv") and len(r["o"][0]["p"]) == 1:
                src = r["o"][0]["p"][0]
            elif r["k"] == "Ref" and len(r["p"]) == 1:
                src = r["p"][0]
            if src in holders:
                holders[d] = holders[src]
                changed = True
        if through_try:
            for c in body.calls:
                if TRY_BRANCH.search(c.name) or TRY_BRANCH.search(c.orig_name):
                    a = op_local(c.args[0]) if c.args else None
                    if a in holders and c.dest[0] not in holders and len(c.dest) == 1:
                        holders[c.dest[0]] = True
                        changed = True
    # discriminant reads
    discr = {}
    for i, j, s in body.stmts():
        r = s["r"]
        if r["k"] == "Discr":
            p = r["p"]
            base = p[0]
            # allow deref of a reference holder
            if base in holders and all(e == "*" for e in p[1:]):
                discr[s["p"][0]] = holders[base]
    res = []
    live = body.live_blocks()
    for i, b in enumerate(body.blocks):
        if i not in live:
            continue
        t = b["t"]
        if t["k"] != "Switch":
            continue
        l = op_local(t["d"])
        if l in discr and len(t["d"]["p"]) == 1:
            m = {int(v): tgt for v, tgt in t["v"]}
            res.append((i, m, t["o"], discr[l]))
    return res


POLL = re.compile(r"future::Future>?::poll$")
INTO_FUTURE = re.compile(r"future::IntoFuture>?::into_future$")
PIN_NEW = re.compile(r"\bPin::<Ptr>::new_unchecked$")


def awaited(body, call):
    """For a call that creates a future which is awaited in the same body: the (bb, local) where the
    ready value lands (`_r = move ((_p as Ready).0)`), else None."""
    fut = {call.dest[0]}
    changed = True
    polls = set()
    while changed:
        changed = False
        for c in body.calls:
            if not c.args:
                continue
            a = op_local(c.args[0])
            if a in fut and (INTO_FUTURE.search(c.orig_name) or INTO_FUTURE.search(c.name) or PIN_NEW.search(c.name) or
                             re.search(r"\bBox::<T>::pin$|\bDerefMut>::deref_mut$|Pin::<Ptr>::as_mut$", c.name)):
                if c.dest[0] not in fut:
                    fut.add(c.dest[0])
                    changed = True
            if a in fut and (POLL.search(c.orig_name) or POLL.search(c.name)):
                if c.dest[0] not in polls:
                    polls.add(c.dest[0])
                    changed = True
        for i, j, s in body.stmts():
            r = s["r"]
            d = s["p"][0]
            if len(s["p"]) != 1:
                continue
            if r["k"] == "Use" and r["o"][0]["k"] in ("cp", "mv") and len(r["o"][0]["p"]) == 1 and r["o"][0]["p"][0] in fut:
                if d not in fut:
                    fut.add(d)
                    changed = True
            if r["k"] == "Ref" and r["p"][0] in fut and d not in fut:
                fut.add(d)
                changed = True
    for i, j, s in body.stmts():
        r = s["r"]
        if r["k"] == "Use" and r["o"][0]["k"] in ("cp", "mv"):
            p = r["o"][0]["p"]
            if p[0] in polls and any(isinstance(e, dict) and e.get("d") == "Ready" for e in p[1:]):
                return (i, s["p"][0])
    return None


def result_local(body, call):
    """local holding the call's value: the awaited value if the call creates a future that is awaited
    in this body, otherwise the call destination."""
    if body.coroutine:
        aw = awaited(body, call)
        if aw:
            return aw[1], aw[0]
    return call.dest[0], call.bb


def is_discarded(body, local, ignore_drop=True):
    us = uses_of_local(body, local)
    if ignore_drop:
        us = [u for u in us if u[2] != "drop"]
    live = body.live_blocks()
    us = [u for u in us if u[0] in live]
    return len(us) == 0


def return_holders(body, into_local=0):
    """locals whose value is moved/copied (transitively) into `into_local` (default: the return place);
    async-trait bodies return through `__ret`"""
    hs = {into_local}
    changed = True
    while changed:
        changed = False
        for i, j, s in body.stmts():
            if s["p"][0] in hs and len(s["p"]) == 1 and s["r"]["k"] == "Use":
                o = s["r"]["o"][0]
                if o["k"] in ("cp", "mv") and len(o["p"]) == 1 and o["p"][0] not in hs:
                    hs.add(o["p"][0])
                    changed = True
    return hs


def assigns_variant(body, variant, adt_pat=None, into_local=0, with_stmt=False):
    """blocks where `into_local` (default the return place, incl. locals moved into it) is assigned an
    aggregate of enum variant `variant` (e.g. 'Ok', 'Some')"""
    out = []
    hs = return_holders(body, into_local)
    for i, j, s in body.stmts():
        if s["p"][0] not in hs or len(s["p"]) != 1:
            continue
        r = s["r"]
        if r["k"] == "Agg" and r.get("ak") == "adt" and r.get("variant") == variant:
            if adt_pat is None or re.search(adt_pat, r["adt"]):
                out.append((i, j, s) if with_stmt else i)
    return out


def const_bool_assign_blocks(body, local, value):
    out = []
    for i, j, s in body.stmts():
        if s["p"] == [local] and s["r"]["k"] == "Use":
            c = s["r"]["o"][0]
            if c["k"] == "c" and c.get("ty") == "bool" and "v" in c and int(c["v"]) == (1 if value else 0):
                out.append(i)
    return out


def path_exists(body, src_blocks, dst_blocks, avoid=()):
    """is some dst block reachable from some src block (inclusive) without entering `avoid`?"""
    r = body.reachable(list(src_blocks), avoid=avoid)
    return bool(r & set(dst_blocks))


def must_pass(body, src, dst_blocks, through_blocks):
    """every path from block `src` to any block in dst passes a block in `through`"""
    r = body.reachable([src], avoid=set(through_blocks))
    return not (r & set(dst_blocks))


def field_writes(body, field, base_local=None):
    """assign statements whose destination place projects field `field` (by name)"""
    out = []
    for i, j, s in body.stmts():
        p = s["p"]
        fs = place_fields(p)
        if fs and fs[-1] == field and (base_local is None or p[0] == base_local):
            out.append((i, j, s))
    return out


def field_reads(body, field):
    """(bb, idx) of statements/terminators reading a place that projects `field`"""
    out = []

    def has(p):
        return field in place_fields(p)
    for i, b in enumerate(body.blocks):
        for j, s in enumerate(b["s"]):
            r = s["r"]
            if "p" in r and has(r["p"]):
                out.append((i, j))
            for o in r.get("o", []):
                if o["k"] in ("cp", "mv") and has(o["p"]):
                    out.append((i, j))
        t = b["t"]
        if t["k"] == "Call":
            for o in t["a"]:
                if o["k"] in ("cp", "mv") and has(o["p"]):
                    out.append((i, len(b["s"])))
        elif t["k"] == "Switch" and t["d"]["k"] in ("cp", "mv") and has(t["d"]["p"]):
            out.append((i, len(b["s"])))
    return out


def receiver_field(body, call, argi=0):
    """field-name chain that the receiver argument of a call refers to, following refs/derefs/copies and
    transparent deref calls: e.g. `self.storage.remove(k)` -> ('storage',)"""
    op = call.args[argi] if len(call.args) > argi else None
    if op is None:
        return ()
    sl = Slice(body, [op_local(op)] if op_local(op) is not None else [])
    best = ()
    fs = place_fields(op["p"]) if op["k"] in ("cp", "mv") else []
    if fs:
        best = tuple(fs)
    for f in sl.fields:
        if len(f) > len(best):
            best = f
    return best


def receiver_fields_all(body, call, argi=0):
    op = call.args[argi] if len(call.args) > argi else None
    if op is None or op_local(op) is None:
        return set()
    sl = Slice(body, [op_local(op)])
    out = set(sl.fields)
    fs = place_fields(op["p"])
    if fs:
        out.add(tuple(fs))
    return out


def forward_calls(body, local, through=None):
    """calls that receive (a move/copy/reference of) the value in `local` as an argument; values returned by
    calls matching `through` keep carrying it (iterator adapters, conversions)."""
    holders = {local}
    hits = []
    seen_calls = set()
    changed = True
    while changed:
        changed = False
        for i, j, s in body.stmts():
            d = s["p"][0]
            if d in holders or len(s["p"]) != 1:
                continue
            r = s["r"]
            src = None
            if r["k"] in ("Use", "Cast") and r["o"][0]["k"] in ("cp", "mv"):
                src = r["o"][0]["p"][0]
            elif r["k"] in ("Ref", "RawPtr"):
                src = r["p"][0]
            if src in holders:
                holders.add(d)
                changed = True
        for c in body.calls:
            if c.bb in seen_calls:
                continue
            if any(op_local(a) in holders for a in c.args):
                seen_calls.add(c.bb)
                hits.append(c)
                if through is not None and (through.search(c.name) or through.search(c.orig_name)):
                    if c.dest[0] not in holders:
                        holders.add(c.dest[0])
                        changed = True
    return hits


def zero_read_leaves_loop(b, c):
    """for a count-returning read call `c` that sits in a loop: is there a test of the call's OWN count (a copy of the Ok payload,
    not a sum derived from it) against zero whose zero edge cannot come back to the call?"""
    from .facts import op_const
    rl, _ = result_local(b, c)
    hold = set(copies_of(b, rl))
    for x in b.calls:
        if re.search(r"\bTry>?::branch$", x.orig_name or x.name) and x.args and op_local(x.args[0]) in hold:
            hold |= set(copies_of(b, x.dest[0]))
    counts = set()
    for i, j, st in b.stmts():
        r = st["r"]
        if r["k"] == "Use" and r["o"][0]["k"] in ("cp", "mv"):
            pp = r["o"][0]["p"]
            if pp[0] in hold and any(isinstance(e, dict) and e.get("d") in ("Ok", "Continue") for e in pp[1:]):
                counts |= set(copies_of(b, st["p"][0]))
    for i, j, st in b.stmts():
        r = st["r"]
        if r["k"] == "Bin" and r["op"] in ("Eq", "Ne", "Gt", "Le"):
            ls = [op_local(o) for o in r["o"]]
            cs = [op_const(o) for o in r["o"]]
            if any(l in counts for l in ls if l is not None) and any(v == 0 for v in cs if v is not None):
                for (sbb, tt, ft) in bool_switches(b, st["p"][0]):
                    zero_edge = tt if r["op"] in ("Eq", "Le") else ft
                    if c.bb not in b.reachable([zero_edge]):
                        return True
    for bi, blk in enumerate(b.blocks):
        t = blk["t"]
        if t["k"] == "Switch" and op_local(t["d"]) in counts:
            for vv, tg in t["v"]:
                if int(vv) == 0 and c.bb not in b.reachable([tg]):
                    return True
    return False


def gate_of(b, loop_blocks, bb):
    """`i < len && <thing at bb>`: the nearest comparison block inside the loop that dominates bb (the bounds test that may
    legitimately short-circuit it); bb itself when there is none"""
    cands = [i for i, j, st in b.stmts() if i in loop_blocks and i != bb and st["r"]["k"] == "Bin" and st["r"]["op"] in ("Lt", "Gt", "Le", "Ge")
             and b.dominates(i, bb)]
    return max(cands, key=lambda g: len(b.dom.get(g, ()))) if cands else bb


def read_count_uses(b, c):
    """how the byte count returned by a `read` call is used: {'cmp', 'arith', 'arg', 'ret'} (a count that is only compared was not
    used to bound what is consumed: a short read goes unnoticed)"""
    rl, _ = result_local(b, c)
    hold = set(copies_of(b, rl))
    for x in b.calls:
        if (re.search(r"\bTry>?::branch$", x.orig_name or x.name) or re.search(r"Result::<T, E>::map_err$", x.name)) and x.args and op_local(x.args[0]) in hold:
            hold |= set(copies_of(b, x.dest[0]))
    counts = set()
    for i, j, st in b.stmts():
        r = st["r"]
        if r["k"] == "Use" and r["o"][0]["k"] in ("cp", "mv"):
            pp = r["o"][0]["p"]
            if pp[0] in hold and any(isinstance(e, dict) and e.get("d") in ("Ok", "Continue") for e in pp[1:]):
                counts |= set(copies_of(b, st["p"][0]))
    uses = set()
    if not counts:
        return uses, counts
    rh = return_holders(b)
    for i, j, st in b.stmts():
        r = st["r"]
        ls = [op_local(o) for o in r.get("o", []) if op_local(o) is not None]
        if not any(l in counts for l in ls):
            continue
        if r["k"] == "Bin" and r["op"] in ("Eq", "Ne", "Lt", "Le", "Gt", "Ge"):
            uses.add("cmp")
        elif r["k"] == "Bin":
            uses.add("arith")
        elif r["k"] == "Agg":
            uses.add("arg")
        elif r["k"] in ("Use", "Cast") and st["p"][0] in rh:
            uses.add("ret")
    for x in b.calls:
        if any(op_local(a) in counts for a in x.args):
            uses.add("arg")
    if counts & rh:
        uses.add("ret")
    return uses, counts


def succ_without_constant_option_tests(b):
    """successor lists with the infeasible edge of `match None::<T> { Some(x) => .., None => .. }` removed - the type-inference prelude that
    #[async_trait] puts in front of every method body (`if let Some(__ret) = None::<Ret> { return __ret; }`): a switch on the discriminant of a
    local that the same block just assigned a constant Option / Result variant"""
    idx = {"None": 0, "Some": 1, "Ok": 0, "Err": 1}
    succ2 = [list(v) for v in b.succ]
    for i, blk in enumerate(b.blocks):
        t = blk["t"]
        if t["k"] != "Switch" or t["d"]["k"] not in ("cp", "mv") or len(t["d"]["p"]) != 1:
            continue
        dl = t["d"]["p"][0]
        disc = [s_ for s_ in blk["s"] if s_["p"] == [dl] and s_["r"]["k"] == "Discr" and len(s_["r"]["p"]) == 1]
        if not disc:
            continue
        src = disc[-1]["r"]["p"][0]
        aggs = [s_ for s_ in blk["s"] if s_["p"] == [src]]
        if len(aggs) != 1 or aggs[0]["r"]["k"] != "Agg" or aggs[0]["r"].get("variant") not in idx or not re.search(r"option::Option$|result::Result$", aggs[0]["r"].get("adt", "")):
            continue
        if len(b.defs.get(src, [])) != 1:
            continue
        v = idx[aggs[0]["r"]["variant"]]
        tgt = [x[1] for x in t["v"] if int(x[0]) == v]
        succ2[i] = tgt if tgt else [t["o"]]
    return succ2
