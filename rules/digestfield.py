"""E-digest - a stored digest field is computed LAST.

Discovery: a statement `obj.H = obj.hasher(..)` (or `H = hasher(&obj)`) where the callee's closure computes a digest (MD5 / lookup3 / SHA) establishes that
field H of the struct is a checksum over the struct's other fields - those the hasher's closure reads. Obligation: in every body, after a write to one of
the covered fields, every path to the function's exit passes a new assignment of H on the same object (directly, or through a callee that always
re-computes it for the object it is given). A field written after the hash was taken is serialised next to a digest of its OLD value, and the parser -
which verifies that digest - rejects the writer's own output."""
import re
from .facts import op_local

DIGEST = re.compile(r"\b(ContentKey|EncodingKey)::from_data$|^md5::|\bmd5::compute$|\bMd5\b|jenkins::hashlittle|\bJenkins96::hash$|\bSha(1|256|512)\b|\bDigest>?::(update|finalize|digest)$|crc32|adler")


def _fields(place):
    return [(e.get("a"), e["n"]) for e in place[1:] if isinstance(e, dict) and "f" in e]


def _ref_root(b, l, depth=0):
    """(root local, field chain) a reference local points into"""
    if l is None or depth > 6:
        return None
    for (bb, idx, kind, payload) in b.defs.get(l, []):
        if kind == "assign":
            r = payload["r"]
            if r["k"] in ("Ref", "RawPtr"):
                p = r["p"]
                if len(p) == 2 and p[1] == "*":
                    return _ref_root(b, p[0], depth + 1) or (p[0], [])
                return (p[0], _fields(p))
            if r["k"] in ("Use", "Cast") and r["o"][0]["k"] in ("cp", "mv") and len(r["o"][0]["p"]) == 1:
                return _ref_root(b, r["o"][0]["p"][0], depth + 1)
    return (l, []) if 1 <= l <= b.argc else None


def computes_digest(prog, bid, memo, depth=0):
    if bid in memo:
        return memo[bid]
    memo[bid] = False
    b = prog.bodies.get(bid)
    if b is None:
        return False
    hit = any(DIGEST.search(c.name) or DIGEST.search(c.orig_name or "") for c in b.calls)
    if not hit and depth < 3:
        hit = any(computes_digest(prog, c.id, memo, depth + 1) for c in b.calls if c.local and c.id in prog.bodies)
    memo[bid] = hit
    return hit


def fields_read(prog, bid, adt, depth=0, seen=None):
    seen = seen if seen is not None else set()
    if bid in seen or bid not in prog.bodies:
        return set()
    seen.add(bid)
    b = prog.bodies[bid]
    out = set()
    for blk in b.blocks:
        for st in blk.get("s", []):
            r = st["r"]
            places = [o["p"] for o in r.get("o", []) if o["k"] in ("cp", "mv")] + ([r["p"]] if "p" in r else [])
            for p in places:
                out |= {n for (a, n) in _fields(p) if a == adt}
        t = blk["t"]
        if t["k"] == "Call":
            for o in t["a"]:
                if o["k"] in ("cp", "mv"):
                    out |= {n for (a, n) in _fields(o["p"]) if a == adt}
    if depth < 2:
        for c in b.calls:
            if c.local and c.id in prog.bodies:
                out |= fields_read(prog, c.id, adt, depth + 1, seen)
    return out


def discover(prog, krates):
    """-> {(adt, H): {"hashers": {fn id}, "covered": {field names}}}"""
    memo = {}
    rel = {}
    for b in prog.bodies.values():
        if b.krate not in krates or b.expn:
            continue
        for (i, j, st) in b.stmts():
            p = st["p"]
            fs = _fields(p)
            if not fs or not isinstance(p[-1], dict) or "f" not in p[-1] or fs[-1][0] is None:
                continue
            r = st["r"]
            if r["k"] not in ("Use", "Cast") or op_local(r["o"][0]) is None:
                continue
            src = op_local(r["o"][0])
            call = None
            for (bb, idx, kind, payload) in b.defs.get(src, []):
                if kind == "call":
                    call = payload
            if call is None or not call.local or call.id not in prog.bodies or not computes_digest(prog, call.id, memo):
                continue
            # the hasher is given the same object
            same = False
            for a in call.args:
                rr = _ref_root(b, op_local(a)) if op_local(a) is not None else None
                if rr and rr[0] == p[0]:
                    same = True
            if not same:
                continue
            adt, h = fs[-1]
            cov = fields_read(prog, call.id, adt) - {h}
            if not cov:
                continue
            e = rel.setdefault((adt, h), {"hashers": set(), "covered": set()})
            e["hashers"].add(call.id)
            e["covered"] |= cov
    return rel


def rule_digest_last(ctx, rule, krates, floor=0):
    ctx.rule(rule, "a digest field that some body assigns from a hash over its own struct (by discovery) is re-assigned after every later write to a covered field, on every path to the exit")
    prog = ctx.prog
    rel = discover(prog, krates)
    n = 0
    for (adt, h), info in sorted(rel.items(), key=lambda kv: str(kv[0])):
        short = adt.split("::")[-1]
        # callees that always (re)compute H for the object they are given
        always = set()
        for b in prog.bodies.values():
            if b.krate not in krates or b.argc < 1:
                continue
            hb = {i for (i, j, st) in b.stmts() if _fields(st["p"])[-1:] == [(adt, h)] and st["p"][0] == 1}
            if hb and not (b.reachable([0], avoid=hb) & set(b.return_blocks())):
                always.add(b.id)
        for b in sorted(prog.bodies.values(), key=lambda x: x.id):
            if b.krate not in krates or b.expn or b.id in info["hashers"]:
                continue
            live = b.live_blocks()
            writes = []
            for (i, j, st) in b.stmts():
                if i not in live:
                    continue
                fs = _fields(st["p"])
                if fs and fs[-1][0] == adt and fs[-1][1] in info["covered"] and isinstance(st["p"][-1], dict) and st["p"][-1].get("n") == fs[-1][1]:
                    writes.append((i, j, st))
            if not writes:
                continue
            for (i, j, st) in writes:
                base = st["p"][0]
                hass = {}
                for (i2, j2, s2) in b.stmts():
                    if _fields(s2["p"])[-1:] == [(adt, h)] and s2["p"][0] == base:
                        hass.setdefault(i2, []).append(j2)
                for c in b.calls:
                    if c.id in always and c.args and c.bb in live:
                        rr = _ref_root(b, op_local(c.args[0])) if op_local(c.args[0]) is not None else None
                        if rr and rr[0] == base:
                            hass.setdefault(c.bb, []).append(10 ** 6)
                n += 1
                ctx.saw(b)
                # exits that hand the object on: the Ok returns of a fallible function (an Err return drops it), every return otherwise
                from .lib import assigns_variant
                exits = set(b.return_blocks())
                if (b.local_ty(0) or "").startswith("core::result::Result<"):
                    oks_ = set(assigns_variant(b, "Ok", adt_pat=r"result::Result"))
                    if oks_:
                        exits = oks_
                if i in hass and any(jj > j for jj in hass[i]):
                    ok = True
                else:
                    ok = not ((b.reachable(b.succ[i], avoid=set(hass)) | {i}) & exits)
                ctx.check(ok, rule, [b.id, "%s.%s" % (short, st["p"][-1]["n"]), "digest-recomputed"],
                          "%s.%s is re-assigned after the write" % (short, h),
                          "%s writes %s.%s and can reach its exit without re-computing %s.%s, which %s takes over that field: the struct is serialised with a digest of "
                          "the field's OLD value, and the parser - which verifies it - rejects the writer's own output (ChecksumMismatch) for every value of the "
                          "field other than the one the digest was taken with" %
                          (ctx._stable(b.id), short, st["p"][-1]["n"], short, h, sorted(info["hashers"])[0].split("::")[-1]),
                          "%s:%d" % (b.file, st.get("l", 0)), sample={"struct": adt, "digest_field": h, "covered": sorted(info["covered"])[:8]})
    if floor:
        ctx.floor(rule, n, floor, "writes to digest-covered fields")
    return n
