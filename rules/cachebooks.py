"""Shared analysis for C10/C11: map mutations of the caches and the counter updates paired with them."""
import re
from .facts import op_local, Slice, place_fields, op_const
from .lib import bool_switches, enum_switches, copies_of

RECV_TRANSPARENT = re.compile(
    r"\bDeref>?::deref$|\bDerefMut>?::deref_mut$|\bRwLock::<T>::(read|write)$|\bMutex::<T>::lock$|\bTry>?::branch$|"
    r"\bResult::<T, E>::(map_err|unwrap|expect|ok)$|\bClone>?::clone$|\bArc::<T>::clone$|\bAsRef<.*>>?::as_ref$")

MAP_OPS = re.compile(r"^dashmap::DashMap::<K, V, S>::(remove|remove_if|insert|clear|retain)$|"
                     r"\bHashMap::<K, V, S, A>::(remove|insert|clear|retain|remove_entry)$|\bBTreeMap::<K, V, A>::(remove|insert|clear|retain)$")
ATOMIC_OPS = re.compile(r"\bAtomic::<\w+>::(fetch_add|fetch_sub|store|swap|fetch_update)$|\bAtomic(Usize|U64|U32|I64)::(fetch_add|fetch_sub|store|swap)$")


def recv_fields(body, call, argi=0):
    """field names (incl. `upvar:x`) that the receiver of a call is reached through"""
    op = call.args[argi] if len(call.args) > argi else None
    if op is None or op_local(op) is None:
        return set()
    sl = Slice(body, [op_local(op)], transparent=RECV_TRANSPARENT)
    out = set()
    for f in sl.fields:
        out |= set(f)
    if op["k"] in ("cp", "mv"):
        out |= set(place_fields(op["p"]))
    return out


def on_field(fields, name):
    return name in fields or ("upvar:" + name) in fields


def option_edges(body, local):
    """[(some_target, none_target)] for branches on the Option in `local`: `if let Some`, match, is_some()/is_none()"""
    out = []
    for (sbb, m, other, via) in enum_switches(body, local, through_try=False):
        some = m.get(1, other)
        none = m.get(0, other)
        if some is not None and none is not None and some != none:
            out.append((some, none))
    holders = set(copies_of(body, local))
    refs = set()
    for i, j, s in body.stmts():
        if s["r"]["k"] == "Ref" and s["r"]["p"][0] in holders and len(s["r"]["p"]) == 1:
            refs.add(s["p"][0])
    for c in body.calls:
        if c.args and op_local(c.args[0]) in (refs | holders):
            if re.search(r"\bOption::<T>::is_some$", c.name):
                for (sbb, tt, ft) in bool_switches(body, c.dest[0]):
                    out.append((tt, ft))
            elif re.search(r"\bOption::<T>::is_none$", c.name):
                for (sbb, tt, ft) in bool_switches(body, c.dest[0]):
                    out.append((ft, tt))
    return out


class MapOp:
    def __init__(self, body, call, op):
        self.body = body
        self.call = call
        self.op = op


def map_ops(body, map_field):
    out = []
    live = body.live_blocks()
    for c in body.calls:
        if c.bb not in live:
            continue
        m = MAP_OPS.search(c.name)
        if not m:
            continue
        if on_field(recv_fields(body, c), map_field):
            out.append(MapOp(body, c, c.name.split("::")[-1]))
    return out


def counter_ops(body, counter_fields):
    """calls to atomic RMW/store whose receiver is one of the counter fields: list of (call, field, op)"""
    out = []
    live = body.live_blocks()
    for c in body.calls:
        if c.bb not in live:
            continue
        if not ATOMIC_OPS.search(c.name):
            continue
        fs = recv_fields(body, c)
        for f in counter_fields:
            if on_field(fs, f):
                out.append((c, f, c.name.split("::")[-1]))
    return out


def upvar_origin(prog, body, upvar):
    """for a closure/coroutine body: slice of the captured value `upvar` in the parent body"""
    par = prog.bodies.get(body.parent) if body.parent else None
    if par is None:
        return None, None
    # the closure aggregate in the parent: operands in capture order; find by debug name
    for l, d in enumerate(par.locals):
        if d.get("n") == upvar:
            return par, Slice(par, [l], transparent=RECV_TRANSPARENT)
    return par, None
