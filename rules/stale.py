"""E-stale - a snapshot of an object's field that is used to write the object after a call that may have changed that field.

    let old = self.f;          // snapshot
    self.g();                  // g (or something it calls on self) writes self.f, and does not receive `old`
    self.h[..] = .. old ..;    // the object is written from the snapshot

The second step makes `old` a description of a state that no longer exists; writing it back links a structure to a dead element or restores a value
that was just replaced. A call that receives the snapshot as an argument (`self.unlink(tail)`) acts on it knowingly and is not counted.
Decided per `&mut self` method; field-write summaries of the callees are transitive over the methods of the same type."""
import re
from .facts import op_local, place_fields


def self_field_path(p):
    """('header', 'mru_head') for a place rooted at the self reference (*_1).header.mru_head; None otherwise"""
    if not p or p[0] != 1 or len(p) < 3 or p[1] != "*":
        return None
    names = []
    for e in p[2:]:
        if isinstance(e, dict) and "f" in e:
            names.append(e["n"])
        else:
            break
    return tuple(names) if names else None


def writes_of(prog, b, memo, by_type, stack=()):
    """field paths of self that body b may write (direct assignments, &mut borrows, callee methods on self)"""
    if b.id in memo:
        return memo[b.id]
    if b.id in stack:
        return set()
    out = set()
    for (i, j, st) in b.stmts():
        fp = self_field_path(st["p"])
        if fp:
            out.add(fp)
        r = st["r"]
        if r["k"] in ("Ref", "RawPtr") and r.get("mut"):
            fp = self_field_path(r["p"])
            if fp:
                out.add(fp)
    for c in b.calls:
        if c.id in by_type and c.args and is_self_arg(b, c.args[0]):
            out |= writes_of(prog, by_type[c.id], memo, by_type, stack + (b.id,))
    memo[b.id] = out
    return out


def is_self_arg(b, o):
    """the operand is the self reference or a reborrow of it"""
    l = op_local(o)
    if l is None:
        return False
    if l == 1:
        return True
    for (bb, idx, kind, payload) in b.defs.get(l, []):
        if kind == "assign":
            r = payload["r"]
            if r["k"] in ("Ref", "RawPtr") and r["p"][:2] == [1, "*"] and len(r["p"]) == 2:
                return True
            if r["k"] == "Use" and r["o"][0]["k"] in ("cp", "mv") and r["o"][0]["p"] == [1]:
                return True
    return False


def overlaps(a, w):
    n = min(len(a), len(w))
    return a[:n] == w[:n]


def stale_writebacks(prog, b, by_type, memo):
    """[(snapshot line, field path, call, use line)]"""
    out = []
    live = b.live_blocks()
    for (i, j, st) in b.stmts():
        if i not in live or len(st["p"]) != 1:
            continue
        r = st["r"]
        if r["k"] != "Use" or r["o"][0]["k"] != "cp":
            continue
        fp = self_field_path(r["o"][0]["p"])
        if not fp:
            continue
        ty = b.local_ty(st["p"][0]) or ""
        if not re.match(r"^(u8|u16|u32|u64|usize|i8|i16|i32|i64|isize)$", ty):
            continue
        snap = st["p"][0]
        # forward copies of the snapshot
        cls = {snap}
        changed = True
        while changed:
            changed = False
            for (_i, _j, s2) in b.stmts():
                r2 = s2["r"]
                if len(s2["p"]) == 1 and s2["p"][0] not in cls and r2["k"] in ("Use", "Cast") and op_local(r2["o"][0]) in cls and len(r2["o"][0]["p"]) == 1:
                    cls.add(s2["p"][0])
                    changed = True
        after_snap = b.reachable(b.succ[i]) | {i}
        for c in b.calls:
            if c.bb not in live or c.bb not in after_snap or c.id not in by_type or not c.args or not is_self_arg(b, c.args[0]):
                continue
            if c.bb == i and False:
                continue
            if any(op_local(a) in cls for a in c.args[1:]):
                continue        # the callee acts on the snapshot knowingly
            w = writes_of(prog, by_type[c.id], memo, by_type)
            if not any(overlaps(fp, x) for x in w):
                continue
            # the snapshot must not be re-taken between the call and the use: any re-assignment of `snap` after the call makes a new snapshot
            after_call = b.reachable(b.succ[c.bb])
            if i in after_call:
                continue        # the snapshot statement is in a loop behind the call: re-taken
            for (ui, uj, us) in b.stmts():
                if ui not in after_call or ui not in live:
                    continue
                dst = us["p"]
                wr_self = self_field_path(dst) is not None or (len(dst) > 1 and dst[0] != 1 and any(e == "*" for e in dst[1:]) and _derives_from_self(b, dst[0]))
                if not wr_self:
                    continue
                used = any(op_local(o) in cls for o in us["r"].get("o", [])) or any(isinstance(e, dict) and e.get("i") in cls for e in dst[1:])
                # an aggregate built from the snapshot and stored into the object
                if not used and us["r"]["k"] == "Use" and op_local(us["r"]["o"][0]) is not None:
                    src = op_local(us["r"]["o"][0])
                    for (bb_, idx_, kind_, pay_) in b.defs.get(src, []):
                        if kind_ == "assign" and pay_["r"]["k"] == "Agg" and any(op_local(o) in cls for o in pay_["r"].get("o", [])):
                            used = True
                if used:
                    out.append((st.get("l", 0), fp, c, us.get("l", 0)))
                    break
    return out


def _derives_from_self(b, l, depth=0):
    """local l is a reference obtained from self (index_mut / get_mut / &mut self.x ...)"""
    if depth > 5:
        return False
    for (bb, idx, kind, payload) in b.defs.get(l, []):
        if kind == "assign":
            r = payload["r"]
            if r["k"] in ("Ref", "RawPtr") and r["p"][0] == 1:
                return True
            if r["k"] in ("Ref", "RawPtr", "Use") and (r.get("p") or r["o"][0].get("p")):
                src = (r.get("p") or r["o"][0]["p"])[0]
                if src != l and _derives_from_self(b, src, depth + 1):
                    return True
        elif kind == "call":
            c = payload
            if c.args and op_local(c.args[0]) is not None and _derives_from_self(b, op_local(c.args[0]), depth + 1):
                return True
    return False


def rule_stale(ctx, rule, krate, file_pat, floor=0):
    ctx.rule(rule, "no snapshot of a self field is written back into the object after a self-method call that may have changed that field (and did not receive the snapshot)")
    prog = ctx.prog
    by_type = {}
    for b in prog.bodies.values():
        if b.krate == krate and not b.root and re.search(file_pat, b.file or "") and b.argc >= 1 and re.match(r"^&mut ", b.local_ty(1) or "") and b.rec.get("self_ty"):
            by_type[b.id] = b
    memo = {}
    n = 0
    for b in sorted(by_type.values(), key=lambda x: x.id):
        if not any(c.id in by_type for c in b.calls):
            continue
        n += 1
        ctx.saw(b)
        bad = stale_writebacks(prog, b, by_type, memo)
        ctx.check(not bad, rule, [b.id, "stale-snapshot"], "no stale snapshot written back",
                  "%s copies self.%s (line %s), then calls %s - which can change that field and is not given the copy - and afterwards writes the object from the "
                  "copy (line %s): when the call did change the field (the list had one element, the slot was the one just evicted) the object is linked to a state "
                  "that no longer exists" % (ctx._stable(b.id), ".".join(bad[0][1]) if bad else "?", bad[0][0] if bad else "?",
                                             bad[0][2].name.split("::")[-1] if bad else "?", bad[0][3] if bad else "?"),
                  bad[0][2].loc() if bad else b.loc(), sample={"method": b.id})
    if floor:
        ctx.floor(rule, n, floor, "&mut self methods that call other methods of their type")
    return n
