"""C04 - local storage returns every stored object byte-for-byte (structural clauses)."""
import re
from .facts import op_local, Slice, place_fields, op_const, TRANSPARENT_CALLS
from .lib import (enum_switches, must_pass, bool_switches, copies_of, assigns_variant, result_local)
from .c05 import enum_switches_through, ITER_ADAPT, REVERSE

CRATES = ["cascette_client_storage", "cascette_formats", "cascette_crypto"]

EXPLANATION = (
    "Static rules over the MIR of cascette-client-storage. R1: in the routine that writes archive bytes and keeps a read "
    "snapshot (mmap), every path from the data write to a normal return either re-establishes the snapshot (remap) or leaves "
    "through a branch that compares nothing but the fresh file length with the mapped length - any other skip condition makes a "
    "successful write unreadable because reads are bounded by the mapped length. R2: bytes returned by a BLTE-decoding function "
    "never flow into another BLTE-decoding function (decode at most once; a second, sniffing decode alters stored content that "
    "itself looks like BLTE). R3: write-position and index bookkeeping is reachable only through the Ok edge of the archive write, "
    "and the values stored derive from that write's result. R4: the reader tests for the writer's own record layout (local header "
    "+ BLTE at 0x1E) before the bare-BLTE layout. R5: index de-duplication on flush/iteration keeps the newest record per key.")

ASSUMPTIONS = ["byte equality, reopen behaviour and content mimicking a local header are value-level and not decided"]

CFG = {
    "krate": "cascette_client_storage",
    "writer": ("ArchiveManager", "write_to_archive"),
    "remap_pat": r"ArchiveManager::remap_archive$",
    "data_write_pat": r"\bWrite>?::write_all$",
    "fresh_len_pat": r"ArchiveManager::get_file_size$|fs::metadata$|Metadata::len$|\bSeek>?::(seek|stream_position)$",
    "mapped_fields": ("size", "mmap"),
    "blte_parse_pat": r"cascette_formats::blte::.*BlteFile.*::parse$|CascFormat>::parse$",
    "blte_parse_id": r"cascette_formats::blte::",
    "read_content": ("ArchiveManager", "read_content"),
}


def find1(ctx, rule, ty, item, closure=False, coroutine=None):
    bs = ctx.prog.find(self_ty=r"\b%s\b" % ty, item=item, closure=closure)
    bs = [b for b in bs if b.krate == CFG["krate"]]
    if coroutine is not None:
        bs = [b for b in bs if b.coroutine == coroutine]
    if not ctx.anchor(rule, bs, "%s::%s" % (ty, item)):
        return None
    return bs[0]


def r1_remap(ctx, cfg):
    rule = "C04.R1"
    ctx.rule(rule, "read snapshot re-established after every growing write (skip only on a pure fresh-len vs mapped-len comparison)")
    b = find1(ctx, rule, *cfg["writer"])
    if not b:
        return
    ctx.saw(b)
    writes = b.calls_matching(cfg["data_write_pat"])
    remaps = b.calls_matching(cfg["remap_pat"])
    if not (ctx.anchor(rule, writes, "data write in write_to_archive") and ctx.anchor(rule, remaps, "remap_archive call in write_to_archive")):
        return
    w = writes[-1]
    rets = set(b.return_blocks())
    remap_blocks = {c.bb for c in remaps}
    after_w = b.reachable(b.succ[w.bb])
    # error-propagation returns (the `?` Break edges) are not "normal returns": restrict to Ok returns
    okb = set(assigns_variant(b, "Ok"))
    skip_reach = b.reachable(b.succ[w.bb], avoid=remap_blocks)
    if not (skip_reach & okb):
        ctx.ok(rule, [b.id, "always-remaps"], "remap on every successful path", w.loc(), sample={"write": w.loc(), "remap": [c.loc() for c in remaps]})
        return
    # controlling switches: after the write, can reach remap AND can reach Ok while avoiding remap
    ctrl = []
    for i in sorted(after_w):
        t = b.blocks[i]["t"]
        if t["k"] != "Switch":
            continue
        tgts = b.succ[i]
        to_remap = [tg for tg in tgts if b.reachable([tg]) & remap_blocks]
        to_skip = [tg for tg in tgts if b.reachable([tg], avoid=remap_blocks) & okb]
        only_skip = [tg for tg in to_skip if not (b.reachable([tg]) & remap_blocks)]
        if to_remap and to_skip and (only_skip or set(to_remap) != set(to_skip)):
            ctrl.append(i)
    if not ctrl:
        ctx.bad(rule, [b.id, "unconditional-skip"], "write_to_archive has a path from the data write to Ok that never remaps and is not guarded by any test", w.loc())
        return
    for i in ctrl:
        t = b.blocks[i]["t"]
        l = op_local(t["d"])
        sl = Slice(b, [l], transparent=TRANSPARENT_CALLS)
        loc = "%s:%d" % (b.file, t.get("l", 0))
        cmps = [o for o in sl.ops if o[0] in ("Gt", "Ge", "Lt", "Le", "Ne", "Eq")]
        arith = [o[0] for o in sl.ops if o[0] not in ("Gt", "Ge", "Lt", "Le", "Ne", "Eq", "Not")]
        floats = [x for x in sl.locals if b.local_ty(x) in ("f64", "f32")]
        consts = [o for o in sl.consts if ("v" in o or "fv" in o) and o.get("ty") != "bool"]
        fresh = sl.has_call(cfg["fresh_len_pat"])
        mapped = any(sl.has_field(f) for f in cfg["mapped_fields"]) or sl.has_call(r"Mmap.*::len$|\blen$")
        pure = len(cmps) == 1 and not arith and not floats and not consts and fresh and mapped
        ctx.check(pure, rule, [b.id, "skip-condition"],
                  "remap skipped only when the file did not grow past the mapping",
                  "write_to_archive skips remap_archive under a condition other than `fresh file length <= mapped length` "
                  "(comparisons=%d, arithmetic=%s, float=%s, constants=%s, fresh-length=%s, mapped-length=%s): after a write that grows "
                  "the file without satisfying it, read_raw's bounds check against the stale mapping rejects the object that was just "
                  "written successfully" % (len(cmps), sorted(set(arith)), bool(floats), [c.get("v", c.get("fv")) for c in consts][:4], fresh, mapped),
                  loc, sample={"switch": loc, "comparisons": [o[0] for o in cmps]})
    # read side: bounds check uses the mapped length
    rr = find1(ctx, rule, "ArchiveManager", "read_raw")
    if rr:
        ctx.saw(rr)
        uses_mmap_len = any(re.search(r"\blen$", c.name) and any("mmap" in f for f in Slice(rr, [op_local(c.args[0])]).fields) for c in rr.calls if c.args and op_local(c.args[0]) is not None)
        ctx.check(uses_mmap_len, rule, [rr.id, "bounded-by-mapping"], "reads are bounded by the mapped length (premise of R1)",
                  "read_raw no longer bounds reads by the mapping length; R1's premise changed - re-derive the rule", rr.loc(), sample={"read_raw": rr.loc()})


def decoders(ctx, cfg):
    """bodies of the storage crate that (transitively, within the crate) parse a BLTE container"""
    prog = ctx.prog
    direct = set()
    for b in prog.bodies.values():
        if b.krate != cfg["krate"]:
            continue
        for c in b.calls:
            tid = c.id or ""
            if re.search(cfg["blte_parse_pat"], c.name) and ("blte" in c.full.lower() or "Blte" in c.full):
                direct.add(b.id)
    # callers within the crate that forward a byte slice
    dec = set(direct)
    changed = True
    while changed:
        changed = False
        for b in prog.bodies.values():
            if b.krate != cfg["krate"] or b.id in dec:
                continue
            for tgt, how, c in prog.edges.get(b.id, []):
                if tgt in dec and how == "call":
                    dec.add(b.id)
                    changed = True
                    break
    return direct, dec


def returns_bytes(b):
    ty = b.local_ty(0)
    return "Vec<u8>" in ty or "Bytes" in ty


def r2_single_decode(ctx, cfg):
    rule = "C04.R2"
    ctx.rule(rule, "decoded bytes never flow into another BLTE decoder (decode at most once on the read path)")
    direct, dec = decoders(ctx, cfg)
    ctx.floor(rule, len(direct), 1, "functions that parse BLTE in the storage crate")
    prog = ctx.prog
    byte_dec = {d for d in dec if d in prog.bodies and (returns_bytes(prog.bodies[d]) or (prog.bodies[d].root is None and any(
        returns_bytes(prog.bodies[x]) for x in prog.children.get(d, []))))}
    n = 0
    for b in sorted(prog.bodies.values(), key=lambda x: x.id):
        if b.krate != cfg["krate"]:
            continue
        # calls to byte-returning decoders in this body
        srcs = [c for c in b.calls if c.bb in b.live_blocks() and any(t in byte_dec for t in prog.call_targets(c))]
        if not srcs:
            continue
        ctx.saw(b)
        sinks = [c for c in b.calls if c.bb in b.live_blocks() and any(t in dec for t in prog.call_targets(c))]
        for s in srcs:
            n += 1
            ctx.call_sites += 1
            rl, rbb = result_local(b, s)
            # forward: locals derived from the decoded bytes
            der = forward_values(b, rl)
            hit = None
            for k in sinks:
                if k.bb == s.bb:
                    continue
                for a in k.args:
                    l = op_local(a)
                    if l in der and ("u8" in b.local_ty(l)):
                        hit = k
            if hit:
                ctx.bad(rule, [b.id, s.name.split("::")[-1], hit.name.split("::")[-1]],
                        "%s passes the bytes returned by %s (already BLTE-decoded) to %s, which sniffs for a BLTE magic and decodes again: "
                        "stored content that itself is a BLTE container (or carries 'BLTE' at 0x1E) comes back altered" % (b.id, s.name, hit.name),
                        hit.loc(), {"source": s.loc(), "sink": hit.loc()})
            else:
                ctx.ok(rule, [b.id, s.name.split("::")[-1], s.bb], "decoded once", s.loc(),
                       sample={"in": b.id, "decoder_call": s.name, "flows_into_decoder": False})
    ctx.floor(rule, n, 5, "call sites of byte-returning decoders")


def forward_values(b, local):
    """locals that (may) hold the value in `local` or a reference/unwrapped form of it"""
    thr = re.compile(r"\bTry>?::branch$|\bResult::<T, E>::(map_err|unwrap|expect|unwrap_or_else|ok|unwrap_or_default)$|\bDeref(Mut)?>?::deref(_mut)?$|"
                     r"\bAsRef<.*>>?::as_ref$|\bVec::<T, A>::(as_slice|as_ref)$|\bBorrow<.*>>?::borrow$|\bIndex<.*>>?::index$|\bClone>?::clone$|::to_vec$|\bInto<U>>?::into$|\bFrom<.*>>?::from$")
    hs = {local}
    changed = True
    while changed:
        changed = False
        for i, j, s in b.stmts():
            d = s["p"][0]
            if d in hs:
                continue
            r = s["r"]
            src = None
            if r["k"] in ("Use", "Cast") and r["o"][0]["k"] in ("cp", "mv"):
                src = r["o"][0]["p"][0]
            elif r["k"] in ("Ref", "RawPtr"):
                src = r["p"][0]
            if src in hs:
                hs.add(d)
                changed = True
        for c in b.calls:
            if c.dest[0] in hs or not c.args:
                continue
            if (thr.search(c.name) or thr.search(c.orig_name)) and op_local(c.args[0]) in hs:
                hs.add(c.dest[0])
                changed = True
    return hs


def r3_bookkeeping(ctx, cfg):
    rule = "C04.R3"
    ctx.rule(rule, "write position / index updated only after the archive write succeeded, with that write's own results")
    b = find1(ctx, rule, "ArchiveManager", "write_content_with_mode")
    if b:
        ctx.saw(b)
        wr = b.calls_matching(r"ArchiveManager::write_to_archive$")
        ins = [c for c in b.calls_matching(r"HashMap::<K, V, S, A>::insert$|BTreeMap::<K, V, A>::insert$")]
        if ctx.anchor(rule, wr, "write_to_archive call") and ctx.anchor(rule, ins, "write_positions.insert"):
            w = wr[0]
            for n, c in enumerate(ins):
                dom = b.dominates(w.bb, c.bb)
                err_reach = False
                for (ebb, m, other, via) in enum_switches_through(b, w.dest[0]):
                    if 1 in m and c.bb in b.reachable([m[1]]):
                        err_reach = True
                ctx.check(dom and not err_reach, rule, [b.id, "position-after-write#%d" % n], "position advanced only after a successful write",
                          "write_content_with_mode advances the write position although write_to_archive failed / before it ran: the next object "
                          "overwrites or leaves a hole and the returned offset lies", c.loc(), sample={"write": w.loc(), "insert": c.loc()})
    # index add_entry after write_content Ok, with the returned tuple
    for ty, item in (("DynamicContainer", "write"), ("Installation", "write_file")):
        bs = [x for x in ctx.prog.find(self_ty=r"\b%s\b" % ty, item=item, closure=True) if x.coroutine and x.krate == cfg["krate"]]
        if not ctx.anchor(rule, bs, "%s::%s (async body)" % (ty, item)):
            continue
        b = bs[0]
        ctx.saw(b)
        wc = b.calls_matching(r"ArchiveManager::write_content$")
        ae = b.calls_matching(r"IndexManager::add_entry$")
        if not (ctx.anchor(rule, wc, "write_content in %s" % item) and ctx.anchor(rule, ae, "add_entry in %s" % item)):
            continue
        w, a = wc[0], ae[0]
        dom = b.dominates(w.bb, a.bb)
        err_reach = any(1 in m and a.bb in b.reachable([m[1]]) for (ebb, m, other, via) in enum_switches_through(b, w.dest[0]))
        ctx.check(dom and not err_reach, rule, [b.id, "index-after-write"], "index entry added only after the archive write succeeded",
                  "%s::%s adds the index entry on a path where write_content failed" % (ty, item), a.loc())
        # provenance of archive_id / offset / size / key arguments
        der = forward_values(b, w.dest[0])
        # tuple fields are projected out of the unwrapped value
        changed = True
        while changed:
            changed = False
            for i, j, s in b.stmts():
                r = s["r"]
                if s["p"][0] in der:
                    continue
                if r["k"] in ("Use", "Cast", "Agg", "Ref") and any(op_local(o) in der for o in r.get("o", [])) or (r["k"] == "Ref" and r["p"][0] in der):
                    der.add(s["p"][0])
                    changed = True
            for c in b.calls:
                if c.dest[0] not in der and c.args and any(op_local(x) in der for x in c.args) and re.search(r"EncodingKey::from_bytes$|\bFrom<.*>>?::from$|\bInto<U>>?::into$", c.name):
                    der.add(c.dest[0])
                    changed = True
        bad_args = [i for i, x in enumerate(a.args[1:], 1) if op_local(x) is not None and op_local(x) not in der]
        ctx.check(not bad_args, rule, [b.id, "index-args-from-write"], "index entry uses the location returned by this write",
                  "%s::%s passes add_entry argument(s) %s that do not derive from write_content's result: the index points at bytes "
                  "other than the object just written" % (ty, item, bad_args), a.loc(), sample={"add_entry": a.loc(), "args_checked": len(a.args) - 1})


def r4_sniff_order(ctx, cfg):
    rule = "C04.R4"
    ctx.rule(rule, "reader tests the writer's own layout (local header, BLTE at 0x1E) before the bare-BLTE layout")
    b = find1(ctx, rule, *cfg["read_content"])
    if not b:
        return
    ctx.saw(b)
    cmps = []
    for c in b.calls_matching(r"PartialEq.*>::(eq|ne)$|\bslice::.*::eq$|cmp::impls::.*::eq$"):
        offs = None
        is_magic = False
        for a in c.args:
            l = op_local(a)
            if l is None:
                continue
            sl = Slice(b, [l], transparent=re.compile(r"\bIndex<.*>>?::index$|\bDeref>?::deref$"))
            for o in sl.consts:
                if "BLTE" in o.get("s", "") or o.get("s", "") in ('b"BLTE"',):
                    is_magic = True
            for (bb_, idx_, st) in sl.stmts:
                r = st["r"]
                if r["k"] == "Agg" and r.get("variant") in ("Range", "RangeFrom", "RangeInclusive") and r["o"]:
                    start = r["o"][0]
                    v = op_const(start)
                    if v is None and op_local(start) is not None:
                        iv = Slice(b, [op_local(start)]).int_consts()
                        v = min(iv) if iv else None
                    if v is not None:
                        offs = v
        if offs is not None:
            cmps.append((c, offs, is_magic))
    magic = [(c, o) for c, o, m in cmps]
    with_hdr = [c for c, o in magic if o >= 0x1E]
    bare = [c for c, o in magic if o == 0]
    if not (ctx.anchor(rule, with_hdr, "test for BLTE magic after the 30-byte local header in read_content") and
            ctx.anchor(rule, bare, "test for a bare BLTE magic at offset 0 in read_content")):
        return
    h = with_hdr[0]
    ok = all(h.bb not in b.reachable(b.succ[x.bb]) and x.bb in b.reachable([h.bb]) for x in bare)
    ctx.check(ok, rule, [b.id, "header-form-first"], "local-header form is tested first",
              "read_content tests for a bare BLTE container at offset 0 before the local-header form: every record this writer produces "
              "starts with the reversed encoding key, so an object whose key ends in 45 54 4C 42 ('ETLB') is mis-parsed and cannot be read back",
              bare[0].loc(), sample={"header_form_test": with_hdr[0].loc(), "bare_form_test": bare[0].loc()})


def r5_latest_wins(ctx, cfg, rule="C04.R5"):
    ctx.rule(rule, "index de-duplication (flush / iteration) keeps the newest update-section record per key")
    n = 0
    for item in ("flush_updates_for_bucket", "iter_entries"):
        fam = []
        for b in ctx.prog.find(self_ty=r"\bIndexManager\b", item=item):
            if b.krate == cfg["krate"]:
                fam.append(b)
        if not ctx.anchor(rule, fam, "IndexManager::%s" % item):
            continue
        for b in fam:
            src = b.calls_matching(r"UpdateSection::all_entries$")
            if not src:
                continue
            ctx.saw(b)
            n += 1
            s = src[0]
            # direction of the iteration over all_entries()
            from .lib import forward_calls
            fw = forward_calls(b, s.dest[0], through=ITER_ADAPT)
            reversed_iter = any(REVERSE.search(x.name) or REVERSE.search(x.orig_name) for x in fw)
            stores = b.calls_matching(r"BTreeMap::<K, V, A>::insert$|HashMap::<K, V, S, A>::insert$")
            keeps_first = b.calls_matching(r"\bEntry::<'a, K, V(, \w+)*>::(or_insert|or_insert_with|or_insert_with_key|or_default)$|::try_insert$")
            overwrite = bool(stores) and not keeps_first
            good = (overwrite and not reversed_iter) or (bool(keeps_first) and not stores and reversed_iter)
            ctx.check(good, rule, [b.id, "latest-wins"], "oldest-first iteration with overwriting insert (or the mirror image)",
                      "%s de-duplicates update-section records so that an OLDER record for a key wins (iteration %s, store %s): after "
                      "remove+rewrite (log [Delete, Normal]) the flush drops the object from the index and from the saved .idx file" %
                      (b.id, "newest-first" if reversed_iter else "oldest-first", "keep-first (entry().or_insert)" if keeps_first else "overwrite (insert)"),
                      s.loc(), sample={"iteration": "reversed" if reversed_iter else "forward", "store": [x.name.split("::")[-1] for x in (stores + keeps_first)][:3]})
    ctx.floor(rule, n, 2, "de-duplicating walks over UpdateSection::all_entries")


# swallow sites of fallible persistence calls in cascette-client-storage, read one by one (caller suffix, callee) -> (max sites, reason)
R6_ALLOW = {
    ("<IndexManager>::save_index", "write_index_to_file"): (1, "retry loop: three attempts, the last error is returned after the loop"),
    ("<IndexManager>::save_index", "rename"): (1, "same retry loop"),
    ("<IndexManager>::remove_entry", "flush_updates_for_bucket"): (1, "returns bool: the Err arm logs and returns false (the removal is reported as not done)"),
    ("<IndexEntry>::to_packed", "write_be"): (1, "writes 5 bytes into an in-memory Vec cursor; to_packed returns the Vec and has no error channel"),
    ("<HardLinkContainer>::test_support", "write"): (1, "capability probe: a failed probe write means 'hard links unsupported' and that is what is returned"),
    ("<HardLinkContainer>::test_support", "hard_link"): (1, "capability probe: the failure is the answer (Ok(false))"),
    ("<Storage>::validate_casc_directory_structure", "write"): (1, "write-permission probe of a directory: the failure is logged as a warning, nothing the caller asked to store is involved"),
}


def r6_persist_errors(ctx, cfg):
    from .errflow import rule_persist
    rule_persist(ctx, "C04.R6", "cascette_client_storage", cfg.get("r6_scope"), cfg.get("r6_allow", R6_ALLOW), cfg.get("r6_floor", 90),
                 "cascette-client-storage")


def run(ctx, cfg=CFG):
    # E-names (rules/siblingfield.py): a local named after one field of a struct is not computed from its sibling
    from . import siblingfield
    siblingfield.rule_names(ctx, "C04.R11", ["cascette_client_storage"])
    # E-bitfield (rules/bitfield.py): the fields of a packed word partition it (mask == 2^shift - 1)
    from . import bitfield
    bitfield.rule_bitfields(ctx, "C04.R10", ["cascette_client_storage"], floor=4)
    # E-drop (rules/dropped.py): no bool result of a function of these modules is thrown away by a caller anywhere in the workspace
    from . import dropped
    dropped.rule_dropped(ctx, "C04.R9", [k for k in ["cascette_formats", "cascette_client_storage", "cascette_cache", "cascette_protocol", "cascette_ribbit"] if k in (CRATES or [])] or CRATES, r"client-storage/src/(storage|container|installation)", floor=12)
    # E-stale (rules/stale.py): no snapshot of a self field is written back after a self-method call that may have changed it
    from . import stale
    stale.rule_stale(ctx, "C04.R8", "cascette_client_storage", r"src/(storage|container|installation)")
    # E-dirty (rules/dirtyflag.py): every dirty flag found in the crate whose saver lives in this property's modules
    from . import dirtyflag
    dirtyflag.rule_dirty(ctx, "C04.R7", ["cascette_client_storage"], file_pat=r"src/(index|storage|container|installation)", floor=0)
    # "the latest write for a key is the one read back" rests on the index lookup precedence that C05 decides: update section
    # before sorted section, newest entry first at every level, tombstones hide - the same rule instances are obligations here
    from . import c05
    c05.r3_precedence(ctx, c05.CFG)
    # ... and on two more shared mechanisms: every bucket is persisted by save_all (what the container's write relies on after an
    # update-log rollover), and the archive's allocate-write-advance sequence runs under exclusive access (round 6: C04-r6m1 / r6m2)
    c05.r8_persist_every_bucket(ctx, c05.CFG)
    c05.r2_flush_retry(ctx, c05.CFG)      # a write is in the index when add_entry says Ok: no Ok without an append (round 7: C04-r7m2)
    from . import c11
    c11.r6_exclusive_alloc(ctx)
    r6_persist_errors(ctx, cfg)
    r1_remap(ctx, cfg)
    r2_single_decode(ctx, cfg)
    r3_bookkeeping(ctx, cfg)
    r4_sniff_order(ctx, cfg)
    r5_latest_wins(ctx, cfg)


from .selftest import for_families as _ff  # noqa: E402
selftest = _ff(['gate', 'slice', 'errflow', 'dirty', 'stale', 'drop', 'bitfield', 'names'])
