"""C16 - applying a generated ZBSDIFF patch yields the new file (structural clauses)."""
import re
from .facts import op_local, Slice, place_fields, op_const
from .lib import bool_switches, must_pass, assigns_variant, enum_switches
from .c12 import some_edge
from .cachebooks import recv_fields

CRATES = ["cascette_formats"]

EXPLANATION = (
    "Static rules over the MIR of cascette_formats::zbsdiff. R1 (sibling agreement): the patchers ADD the control triple's third field to "
    "the old-file position (checked: the new position derives from both the current position and seek_offset in both patchers), therefore "
    "every ControlEntry a builder emits must carry a RELATIVE seek: the constant 0 or a value with a subtraction of positions in its slice; "
    "a bare cast of a position accumulator is an absolute position. R2: in both patchers every Ok(output) is reachable only through the "
    "equal edge of a comparison of output.len() with a value that derives from the PARSED header's output_size (followed through one level "
    "of parameter passing / the struct field it was checked against). R3: a seek that a builder computes is emitted on every path of that "
    "iteration (an entry carrying only a seek must not be dropped), and in both patchers the seek application lies on every iteration path "
    "except the `seek_offset == 0` edge. patch(old, diff(old,new)) == new itself is not decided.")

ASSUMPTIONS = ["patch(old, diff(old, new)) = new for the simple and suffix builders is value-level and not decided"]

FILE = re.compile(r"cascette-formats/src/zbsdiff/")


def bodies(ctx):
    return sorted([b for b in ctx.prog.bodies.values() if b.krate == "cascette_formats" and FILE.search(b.file)], key=lambda x: x.id)


def r1_relative_seek(ctx):
    rule = "C16.R1"
    ctx.rule(rule, "every emitted control triple carries a relative seek (0 or a difference of positions); patchers apply it additively")
    n = 0
    for b in bodies(ctx):
        if re.search(r"zbsdiff/(patcher|control|header|utils|mod)\.rs$", b.file):
            continue
        for c in b.calls_matching(r"ControlEntry::new$"):
            n += 1
            ctx.saw(b)
            ctx.call_sites += 1
            a = c.args[2]
            if op_const(a) == 0:
                ctx.ok(rule, [b.id, "seek", c.bb], "seek is the constant 0", c.loc(), sample={"in": b.id, "seek": 0})
                continue
            l = op_local(a)
            if l is None:
                ctx.bad(rule, [b.id, "seek-const"], "%s emits a non-zero constant seek" % b.id, c.loc())
                continue
            sl = Slice(b, [l], transparent=re.compile(r"\bInto<U>>?::into$|\bFrom<.*>>?::from$|\bTryFrom<.*>>?::try_from$|\bResult::<T, E>::(unwrap|expect|unwrap_or)$"))
            has_sub = any(o[0] in ("Sub", "SubWithOverflow", "SubUnchecked") for o in sl.ops) or sl.has_call(r"::(wrapping_sub|checked_sub|saturating_sub|abs_diff)$")
            ctx.check(has_sub, rule, [b.id, "seek"], "seek is a difference of positions",
                      "%s emits a control entry whose seek is a bare (cast) position accumulator (%s), i.e. an ABSOLUTE old-file position, while both patchers add "
                      "the field to the current position: after the first non-matching region every later diff block is applied at the wrong old offset and the "
                      "patch applies cleanly to different bytes than the new file" % (b.id, sorted({b.local_name(x) for x in sl.locals if b.locals[x].get('u')})[:3]),
                      c.loc(), sample={"in": b.id, "seek_slice_ops": [o[0] for o in sl.ops][:5]})
    ctx.floor(rule, n, 4, "ControlEntry::new sites in the builders")
    # patchers: additive use
    for (ty, item) in ((None, "apply_patch_with_data"), ("ZbsdiffPatcher", "apply_seek_offset")):
        bs = [b for b in bodies(ctx) if b.item == item and not b.root]
        if not ctx.anchor(rule, bs, "patcher %s" % item):
            continue
        b = bs[0]
        ctx.saw(b)
        adds = b.calls_matching(r"::(saturating_add|checked_add|wrapping_add|saturating_sub|checked_sub|wrapping_sub)$")
        ok = False
        for c in adds:
            sl = Slice(b, [op_local(x) for x in c.args if op_local(x) is not None], transparent=True)
            uses_seek = sl.has_field("seek_offset") or any(b.local_name(x) == "offset" for x in sl.locals)
            uses_pos = any(b.local_name(x) in ("old_pos", "current_pos") for x in sl.locals)
            if uses_seek and uses_pos:
                ok = True
        ctx.check(ok, rule, [b.id, "additive"], "new position = current position +/- seek (premise of the relative-seek rule)",
                  "%s no longer adds the seek to the current position; R1's premise changed - re-derive the rule" % b.id, b.loc(), sample={"patcher": b.id})


def r2_length_check(ctx):
    rule = "C16.R2"
    ctx.rule(rule, "Ok(output) only through output.len() == header.output_size")
    prog = ctx.prog
    for (item, self_ty) in (("apply_patch_with_data", None), ("apply_patch", "ZbsdiffPatcher")):
        bs = [b for b in bodies(ctx) if b.item == item and not b.root and ((self_ty is None) == (b.self_ty is None))]
        if not ctx.anchor(rule, bs, "patcher %s" % item):
            continue
        b = bs[0]
        ctx.saw(b)
        okb = set(assigns_variant(b, "Ok"))
        cmp = None
        for i, j, s in b.stmts():
            r = s["r"]
            if r["k"] == "Bin" and r["op"] in ("Ne", "Eq"):
                sides = []
                for o in r["o"]:
                    l = op_local(o)
                    sl = Slice(b, [l], transparent=None) if l is not None else None
                    is_len = bool(sl) and any(re.search(r"\bVec::<T, A>::len$", c.name) and b.local_name(next(iter(Slice(b, [op_local(c.args[0])]).locals & set(range(len(b.locals)))), 0)) is not None
                                              and any(b.local_name(x) == "output" for x in Slice(b, [op_local(c.args[0])]).locals) for c in sl.calls)
                    sides.append((is_len, o, sl))
                if sides[0][0] != sides[1][0]:
                    cmp = (i, j, s, sides[1] if sides[0][0] else sides[0])
        if not ctx.anchor(rule, cmp, "comparison of output.len() with the expected size in %s" % item):
            continue
        (ci, cj, cs, (_, eo, esl)) = cmp
        is_ne = cs["r"]["op"] == "Ne"
        gated = False
        for (sbb, tt, ft) in bool_switches(b, cs["p"][0]):
            eq_e, ne_e = (ft, tt) if is_ne else (tt, ft)
            if not (b.reachable([ne_e]) & okb) and (b.reachable([eq_e]) & okb):
                gated = True
        dominated = all(b.dominates(ci, x) for x in okb)
        ctx.check(gated and dominated, rule, [b.id, "gate"], "wrong-length output cannot be returned as Ok",
                  "%s can return Ok(output) although output.len() differs from the expected size" % b.id, "%s:%d" % (b.file, cs["l"]), sample={"cmp_line": cs["l"]})
        # provenance of the expected size
        src = None
        if esl is not None:
            params = [l for l in esl.locals if 1 <= l <= b.argc]
            if esl.has_field("output_capacity") or any("output_capacity" in f for f in esl.fields):
                src = ("field", "output_capacity")
            elif params:
                src = ("param", params[0])
        if not ctx.anchor(rule, src, "provenance of the expected size in %s" % item):
            continue
        if src[0] == "param":
            callers = [(s, c) for (s, how, c) in prog.callers.get(b.id, []) if c is not None]
            ctx.floor(rule, len(callers), 1, "callers of %s" % item)
            for (s, c) in callers:
                cb = prog.bodies[s]
                ctx.saw(cb)
                a = c.args[src[1] - 1]
                sl = Slice(cb, [op_local(a)], transparent=None) if op_local(a) is not None else None
                from_hdr = bool(sl) and sl.has_field("output_size")
                ctx.check(from_hdr, rule, [cb.id, "expected-from-header"], "expected size is the parsed header's output_size",
                          "%s passes an expected output size that does not derive from the parsed patch header" % cb.id, c.loc(), sample={"caller": cb.id})
        else:
            # streaming patcher: the field is a constructor argument; every entry point that parses a header must tie the two together
            entry = [x for x in bodies(ctx) if x.item == "apply_patch_from_data" and not x.root]
            if ctx.anchor(rule, entry, "ZbsdiffPatcher::apply_patch_from_data"):
                e = entry[0]
                ctx.saw(e)
                reads_hdr = any("output_size" in place_fields(o["p"]) for i, j, s in e.stmts() for o in s["r"].get("o", []) if o["k"] in ("cp", "mv")) or \
                    any("output_size" in place_fields(a["p"]) for c in e.calls for a in c.args if a["k"] in ("cp", "mv"))
                tied = False
                for i, j, s in e.stmts():
                    r = s["r"]
                    if r["k"] == "Bin" and r["op"] in ("Ne", "Eq"):
                        sl = Slice(e, [op_local(o) for o in r["o"] if op_local(o) is not None], transparent=True)
                        fs = set()
                        for o in r["o"]:
                            if o["k"] in ("cp", "mv"):
                                fs |= set(place_fields(o["p"]))
                        for f in sl.fields:
                            fs |= set(f)
                        if "output_size" in fs and "output_capacity" in fs:
                            tied = True
                    if "output_capacity" in place_fields(s["p"]) and any("output_size" in f for f in Slice(e, [op_local(o) for o in r.get("o", []) if op_local(o) is not None], transparent=True).fields):
                        tied = True
                ctx.check(reads_hdr and tied, rule, [e.id, "header-size-used"], "the parsed header's output_size is compared with / assigned to the expected size",
                          "ZbsdiffPatcher::apply_patch_from_data parses the patch header but never reads header.output_size: the final length check is against the "
                          "constructor argument only, so a patch whose header states another length is applied with Ok whenever the caller's number happens to match "
                          "the produced length (and a wrong caller number rejects a good patch)", e.loc(), sample={"entry": e.id, "reads_header_size": reads_hdr})


DROPPERS = re.compile(r"::(filter|filter_map|retain|retain_mut|dedup\w*|truncate|drain|skip|skip_while|take|take_while|step_by|pop|remove|swap_remove|split_off|clear|extract_if)$")


def r4_controls_not_dropped(ctx):
    """every control entry the differ produced reaches the control block: an entry that emits no bytes still moves the old-file cursor
    (its seek), so nothing between the producer and ControlBlock::with_entries may drop entries"""
    rule = "C16.R4"
    ctx.rule(rule, "the Vec<ControlEntry> handed to ControlBlock::with_entries passes no dropping adaptor / mutator (filter, retain, dedup, "
                   "truncate, skip, take, pop, remove ...) on its way from where the entries were produced")
    n = 0
    for b in bodies(ctx):
        if not re.search(r"zbsdiff/builder\.rs$", b.file or ""):
            continue
        for c in b.calls_matching(r"ControlBlock::with_entries$"):
            l = op_local(c.args[0]) if c.args else None
            if l is None:
                continue
            n += 1
            ctx.saw(b)
            ctx.call_sites += 1
            sl = Slice(b, [l], transparent=True)
            carriers = {x for x in sl.locals if "ControlEntry" in (b.local_ty(x) or "")}
            drops = []
            for x in b.calls:
                if not (DROPPERS.search(x.name) or DROPPERS.search(x.orig_name or "")):
                    continue
                touches = (x.dest and x.dest[0] in carriers) or any(op_local(a) in carriers for a in x.args if op_local(a) is not None)
                if not touches and x.args and op_local(x.args[0]) is not None:
                    touches = bool(Slice(b, [op_local(x.args[0])], transparent=re.compile(r"\bDeref\w*>?::deref(_mut)?$")).locals & carriers)
                if touches and (x.bb == c.bb or c.bb in b.reachable([x.bb])):
                    drops.append(x)
            ctx.check(not drops, rule, [b.id, "controls-unfiltered"], "control entries reach the control block unfiltered",
                      "%s passes the control entries through %s before building the control block: an entry with no output bytes still carries a seek that moves the "
                      "old-file cursor - dropping it shifts every later diff block, and both patchers return Ok with the right length and wrong content" %
                      (ctx._stable(b.id), drops[0].name.split("::")[-1] if drops else ""), c.loc(), sample={"with_entries": c.loc()})
    ctx.floor(rule, n, 2, "ControlBlock::with_entries call sites in the builders")


def r5_cursor_agreement(ctx):
    """the chunked builder keeps its own copy of the patcher's old-file cursor (`old_pos`): the patcher advances that cursor by the diff
    length of an entry (and by its seek), and by nothing else. So every advance of old_pos by X is paired, on every path that reaches
    it, with an emitted entry whose diff length is X; extra data never moves it."""
    rule = "C16.R5"
    ctx.rule(rule, "build_chunked_patch: each `old_pos += X` is reached only through a ControlEntry::new whose diff length derives from X")
    bs = [b for b in bodies(ctx) if b.item == "build_chunked_patch" and not b.root]
    if not ctx.anchor(rule, bs, "ZbsdiffBuilder::build_chunked_patch"):
        return
    b = bs[0]
    ctx.saw(b)
    op = next((i for i, d in enumerate(b.locals) if d.get("n") == "old_pos"), None)
    if not ctx.anchor(rule, op is not None, "local `old_pos`"):
        return
    adds = []
    for i, j, st in b.stmts():
        r = st["r"]
        if r["k"] == "Bin" and r["op"] in ("Add", "AddWithOverflow", "AddUnchecked") and any(op_local(o) == op for o in r["o"]):
            # the sum flows back into old_pos
            others = [o for o in r["o"] if op_local(o) != op]
            tgt = st["p"][0]
            back = any(s2["p"] == [op] and s2["r"]["k"] == "Use" and op_local(s2["r"]["o"][0]) == tgt for _, _, s2 in b.stmts()) or st["p"] == [op]
            if back and others:
                adds.append((i, others[0], st))
    if not ctx.anchor(rule, adds, "advance of old_pos in build_chunked_patch"):
        return
    news = b.calls_matching(r"ControlEntry::new$")
    for k, (bb, x, st) in enumerate(adds):
        xl = op_local(x)
        xs = Slice(b, [xl], transparent=None).locals if xl is not None else set()
        paired = set()
        for c in news:
            l = op_local(c.args[0])
            if l is not None and (Slice(b, [l], transparent=True).locals & xs):
                paired.add(c.bb)
        ok = bool(paired) and bb not in b.reachable([0], avoid=paired) and bb not in b.reachable(b.succ[bb], avoid=paired)
        ctx.check(ok, rule, [b.id, "old-pos-advance-paired"], "old_pos advances only together with an emitted diff of the same length",
                  "build_chunked_patch advances its old-file cursor on a path that did not emit a diff entry of that length (for example after an extra-data "
                  "entry): the builder and the patchers now disagree about the old position, later diff blocks are computed against bytes the patcher "
                  "will not read - Ok, right length, wrong content", "%s:%d" % (b.file, st["l"]))


def r6_short_reads(ctx):
    """the patchers read the old file through an arbitrary `Read + Seek`: `read()` may return fewer bytes than asked for. Either read_exact
    is used, or the returned count bounds what is consumed; a count that is only compared (with 0) leaves the unread tail of the buffer -
    zeros - in the data the diff is applied to: Ok, right length, wrong bytes"""
    from .lib import read_count_uses
    rule = "C16.R6"
    ctx.rule(rule, "in zbsdiff, the count returned by every Read::read is used to bound what is consumed (slice bound, advance, argument, return), not only compared")
    n = 0
    for b in bodies(ctx):
        for c in b.calls:
            if c.bb in b.live_blocks() and re.search(r"\bRead>?::read$", c.orig_name or c.name):
                n += 1
                ctx.saw(b)
                uses, counts = read_count_uses(b, c)
                ctx.check(bool(uses - {"cmp"}), rule, [b.id, "read-count-used"], "the read count bounds what is consumed",
                          "%s calls read() and uses the returned count only in comparisons (%s): a reader that returns short reads (pipes, buffered or block sources) "
                          "leaves the rest of the buffer unfilled and the patcher treats it as old-file data - it returns Ok with wrong bytes" %
                          (ctx._stable(b.id), sorted(uses) or "not at all"), c.loc())
    ctx.info("C16.R6: %d Read::read call site(s) in zbsdiff (read_exact needs no count handling)" % n)


def r3_seek_not_lost(ctx):
    rule = "C16.R3"
    ctx.rule(rule, "a computed seek is emitted on every path of the iteration; patchers apply a non-zero seek on every iteration path")
    # builders: the push of the entry post-dominates the computation of a non-constant seek within the iteration
    n = 0
    for b in bodies(ctx):
        if re.search(r"zbsdiff/(patcher|control|header|utils|mod)\.rs$", b.file):
            continue
        for c in b.calls_matching(r"ControlEntry::new$"):
            l = op_local(c.args[2])
            if l is None:
                continue
            pushes = [p for p in b.calls_matching(r"\bVec::<T, A>::push$") if any(op_local(a) == c.dest[0] for a in p.args)]
            if not pushes:
                continue
            n += 1
            ctx.saw(b)
            p = pushes[0]
            # blocks where the seek value is defined
            defs = [bb for (bb, idx, kind, payload) in b.defs.get(l, [])]
            seek_defs = set(defs)
            for (bb, idx, kind, payload) in b.defs.get(l, []):
                if kind == "assign":
                    for o in payload["r"].get("o", []):
                        if op_local(o) is not None:
                            seek_defs |= {d[0] for d in b.defs.get(op_local(o), [])}
            lost = [d for d in seek_defs if d in b.reachable(b.succ[d], avoid={p.bb}) and p.bb in b.reachable([d])]
            ctx.check(not lost, rule, [b.id, "seek-emitted"], "every computed seek reaches a pushed control entry in its iteration",
                      "%s computes a seek but can skip pushing the control entry that carries it (e.g. when the entry has no diff and no extra bytes): the seek to the "
                      "matched old offset is lost while the following diff bytes were computed against it - both patchers return Ok with the right length and wrong content" % b.id,
                      p.loc(), sample={"in": b.id, "push": p.loc()})
    ctx.floor(rule, n, 1, "builders that compute a non-constant seek")
    # patchers: seek application on every iteration path except the seek==0 edge
    for (item, self_ty, seek_pat) in (("apply_patch_with_data", None, r"::(saturating_add|saturating_sub)$"), ("apply_patch", "ZbsdiffPatcher", r"ZbsdiffPatcher::<R>::apply_seek_offset$|apply_seek_offset$")):
        bs = [b for b in bodies(ctx) if b.item == item and not b.root and ((self_ty is None) == (b.self_ty is None))]
        if not ctx.anchor(rule, bs, "patcher %s" % item):
            continue
        b = bs[0]
        ctx.saw(b)
        nexts = [c for c in b.calls_matching(r"\bIterator>?::next$") if "ControlEntry" in c.full]
        if not ctx.anchor(rule, nexts, "loop over control entries in %s" % item):
            continue
        nx = nexts[0]
        seeks = set()
        for c in b.calls_matching(seek_pat):
            sl = Slice(b, [op_local(a) for a in c.args if op_local(a) is not None], transparent=True)
            if sl.has_field("seek_offset"):
                seeks.add(c.bb)
        zero_tests = set()
        for i, j, s in b.stmts():
            r = s["r"]
            if r["k"] == "Bin" and r["op"] in ("Ne", "Eq") and any(op_const(o) == 0 for o in r["o"]):
                fs = set()
                for o in r["o"]:
                    if o["k"] in ("cp", "mv"):
                        fs |= set(place_fields(o["p"]))
                        if op_local(o) is not None:
                            for f in Slice(b, [op_local(o)], transparent=None).fields:
                                fs |= set(f)
                if "seek_offset" in fs:
                    zero_tests.add(i)
        se = some_edge(b, nx)
        if not ctx.anchor(rule, seeks and se is not None, "seek application in %s" % item):
            continue
        bypass = b.reachable([se], avoid=seeks | zero_tests)
        ctx.check(nx.bb not in bypass, rule, [b.id, "seek-applied"], "every iteration path applies the seek unless seek_offset == 0",
                  "%s has an iteration path that skips the seek step without testing `seek_offset != 0` (e.g. a `continue` fast path for entries without a diff block): "
                  "the next entry's diff block is applied at the wrong old offset" % b.id, nx.loc(), sample={"patcher": b.id, "seek_blocks": sorted(seeks), "zero_tests": sorted(zero_tests)})


def r7_positioned_reads(ctx):
    """the streaming patcher reads the old file at positions the control stream dictates; the reader it was given may stand anywhere (the caller may
    have sniffed a magic number or hashed the file). Every read of the old file is therefore behind an absolute seek on every path - unless the skip
    is decided by a cached position that is itself taken from the reader (stream_position / a seek result), never from a constant"""
    rule = "C16.R7"
    ctx.rule(rule, "ZbsdiffPatcher: every read of the old file passes an absolute seek of that reader on every path (or a position cache fed from the reader)")
    from .cachebooks import recv_fields, on_field
    n = 0
    bodies = [b for b in ctx.prog.bodies.values() if b.krate == "cascette_formats" and re.search(r"zbsdiff/patcher\.rs$", b.file or "")]
    for b in sorted(bodies, key=lambda x: x.id):
        reads = [c for c in b.calls if c.bb in b.live_blocks() and re.search(r"\bRead>?::(read_exact|read|read_to_end)$", c.orig_name or c.name) and on_field(recv_fields(b, c), "old_file")]
        if not reads:
            continue
        seeks = {c.bb for c in b.calls if c.bb in b.live_blocks() and re.search(r"\bSeek>?::seek$", c.orig_name or c.name) and on_field(recv_fields(b, c), "old_file")}
        ctx.saw(b)
        for rd in reads:
            n += 1
            bypass = rd.bb in b.reachable([0], avoid=seeks)
            excused = False
            if bypass:
                # a position cache: some field of the patcher compared on the way; excused when a write of that field derives from the reader
                for ob in bodies:
                    for (i, j, st) in ob.stmts():
                        fs = place_fields(st["p"])
                        if fs and fs[-1] not in ("old_file",) and st["r"]["k"] == "Use" and op_local(st["r"]["o"][0]) is not None:
                            sl = Slice(ob, [op_local(st["r"]["o"][0])], transparent=True)
                            if any(re.search(r"\bSeek>?::(stream_position|seek)$", x.orig_name or x.name) for x in sl.calls):
                                excused = True
            ctx.check(not bypass or excused, rule, [b.id, "seek-before-read"], "the read is behind an absolute seek on every path",
                      "%s reads the old file on a path that does not seek first (the seek is skipped on a cached position that never came from the reader): a "
                      "reader handed over at an offset other than 0 - after the caller peeked at a header or hashed the file - is read from the wrong place and "
                      "the patcher returns Ok with shifted bytes" % ctx._stable(b.id), rd.loc(), sample={"read": rd.loc(), "seek_blocks": sorted(seeks)})
    ctx.floor(rule, n, 1, "reads of the old file in the streaming patcher")


def run(ctx):
    # E-drop (rules/dropped.py): no bool result of a function of these modules is thrown away by a caller anywhere in the workspace
    from . import dropped
    dropped.rule_dropped(ctx, "C16.R8", [k for k in ["cascette_formats", "cascette_client_storage", "cascette_cache", "cascette_protocol", "cascette_ribbit"] if k in (CRATES or [])] or CRATES, r"cascette-formats/src/zbsdiff/", floor=0)
    r7_positioned_reads(ctx)
    r1_relative_seek(ctx)
    r2_length_check(ctx)
    r3_seek_not_lost(ctx)
    r4_controls_not_dropped(ctx)
    r5_cursor_agreement(ctx)
    r6_short_reads(ctx)


from .selftest import for_families as _ff  # noqa: E402
selftest = _ff(['slice', 'loop', 'readloop', 'drop'])
