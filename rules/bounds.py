"""E-bounds: a small relational abstract interpretation over MIR that tries to PROVE index / range operations in bounds.

Abstract state at a program point:
  env    local (or (local, tuple field)) -> Lin, a linear expression  c + sum(k_i * atom_i)  over immutable value atoms
  facts  set of Lin, each meaning  lin <= 0
  cmp    bool local -> (op, Lin a, Lin b): how a comparison result was computed (for branch / assert refinement)
  pts    local -> local it is the address of (`_r = &v`)
  ver    local -> version counter of a container local (bumped whenever it may be mutated)
  lendef value atom -> Lin: known length of a slice value (results of range indexing, split_at)
  rng    local -> (kind, Lin start, Lin end) for Range aggregates and iterators made from them

Atoms are immutable values (a definition site, a parameter, a phi at a join, the length of a slice value), so facts survive
assignments to the variables they were derived from: `if len < off + n {Err}; off += n` keeps `off_old + n <= len`, and the new
`off` IS `off_old + n`. Joins intersect the facts and introduce a phi atom where the environments differ; the iteration is
monotone (facts only shrink, phi atoms are named by (block, local)) and stops at a fixed point.

A goal `g <= 0` is proven when g is a non-positive constant, or some fact f has  g - f = const <= 0, or two facts f1, f2 have
g - f1 - f2 = const <= 0, in each case after dropping unsigned atoms with negative coefficient from g (x >= 0).
Everything the engine cannot prove is 'not decided'; only unproven goals whose index derives from INPUT are candidates for a report.
"""
import re
from .facts import op_local, op_const, strip_regions

UNSIGNED = re.compile(r"^(u8|u16|u32|u64|u128|usize)$")
INT = re.compile(r"^(u8|u16|u32|u64|u128|usize|i8|i16|i32|i64|i128|isize)$")
WIDTH = {"u8": 8, "u16": 16, "u32": 32, "u64": 64, "usize": 64, "u128": 128, "i8": 8, "i16": 16, "i32": 32, "i64": 64, "isize": 64, "i128": 128}
LEN_CALL = re.compile(r"core::slice::<impl \[T\]>::len$|\bVec::<T, A>::len$|core::str::<impl str>::len$|\bString::len$|bytes::Bytes::len$|\bBytesMut::len$|VecDeque::<T, A>::len$|<impl \[T; N\]>::len$")
EMPTY_CALL = re.compile(r"core::slice::<impl \[T\]>::is_empty$|\bVec::<T, A>::is_empty$|core::str::<impl str>::is_empty$|\bString::is_empty$|bytes::Bytes::is_empty$")
VIEW_CALL = re.compile(r"\bDeref>?::deref$|\bDerefMut>?::deref_mut$|\bVec::<T, A>::as_slice$|\bVec::<T, A>::as_mut_slice$|\bAsRef<.*>>?::as_ref$|\bBorrow<.*>>?::borrow$|"
                       r"\bString::as_str$|\bString::as_bytes$|core::str::<impl str>::as_bytes$|core::slice::<impl \[T\]>::as_ref$|\bCursor::<T>::get_ref$|\bCursor::<T>::into_inner$|<impl \[T; N\]>::as_slice$")
IDENT_CALL = re.compile(r"\bInto<U>>?::into$|\bFrom<.*>>?::from$|\bClone>?::clone$|\bToOwned>?::to_owned$|core::hint::must_use$|\bIntoIterator>?::into_iter$")
TRY_CONV = re.compile(r"\bTryFrom<.*>>?::try_from$|\bTryInto<.*>>?::try_into$")
INDEX_CALL = re.compile(r"\bIndex(Mut)?<.*>>?::index(_mut)?$")
SPLIT_AT = re.compile(r"core::slice::<impl \[T\]>::split_at(_mut)?$|core::str::<impl str>::split_at$")
COPY_FROM = re.compile(r"core::slice::<impl \[T\]>::(copy_from_slice|clone_from_slice)$")
MIN_CALL = re.compile(r"\bOrd>?::min$|core::cmp::min$|::min$")
MAX_CALL = re.compile(r"\bOrd>?::max$|core::cmp::max$")
SAT_SUB = re.compile(r"::saturating_sub$")
CHECKED = re.compile(r"::checked_(add|sub|mul)$")
NON_RESIZING = re.compile(r"\bIndexMut<.*>>?::index_mut$|\bIndex<.*>>?::index$|::(fill|copy_from_slice|clone_from_slice|swap|reverse|sort\w*|get_mut|first_mut|last_mut|chunks_mut|split_at_mut)$|\bDerefMut>?::deref_mut$|::as_mut_slice$|\bAsMut<.*>>?::as_mut$|\bBorrowMut<.*>>?::borrow_mut$|\bIterator>?::next$|::iter_mut$|::as_mut_ptr$")
FROM_ELEM = re.compile(r"\bvec::from_elem$")
PAYLOAD_KEEP = re.compile(r"\bOption::<T>::(ok_or|ok_or_else|copied|cloned|filter|or|or_else|take)$|\bResult::<T, E>::(map_err|ok|or|or_else|inspect_err)$")
GET_CALL = re.compile(r"core::slice::<impl \[T\]>::(get|get_mut)$|\bVec::<T, A>::get$")
FIND_CALL = re.compile(r"core::str::<impl str>::(find|rfind)$|memchr::memchr$")
# raw pointers into byte slices and the x86 vector loads / stores that dereference them (C09.R2)
PTR_OF = re.compile(r"core::slice::<impl \[T\]>::as_(mut_)?ptr$|\bVec::<T, A>::as_(mut_)?ptr$")
PTR_ADD = re.compile(r"core::ptr::(const|mut)_ptr::<impl \*(const|mut) T>::add$")
PTR_CAST = re.compile(r"core::ptr::(const|mut)_ptr::<impl \*(const|mut) T>::(cast|cast_mut|cast_const)$")
VEC_MEM = re.compile(r"core::core_arch::x86(_64)?::\w+::(_mm(\d*)_(mask_)?(loadu?|storeu?|lddqu|stream|stream_load)_(\w+))$")


def vec_mem_width(name):
    """bytes touched by an x86 load/store intrinsic, None when this is not one"""
    m = VEC_MEM.search(name)
    if not m:
        return None
    full, bits, suffix = m.group(2), m.group(3), m.group(6)
    w = {"": 16, "256": 32, "512": 64}.get(bits)
    for suf, n in (("si64", 8), ("si32", 4), ("si16", 2), ("ss", 4), ("sd", 8)):
        if suffix == suf:
            w = n
    return w


INPUT_CALL = re.compile(r"core::str::<impl str>::parse$|::from_str_radix$|\bFromStr>?::from_str$|::from_(be|le|ne)_bytes$|\bReadBytesExt>?::read_\w+$|BinReaderExt>?::read_\w+$|\bBinRead>?::read\w*$|::read_(u|i)\d+\w*$|::get_(u|i)\d+\w*$|\bfs::Metadata::len$")


# C08.R1: when set, a narrowing unsigned cast to u8 / u16 is a sink with goal `value <= MAX` (off by default: the parser rules judge wrap-around in R4)
CAST_SINKS = [False]


class Lin:
    __slots__ = ("c", "t", "_h")

    def __init__(self, c=0, t=None):
        self.c = c
        self.t = {k: v for k, v in (t or {}).items() if v != 0}
        self._h = None

    @staticmethod
    def atom(a):
        return Lin(0, {a: 1})

    def add(self, o, k=1):
        t = dict(self.t)
        for a, v in o.t.items():
            t[a] = t.get(a, 0) + k * v
        return Lin(self.c + k * o.c, t)

    def sub(self, o):
        return self.add(o, -1)

    def addc(self, k):
        return Lin(self.c + k, self.t)

    def scale(self, k):
        return Lin(self.c * k, {a: v * k for a, v in self.t.items()})

    def is_const(self):
        return not self.t

    def single(self):
        if self.c == 0 and len(self.t) == 1:
            (a, v), = self.t.items()
            if v == 1:
                return a
        return None

    def key(self):
        if self._h is None:
            self._h = (self.c, tuple(sorted(self.t.items(), key=repr)))
        return self._h

    def __eq__(self, o):
        return isinstance(o, Lin) and self.key() == o.key()

    def __hash__(self):
        return hash(self.key())

    def atoms(self):
        return set(self.t)

    def __repr__(self):
        parts = []
        for a, v in sorted(self.t.items(), key=repr):
            parts.append(("%+d*" % v if v != 1 else "+") + fmt_atom(a))
        if self.c or not parts:
            parts.append("%+d" % self.c)
        return " ".join(parts).lstrip("+")


def fmt_atom(a):
    if a[0] == "len":
        return "len(%s)" % fmt_atom(a[1])
    if a[0] == "arg":
        return "arg%d" % a[1]
    if a[0] == "phi":
        return "phi(bb%d,_%s)" % (a[1], a[2])
    if a[0] == "vec":
        return "_%s#%s" % (a[1], a[2] if isinstance(a[2], int) else "".join(str(x) for x in a[2])[:12])
    return "%s@%s" % (a[0], ",".join(str(x) for x in a[1:]))


class State:
    __slots__ = ("env", "facts", "cmp", "pts", "ver", "lendef", "rng", "post", "disc", "clos", "agg")

    def __init__(self):
        self.env = {}
        self.facts = frozenset()
        self.cmp = {}
        self.pts = {}
        self.ver = {}
        self.lendef = {}
        self.rng = {}
        self.post = {}
        self.disc = {}
        self.clos = {}
        self.agg = {}

    def copy(self):
        s = State()
        s.env = dict(self.env)
        s.facts = self.facts
        s.cmp = dict(self.cmp)
        s.pts = dict(self.pts)
        s.ver = dict(self.ver)
        s.lendef = dict(self.lendef)
        s.rng = dict(self.rng)
        s.post = dict(self.post)
        s.disc = dict(self.disc)
        s.clos = dict(self.clos)
        s.agg = dict(self.agg)
        return s

    def same(self, o):
        return (self.env == o.env and self.facts == o.facts and self.cmp == o.cmp and self.pts == o.pts and self.ver == o.ver
                and self.lendef == o.lendef and self.rng == o.rng and self.post == o.post and self.disc == o.disc and self.clos == o.clos and self.agg == o.agg)


def join(states, bb, phi_src=None, prover=None):
    """join of predecessor edge states at block bb"""
    if len(states) == 1:
        return states[0].copy()
    out = State()
    first = states[0]
    keys = set(first.env)
    for s in states[1:]:
        keys &= set(s.env)
    for k in keys:
        v = first.env[k]
        selfphi = Lin.atom(("phi", bb, k if isinstance(k, int) else "%s.%s" % k))
        others = {s.env[k] for s in states} - {selfphi}
        if all(s.env[k] == v for s in states[1:]):
            out.env[k] = v
        elif len(others) == 1:
            out.env[k] = next(iter(others))
        else:
            pa = ("phi", bb, k if isinstance(k, int) else "%s.%s" % k)
            out.env[k] = Lin.atom(pa)
            if phi_src is not None:
                ps = phi_src.setdefault(pa, set())
                for s in states:
                    ps |= s.env[k].atoms() - {pa}
    facts = set(first.facts)
    for s in states[1:]:
        facts &= s.facts
    if prover is not None:
        # semantic join: a fact of one branch survives when every other branch entails it (x == 4 | x == 8  =>  x <= 8)
        cand = set()
        for s in states:
            cand |= s.facts
        for f in cand - facts:
            if len(f.t) <= 3 and all((f in s.facts) or prover(s, f) for s in states):
                facts.add(f)
    out.facts = frozenset(facts)
    for name in ("cmp", "pts", "ver", "rng", "post", "disc", "clos", "agg"):
        d0 = getattr(first, name)
        d = {}
        for k, v in d0.items():
            if all(getattr(s, name).get(k, None) == v for s in states[1:]):
                d[k] = v
        setattr(out, name, d)
    # lengths: keep what every state that still knows this version agrees on (a state carrying the join's own version name
    # for the container simply has no entry under the old version)
    allld = {}
    for s in states:
        for k, v in s.lendef.items():
            allld.setdefault(k, set()).add(v)
    for k, vs_ in allld.items():
        if len(vs_) != 1:
            continue
        okk = True
        for s in states:
            if k in s.lendef:
                continue
            if k[0] == "vec" and s.ver.get(k[1], 0) == ("j", bb):
                continue
            okk = False
        if okk:
            out.lendef[k] = next(iter(vs_))
    # versions that disagree: take a fresh, block-named version so stale len atoms cannot be confused
    allk = set()
    for s in states:
        allk |= set(s.ver)
    for k in allk:
        vs = {s.ver.get(k, 0) for s in states}
        # phi(x, phi) = x: a version that only meets the join's own name coming back round the loop was not changed in the loop
        vs2 = vs - {("j", bb)}
        if len(vs2) == 1 and len(vs) > 1:
            out.ver[k] = next(iter(vs2))
        elif len(vs) > 1:
            out.ver[k] = ("j", bb)
    return out


class Sink:
    def __init__(self, body, bb, kind, what, goals, index_lins, loc, proven, detail):
        self.body = body
        self.bb = bb
        self.kind = kind
        self.what = what
        self.goals = goals
        self.index_lins = index_lins
        self.loc = loc
        self.proven = proven
        self.detail = detail
        self.taint = set()


class Analysis:
    def __init__(self, body, max_iter=40, assume=(), requires=None, summaries=None, posts=None, given=()):
        self.b = body
        self.ret_taints = (posts or {}).get("ret_taints", {})
        self.pos_info = {}
        self.slice_of = {}
        self.req_src = (posts or {}).get("src", {})
        self.req_ty = (posts or {}).get("ty", {})
        self.posts = (posts or {}).get("facts", {})
        self.post_src = (posts or {}).get("src", {})
        self.post_ty = (posts or {}).get("ty", {})
        self.summaries = summaries or {}
        self.assume = list(assume)
        self.given = list(given)     # facts that hold at entry unconditionally (item lengths of chunks_exact / chunks closures)
        self.requires = requires or {}
        self._ovf = {}
        self.minmax = {}
        self.byte_refs = set()
        self.atom_src = {}   # atom -> (kind, detail)
        self.atom_ty = {}
        self.phi_src = {}    # phi atom -> set of Lin it merges
        self.sinks = []
        self.max_iter = max_iter
        self.in_state = {}
        self._run()

    # ---- helpers -------------------------------------------------------------------------------------------------
    def ty(self, l):
        return self.b.local_ty(l) or ""

    def fresh(self, tag, bb, idx, kind, detail="", ty=None):
        a = (tag, bb, idx)
        self.atom_src[a] = (kind, detail)
        if ty is not None:
            self.atom_ty[a] = ty
        return Lin.atom(a)

    def operand(self, st, o, bb=-1, idx=-1):
        if o["k"] == "c":
            v = op_const(o)
            if v is not None and INT.match(o.get("ty", "")):
                return Lin(int(v))
            if o.get("ty") == "bool" and v is not None:
                return Lin(int(v))
            return None
        if o["k"] in ("cp", "mv"):
            return self.place(st, o["p"], bb, idx)
        return None

    def place(self, st, p, bb=-1, idx=-1):
        if len(p) == 1:
            return st.env.get(p[0])
        # tuple field of a temp: (_t.0)
        if len(p) == 2 and isinstance(p[1], dict) and "f" in p[1] and "d" not in p[1]:
            v = st.env.get((p[0], p[1]["f"]))
            if v is not None:
                return v
        # (x as Some).0 / (x as Ok).0 / Continue payload
        if len(p) == 3 and isinstance(p[1], dict) and "d" in p[1] and isinstance(p[2], dict) and "f" in p[2]:
            v = st.env.get((p[0], "payload"))
            if v is not None and p[1]["d"] in ("Some", "Ok", "Continue"):
                return v
        # *r where r is a reference to a local holding a known value
        if len(p) == 2 and p[1] == "*":
            if p[0] in st.pts:
                return st.env.get(st.pts[p[0]])
            if self.is_slice_ref(p[0]):
                return st.env.get(p[0])
            if re.match(r"^&(mut )?(u8|u16|u32|u64|usize)$", self.ty(p[0])):
                # an integer behind a reference (`offset: &mut usize`): one value until something writes through the reference
                if (p[0], "*") not in st.env:
                    a_ = ("drf", p[0], st.ver.get(p[0], 0), bb, idx)
                    # a reference to ONE byte of a byte slice (slice pattern `[tag, len, rest @ ..]`) is an input load
                    self.atom_src[a_] = ("input" if p[0] in self.byte_refs else "param" if 1 <= p[0] <= self.b.argc else "other", "")
                    self.atom_ty[a_] = self.ty(p[0]).split(" ")[-1].lstrip("&")
                    st.env[(p[0], "*")] = Lin.atom(a_)
                return st.env[(p[0], "*")]
        return None

    def resolve_fld(self, st, ident, path):
        """look through struct literals: (`Self { footer, .. }`, ('footer', 'x')) -> (identity of footer, ('x',))"""
        hops = 0
        while ident is not None and ident[0] in ("vec", "arg") and ident[1] in st.agg and hops < 4:
            am = dict(st.agg[ident[1]])
            if "=" in am:
                ident = am["="]
                hops += 1
                continue
            if len(path) <= 1 or path[0] not in am:
                break
            ident = am[path[0]]
            path = tuple(path[1:])
            hops += 1
        return ident, tuple(path)

    def field_atom(self, st, p):
        """canonical atom for `base.f.g` / `(*base).f.g`: the same field of the same (unchanged) object is the same value"""
        l = p[0]
        rest = p[1:]
        ident = None
        if rest and rest[0] == "*":
            ident = self.value_atom(st, {"k": "cp", "p": [l]})
            if ident == ("arg", l) and st.ver.get(l, 0) != 0:
                ident = ("vec", l, st.ver.get(l, 0))     # something was written through this `&mut` parameter: not the entry object any more
            rest = rest[1:]
        else:
            ident = ("vec", l, st.ver.get(l, 0))
            if 1 <= l <= self.b.argc and st.ver.get(l, 0) == 0:
                ident = ("arg", l)     # a by-value struct / tuple parameter that was not touched: its fields are entry values
        if ident is None or not rest or not all(isinstance(e, dict) and "f" in e and "d" not in e for e in rest):
            return None
        # `Self { footer, .. }` then `self.footer.x`, `_t = move footer`: the field IS the field of the value it was built / moved from
        names = tuple(str(e.get("n") or e.get("f")) for e in rest)
        ident, names2 = self.resolve_fld(st, ident, names)
        rest = rest[len(names) - len(names2):]
        if isinstance(ident, tuple) and ident[0] == "vec" and isinstance(ident[2], tuple) and ident[2][0] == "vol":
            return None
        path = tuple(str(e.get("n") or e.get("f")) for e in rest)
        a = ("fld", ident, path)
        last = rest[-1]
        if a not in self.atom_src:
            kind = "field:%s.%s" % (last.get("a") or "?", last.get("n")) if last.get("a") else "other"
            self.atom_src[a] = (kind, "")
            self.atom_ty[a] = last.get("t", "")
        return a

    def is_slice_ref(self, l):
        return bool(re.match(r"^&(mut )?(\[|str$)", self.ty(l)))

    def value_atom(self, st, o):
        """identity of the slice / container an operand denotes (for len purposes)"""
        if o["k"] not in ("cp", "mv"):
            return None
        p = o["p"]
        l = p[0]
        if len(p) == 1:
            if l in st.pts:
                v = st.pts[l]
                ver = st.ver.get(v, 0)
                if isinstance(ver, tuple) and ver[0] == "vol":
                    self._vol = getattr(self, "_vol", 0) + 1
                    return ("vec", v, ("vol", self._vol))
                return ("vec", v, ver)
            e = st.env.get(l)
            if e is not None and e.single() is not None:
                return e.single()
            return None
        if len(p) == 2 and p[1] == "*":
            return self.value_atom(st, {"k": "cp", "p": [l]})
        return None

    def len_of(self, st, va):
        if va is None:
            return None
        if va in st.lendef:
            return st.lendef[va]
        if va[0] == "vec":
            m = re.match(r"^(&(mut )?)?\[.*; (\d+)\]$", self.ty(va[1]))
            if m:
                return Lin(int(m.group(3)))
        if va[0] == "arg":
            m = re.match(r"^&(mut )?\[.*; (\d+)\]$", self.ty(va[1]))
            if m:
                return Lin(int(m.group(2)))
        return Lin.atom(("len", va))

    def kill(self, st, l):
        st.env.pop(l, None)
        for k in [k for k in st.env if isinstance(k, tuple) and k[0] == l]:
            st.env.pop(k, None)
        st.cmp.pop(l, None)
        st.pts.pop(l, None)
        st.rng.pop(l, None)
        st.post.pop(l, None)
        st.disc.pop(l, None)
        st.clos.pop(l, None)
        st.agg.pop(l, None)
        st.ver[l] = (st.ver.get(l, 0) + 1) if isinstance(st.ver.get(l, 0), int) else ("k", st.ver.get(l))

    # ---- transfer ------------------------------------------------------------------------------------------------
    def assign(self, st, bb, idx, s):
        p = s["p"]
        r = s["r"]
        if CAST_SINKS[0] and r["k"] == "Cast" and len(p) > 1 and isinstance(p[-1], dict) and p[-1].get("t") in ("u8", "u16") and not s.get("x"):
            # `self.count = n as u16`: the cast writes straight into a field
            o_ = r["o"][0]
            src_ = self.operand(st, o_, bb, idx)
            sty_ = o_.get("ty") if o_["k"] == "c" else (self.ty(o_["p"][0]) if len(o_["p"]) == 1 else (o_["p"][-1].get("t", "") if isinstance(o_["p"][-1], dict) else ""))
            dty_ = p[-1]["t"]
            if src_ is not None and UNSIGNED.match(sty_ or "") and WIDTH.get(sty_, 0) > WIDTH[dty_]:
                self.sink(st, bb, "narrowcast", "%s as %s" % (sty_, dty_), [src_.addc(-((1 << WIDTH[dty_]) - 1))], [src_], "%s:%d" % (self.b.file, s.get("l", 0)))
        if len(p) == 2 and p[1] == "*" and re.match(r"^&mut (u8|u16|u32|u64|usize)$", self.ty(p[0])):
            v_ = None
            if r["k"] == "Use":
                v_ = self.operand(st, r["o"][0], bb, idx)
            if v_ is not None:
                st.env[(p[0], "*")] = v_
            else:
                st.env.pop((p[0], "*"), None)
            return
        if len(p) != 1:
            # write through a projection: the base container may change
            base = p[0]
            if base in st.pts:
                v = st.pts[base]
                st.ver[v] = (st.ver.get(v, 0) + 1) if isinstance(st.ver.get(v, 0), int) else 1
            elif not (len(p) == 2 and isinstance(p[1], dict) and "f" in p[1]):
                st.ver[base] = (st.ver.get(base, 0) + 1) if isinstance(st.ver.get(base, 0), int) else 1
            else:
                st.env.pop((base, p[1]["f"]), None)
            return
        d = p[0]
        k = r["k"]
        val = None
        cmpv = None
        ptsv = None
        rngv = None
        closv = None
        aggv = None
        fields = {}
        if k == "Use":
            o = r["o"][0]
            val = self.operand(st, o, bb, idx)
            if o["k"] in ("cp", "mv") and len(o["p"]) == 1:
                src = o["p"][0]
                if src in self.byte_refs:
                    self.byte_refs.add(d)
                cmpv = st.cmp.get(src)
                ptsv = st.pts.get(src)
                rngv = st.rng.get(src)
                for kk, vv in st.env.items():
                    if isinstance(kk, tuple) and kk[0] == src:
                        fields[kk[1]] = vv
            if val is None and o["k"] in ("cp", "mv") and INT.match(self.ty(d)) and len(o["p"]) >= 2 and o["p"][0] == 1 and self.b.root:
                ups = [e for e in o["p"][1:] if isinstance(e, dict) and str(e.get("n", "")).startswith("upvar:")]
                if ups and all(e == "*" or e in ups for e in o["p"][1:]):
                    ua = ("up", ups[0]["f"])
                    self.atom_src.setdefault(ua, ("other", ups[0]["n"]))
                    self.atom_ty.setdefault(ua, self.ty(d))
                    val = Lin.atom(ua)
            if val is None and o["k"] in ("cp", "mv") and (INT.match(self.ty(d)) or self.is_slice_ref(d)) and len(o["p"]) >= 2:
                fa = self.field_atom(st, o["p"])
                if fa is not None:
                    val = Lin.atom(fa)
            if val is None and o["k"] in ("cp", "mv") and len(o["p"]) >= 2 and re.match(r"^core::option::Option<(u8|u16|u32|u64|usize)>$", self.ty(d)):
                # an optional header field (`content_key_size: Option<u8>`): what `unwrap_or(..)` makes of it is still that field
                fl = [e for e in o["p"][1:] if isinstance(e, dict) and "f" in e and e.get("a")]
                if fl:
                    fields["payload"] = self.fresh("ld", bb, idx, "field:%s.%s" % (fl[-1]["a"], fl[-1]["n"]), "")
                    self.atom_ty[fields["payload"].single()] = re.search(r"<(\w+)>", self.ty(d)).group(1)
            if val is None and o["k"] in ("cp", "mv") and INT.match(self.ty(d)):
                # a load: from a byte slice -> input; else opaque
                base_ty = self.ty(o["p"][0])
                kind = "other"
                if len(o["p"]) == 2 and o["p"][1] == "*" and o["p"][0] in self.byte_refs:
                    kind = "input"
                if any(isinstance(e, dict) and "i" in e for e in o["p"][1:]) or any(isinstance(e, dict) and ("ci" in e or "sub" in e) for e in o["p"][1:]):
                    if re.search(r"\[u8", base_ty):
                        kind = "input"
                fl = [e for e in o["p"][1:] if isinstance(e, dict) and "f" in e and e.get("a")]
                if fl:
                    kind = "field:%s.%s" % (fl[-1]["a"], fl[-1]["n"])
                val = self.fresh("ld", bb, idx, kind, "")
        elif k == "Bin":
            a = self.operand(st, r["o"][0], bb, idx)
            c = self.operand(st, r["o"][1], bb, idx)
            op = r["op"]
            if op in ("Add", "AddUnchecked", "AddWithOverflow") and a is not None and c is not None:
                v = a.add(c)
                if op == "AddWithOverflow":
                    fields[0] = v
                    self._ovf[(bb, d)] = ("Add", v, a, c)
                else:
                    val = v
            elif op in ("Sub", "SubUnchecked", "SubWithOverflow") and a is not None and c is not None:
                v = a.sub(c)
                if op == "SubWithOverflow":
                    fields[0] = v
                    self._ovf[(bb, d)] = ("Sub", v, a, c)
                else:
                    val = v
            elif op in ("Mul", "MulUnchecked", "MulWithOverflow") and a is not None and c is not None and (a.is_const() or c.is_const()):
                v = c.scale(a.c) if a.is_const() else a.scale(c.c)
                if op == "MulWithOverflow":
                    fields[0] = v
                    self._ovf[(bb, d)] = ("Mul", v, a, c)
                else:
                    val = v
            elif op in ("Lt", "Le", "Gt", "Ge", "Eq", "Ne") and a is not None and c is not None:
                cmpv = (op, a, c)
            elif op in ("Div",) and a is not None and c is not None and c.is_const() and c.c > 0:
                # q = a / k :  k*q <= a  and  a <= k*q + (k-1)
                q = self.fresh("div", bb, idx, "derived", "")
                self.derive(q, [a])
                st.facts = st.facts | {q.scale(c.c).sub(a), a.sub(q.scale(c.c)).addc(-(c.c - 1))}
                val = q
            elif op in ("Rem",) and a is not None and c is not None and c.is_const() and c.c > 0:
                q = self.fresh("rem", bb, idx, "derived", "")
                st.facts = st.facts | {q.addc(-(c.c - 1))}
                val = q
            elif op in ("Rem",) and a is not None and c is not None and not c.is_const():
                q = self.fresh("rem", bb, idx, "derived", "")
                self.derive(q, [a])
                st.facts = st.facts | {q.addc(1).sub(c)}      # x % d < d (d == 0 panics at the remainder itself)
                val = q
            elif op in ("BitAnd",) and c is not None and c.is_const() and c.c >= 0:
                q = self.fresh("and", bb, idx, "derived", "")
                st.facts = st.facts | {q.addc(-c.c)}
                val = q
            elif op in ("Shr", "ShrUnchecked") and a is not None and c is not None and c.is_const():
                q = self.fresh("shr", bb, idx, "derived", "")
                self.derive(q, [a])
                st.facts = st.facts | {q.scale(1 << c.c).sub(a)}
                val = q
            if val is None and not fields and cmpv is None and INT.match(self.ty(d)):
                val = self.fresh("op", bb, idx, "derived", "")
                self.derive(val, [x for x in (a, c) if x is not None])
        elif k == "Cast" and self.is_slice_ref(d) and r["o"][0]["k"] in ("cp", "mv") and len(r["o"][0]["p"]) == 1:
            # unsizing coercion &[T; N] -> &[T]: the same memory, the array's length
            sl0 = r["o"][0]["p"][0]
            ptsv = st.pts.get(sl0)
            val = st.env.get(sl0)
            if val is None and ptsv is None:
                m_ = re.match(r"^&(mut )?\[.*; (\d+)\]$", self.ty(sl0))
                if m_:
                    val = self.fresh("arr", bb, idx, "other", "")
                    st.lendef[val.single()] = Lin(int(m_.group(2)))
        elif k == "Cast":
            o = r["o"][0]
            src = self.operand(st, o, bb, idx)
            sty = o.get("ty") if o["k"] == "c" else (self.ty(o["p"][0]) if len(o["p"]) == 1 else (o["p"][-1].get("t", "") if isinstance(o["p"][-1], dict) else ""))
            dty = self.ty(d)
            if src is not None and INT.match(dty) and (UNSIGNED.match(sty or "") or src.is_const()) and WIDTH.get(dty, 0) >= WIDTH.get(sty or "", 999 if not src.is_const() else 0):
                val = src
            elif src is not None and INT.match(dty):
                if CAST_SINKS[0] and dty in ("u8", "u16") and UNSIGNED.match(sty or "") and not s.get("x"):
                    self.sink(st, bb, "narrowcast", "%s as %s" % (sty, dty), [src.addc(-((1 << WIDTH[dty]) - 1))], [src], "%s:%d" % (self.b.file, s.get("l", 0)))
                val = self.fresh("cast", bb, idx, "derived", "")
                self.derive(val, [src])
                if UNSIGNED.match(sty or "") and UNSIGNED.match(dty):
                    st.facts = st.facts | {val.sub(src)}   # truncation only shrinks
        elif k == "Un":
            if r["op"] == "PtrMetadata":
                va = self.value_atom(st, r["o"][0])
                val = self.len_of(st, va)
            elif r["op"] == "Not":
                src = r["o"][0]
                if src["k"] in ("cp", "mv") and len(src["p"]) == 1 and src["p"][0] in st.cmp:
                    op, a, c = st.cmp[src["p"][0]]
                    cmpv = ({"Lt": "Ge", "Le": "Gt", "Gt": "Le", "Ge": "Lt", "Eq": "Ne", "Ne": "Eq"}[op], a, c)
        elif k == "Discr":
            rp = r["p"]
            if len(rp) == 1:
                self._disc_new = rp[0]
        elif k == "Len":
            va = self.value_atom(st, {"k": "cp", "p": r["p"]}) if "p" in r else None
            val = self.len_of(st, va)
        elif k in ("Ref", "RawPtr"):
            rp = r["p"]
            if len(rp) == 1:
                ptsv = rp[0]
            elif len(rp) == 2 and rp[1] == "*":
                # reborrow: same value
                val = st.env.get(rp[0])
                ptsv = st.pts.get(rp[0])
            elif any(isinstance(e, dict) and ("i" in e or "ci" in e) for e in rp[1:]) and re.search(r"\[u8", self.ty(rp[0])):
                self.byte_refs.add(d)      # a reference to one byte of a byte slice (slice patterns: `[tag, len, rest @ ..]`)
            elif len(rp) >= 3 and rp[-1] == "*" and isinstance(rp[-2], dict) and re.match(r"^&(mut )?(\[[^;]*\]|str)$", rp[-2].get("t", "")) and self.field_atom(st, rp[:-1]) is not None:
                # &*self.data where the field is itself a slice reference: the same slice (a slice cannot be resized through any reference)
                val = Lin.atom(self.field_atom(st, rp[:-1]))
            elif not r.get("mut") and self.field_atom(st, rp) is not None:
                # &self.field / &(*p).field: the container stored in that field of that (unchanged) object
                val = Lin.atom(self.field_atom(st, rp))
            elif r.get("mut"):
                base = rp[0]
                tgt = st.pts.get(base, base)
                st.ver[tgt] = (st.ver.get(tgt, 0) + 1) if isinstance(st.ver.get(tgt, 0), int) else 1
        elif k == "Agg":
            if r.get("ak") == "adt" and re.search(r"ops::range::Range(From|To|Inclusive|ToInclusive)?$", r.get("adt", "")):
                kind = r["adt"].split("::")[-1]
                ops = [self.operand(st, o, bb, idx) for o in r["o"]]
                if kind == "Range" and len(ops) == 2:
                    rngv = ("Range", ops[0], ops[1])
                elif kind == "RangeFrom":
                    rngv = ("RangeFrom", ops[0], None)
                elif kind == "RangeTo":
                    rngv = ("RangeTo", None, ops[0])
                else:
                    rngv = (kind, None, None)
            elif r.get("ak") == "adt" and r.get("variant") in ("Ok", "Some") and len(r["o"]) == 1 and re.search(r"result::Result$|option::Option$", r.get("adt", "")):
                pv_ = self.operand(st, r["o"][0], bb, idx)
                if pv_ is not None:
                    fields["payload"] = pv_
            elif r.get("ak") == "adt" and r.get("fields") and r.get("adt", "").startswith(("cascette_", "verif_selftest")):
                am = {}
                for fn_, o in zip(r["fields"], r["o"]):
                    if o["k"] in ("cp", "mv") and len(o["p"]) == 1 and not INT.match(self.ty(o["p"][0])):
                        l0 = o["p"][0]
                        am[fn_] = ("vec", l0, st.ver.get(l0, 0)) if not (1 <= l0 <= self.b.argc and st.ver.get(l0, 0) == 0) else ("arg", l0)
                        al_ = dict(st.agg.get(l0, ())).get("=")
                        if al_ is not None:
                            am[fn_] = al_         # the operand is itself a moved struct: keep the identity it was moved from
                    v_ = self.operand(st, o, bb, idx)
                    if v_ is not None:
                        fields[fn_] = v_
                if am:
                    aggv = tuple(sorted(am.items()))
            elif r.get("ak") == "closure":
                caps = []
                for o in r["o"]:
                    v = None
                    if o["k"] in ("cp", "mv") and len(o["p"]) == 1:
                        l0 = o["p"][0]
                        v = st.env.get(st.pts[l0]) if l0 in st.pts else st.env.get(l0)
                    elif o["k"] == "c":
                        v = self.operand(st, o, bb, idx)
                    caps.append(v)
                closv = (r.get("body"), tuple(caps))
            elif r.get("ak") == "tuple":
                for i, o in enumerate(r["o"]):
                    v = self.operand(st, o, bb, idx)
                    if v is not None:
                        fields[i] = v
        src_len = None
        src_post = None
        if k == "Use" and r["o"][0]["k"] in ("cp", "mv") and len(r["o"][0]["p"]) == 1:
            sl_ = r["o"][0]["p"][0]
            src_len = st.lendef.get(("vec", sl_, st.ver.get(sl_, 0)))
            src_post = st.post.get(sl_)
        disc_new = getattr(self, "_disc_new", None)
        self._disc_new = None
        self.kill(st, d)
        if src_post is not None:
            st.post[d] = src_post
        if disc_new is not None:
            st.disc[d] = disc_new
        if src_len is not None:
            st.lendef[("vec", d, st.ver.get(d, 0))] = src_len
        if val is not None and val.single() is not None and val.single() in self.atom_src and val.single() not in self.atom_ty and val.single()[1:] == (bb, idx):
            self.atom_ty[val.single()] = self.ty(d)
        if val is None and INT.match(self.ty(d)) and not fields and cmpv is None:
            val = self.fresh("v", bb, idx, "other", "", self.ty(d))
        if val is None and self.is_slice_ref(d) and ptsv is None:
            val = self.fresh("s", bb, idx, "other", "")
        if val is not None:
            st.env[d] = val
        for f, v in fields.items():
            st.env[(d, f)] = v
        if cmpv is not None:
            st.cmp[d] = cmpv
        if ptsv is not None:
            st.pts[d] = ptsv
        if rngv is not None:
            st.rng[d] = rngv
        if aggv is not None:
            st.agg[d] = aggv
        elif k == "Use" and r["o"][0]["k"] in ("cp", "mv") and len(r["o"][0]["p"]) == 1 and self.ty(d).startswith(("cascette_", "verif_selftest")):
            # a struct moved into a temporary keeps its identity (`_443 = move footer`): field facts about the source hold for the copy
            l0_ = r["o"][0]["p"][0]
            src_ver = getattr(self, "_src_ver", {}).get((bb, idx))
            st.agg[d] = (("=", ("vec", l0_, st.ver.get(l0_, 0)) if not (1 <= l0_ <= self.b.argc and st.ver.get(l0_, 0) == 0) else ("arg", l0_)),)
        if closv is not None:
            st.clos[d] = closv
        elif k == "Use" and r["o"][0]["k"] in ("cp", "mv") and len(r["o"][0]["p"]) == 1 and r["o"][0]["p"][0] in st.clos:
            st.clos[d] = st.clos[r["o"][0]["p"][0]]

    def derive(self, lin, srcs):
        a = lin.single()
        if a is not None:
            self.phi_src.setdefault(a, set())
            for s in srcs:
                self.phi_src[a] |= s.atoms()

    def fact_of(self, cmpv, truth):
        op, a, c = cmpv
        if not truth:
            op = {"Lt": "Ge", "Le": "Gt", "Gt": "Le", "Ge": "Lt", "Eq": "Ne", "Ne": "Eq"}[op]
        if op == "Lt":
            return [a.sub(c).addc(1)]
        if op == "Le":
            return [a.sub(c)]
        if op == "Gt":
            return [c.sub(a).addc(1)]
        if op == "Ge":
            return [c.sub(a)]
        if op == "Eq":
            return [a.sub(c), c.sub(a)]
        if op == "Ne":
            # x != 0 for a non-negative x: x >= 1
            for x, y in ((a, c), (c, a)):
                if y.is_const() and y.c == 0 and x.t and all(v > 0 and self.unsigned_atom(at) for at, v in x.t.items()) and x.c >= 0:
                    return [Lin(1).sub(x)]
        return []

    # ---- proving -------------------------------------------------------------------------------------------------
    def unsigned_atom(self, a):
        if a[0] in ("len", "div", "rem", "and", "shr"):
            return True
        if a[0] == "arg":
            return bool(UNSIGNED.match(self.ty(a[1])))
        if a[0] == "phi":
            l = a[2]
            return isinstance(l, int) and bool(UNSIGNED.match(self.ty(l)))
        return bool(UNSIGNED.match(self.atom_ty.get(a, "")))

    def prove(self, st, g, depth=0):
        """-> (description, [facts used]) or None"""
        if depth < 2:
            # m = min(a, b) below a bound (coefficient < 0): it is one of the two - prove both cases; dually for max above
            for at_, v_ in g.t.items():
                mm = self.minmax.get(at_)
                if mm and ((mm[0] == "min" and v_ < 0) or (mm[0] == "max" and v_ > 0)):
                    rest = Lin(g.c, {x: y for x, y in g.t.items() if x != at_})
                    p1 = self.prove(st, rest.add(mm[1], v_), depth + 1)
                    p2 = self.prove(st, rest.add(mm[2], v_), depth + 1) if p1 else None
                    if p1 and p2:
                        return ("%s case split: %s | %s" % (mm[0], p1[0], p2[0]), p1[1] + p2[1])
        cands = [g]
        neg = [a for a, v in g.t.items() if v < 0 and self.unsigned_atom(a)]
        if neg:
            g2 = Lin(g.c, {a: v for a, v in g.t.items() if a not in neg})
            cands.append(g2)
            for a in neg:
                cands.append(Lin(g.c, {x: v for x, v in g.t.items() if x != a}))
        facts = list(st.facts)
        # value ranges of narrow unsigned types (u8 index into a [T; 256] table)
        for a, v in g.t.items():
            aty = self.atom_ty.get(a, "") if a[0] != "arg" else self.ty(a[1])
            w = WIDTH.get(aty, 0)
            if v > 0 and w in (8, 16) and UNSIGNED.match(aty):
                facts.append(Lin(-((1 << w) - 1), {a: 1}))
        for gg in cands:
            if gg.is_const() and gg.c <= 0:
                return ("constant", [])
            for f in facts:
                d = gg.sub(f)
                if d.is_const() and d.c <= 0:
                    return ("fact %r <= 0" % f, [f])
            rel = [f for f in facts if f.atoms() & gg.atoms()]
            for f in rel:
                d = gg.sub(f)
                if d.c <= 0 and d.t and all(v < 0 and self.unsigned_atom(a) for a, v in d.t.items()):
                    return ("fact %r <= 0 (and x >= 0)" % f, [f])
            for f1 in rel:
                d1 = gg.sub(f1)
                if len(d1.t) > 5:
                    continue
                for f2 in facts:
                    if f2 is f1 or not (f2.atoms() & d1.atoms()):
                        continue
                    d = d1.sub(f2)
                    if d.is_const() and d.c <= 0:
                        return ("facts %r <= 0 and %r <= 0" % (f1, f2), [f1, f2])
                    if d.c <= 0 and d.t and all(v < 0 and self.unsigned_atom(a) for a, v in d.t.items()):
                        return ("facts %r <= 0 and %r <= 0 (and x >= 0)" % (f1, f2), [f1, f2])
        return None

    def upper(self, st, lin):
        """an upper bound of a linear expression from the value ranges of its atoms (type width, `atom <= k` facts), or None"""
        ub = lin.c
        for a, v in lin.t.items():
            aty = self.atom_ty.get(a, "") if a[0] != "arg" else self.ty(a[1])
            if v > 0:
                best = None
                if UNSIGNED.match(aty) and WIDTH.get(aty, 64) <= 32:
                    best = (1 << WIDTH[aty]) - 1
                for f in st.facts:
                    if len(f.t) == 1 and f.t.get(a, 0) > 0:
                        k_ = (-f.c) // f.t[a]
                        best = k_ if best is None else min(best, k_)
                if best is None:
                    return None
                ub += v * best
            else:
                if not self.unsigned_atom(a):
                    return None
        return ub

    # ---- sinks ---------------------------------------------------------------------------------------------------
    def char_boundary(self, st, x, va, ln, _depth=0):
        """is byte offset `x` of the str `va` certainly a character boundary? 0, the length, where a `find` match starts, and where it ends
        when the pattern's byte length is exact (a literal, a constant char, another str)"""
        if x.is_const():
            return x.c == 0
        if ln is not None and x.sub(ln).is_const() and x.sub(ln).c == 0:
            return True
        for sub, (parent, start) in list(self.slice_of.items()):
            # an offset into `&s[start..]` is an offset into `s` (reaching this point means `start` was a boundary)
            if parent == va and _depth < 3 and any(self.pos_info.get(a_, (None,))[0] == sub for a_ in x.atoms()):
                if self.char_boundary(st, x.sub(start), sub, self.len_of(st, sub), _depth + 1):
                    return True
        for a_ in x.atoms():
            info = self.pos_info.get(a_)
            if info is None or x.t.get(a_) != 1 or info[0] is None or info[0] != va:
                continue
            rest = x.sub(Lin.atom(a_))
            if rest.is_const() and rest.c == 0:
                return True
            if info[1] is not None and rest.sub(info[1]).is_const() and rest.sub(info[1]).c == 0:
                return True
        return False

    def sink(self, st, bb, kind, what, goals, index_lins, loc):
        proofs = []
        ok = True
        used = set()
        st0 = st
        if self.assume and (st.facts & set(self.assume)):
            st0 = st.copy()
            st0.facts = st.facts - set(self.assume)
        for g in goals:
            pr = (self.prove(st0, g) or self.prove(st, g)) if g is not None else None
            proofs.append(pr[0] if pr else None)
            if pr is None:
                ok = False
            else:
                used |= {f for f in pr[1] if f in self.assume}
        sk = Sink(self.b, bb, kind, what, goals, index_lins, loc, ok, proofs)
        sk.used_assumptions = used
        self._sinks_now.append(sk)

    def call(self, st, bb, t):
        f = t["f"]
        name = f["fn"]["name"] if f.get("k") == "fn" else ""
        orig = f["fn"].get("orig_name", "") if f.get("k") == "fn" else ""
        args = t["a"]
        at = t.get("at", [])
        d = t["d"][0] if t.get("d") and len(t["d"]) == 1 else None
        loc = "%s:%d" % (self.b.file, t.get("l", 0))
        val = None
        payload = None
        cmpv = None
        ptsv = None
        rngv = None
        lendef = None
        newfacts = []
        a0 = args[0] if args else None
        ptrinfo = None
        a0l = a0["p"][0] if a0 is not None and a0["k"] in ("cp", "mv") and len(a0["p"]) == 1 else None
        if PTR_OF.search(name) and a0 is not None:
            if re.match(r"^&(mut )?(\[u8\]|\[u8; \d+\]|alloc::vec::Vec<u8>)$", strip_regions(at[0]) if at else ""):
                va_ = self.value_atom(st, a0)
                if va_ is not None:
                    ptrinfo = (Lin.atom(va_), Lin(0))
        elif PTR_ADD.search(name) and len(args) == 2 and a0l is not None:
            pb_, po_ = st.env.get((a0l, "pb")), st.env.get((a0l, "po"))
            n_ = self.operand(st, args[1], bb, "t")
            if pb_ is not None and po_ is not None and n_ is not None and re.match(r"^\*(const|mut) u8$", at[0] if at else ""):
                ptrinfo = (pb_, po_.add(n_))
        elif PTR_CAST.search(name) and a0l is not None:
            pb_, po_ = st.env.get((a0l, "pb")), st.env.get((a0l, "po"))
            if pb_ is not None and po_ is not None:
                ptrinfo = (pb_, po_)
        elif vec_mem_width(name) is not None and a0 is not None:
            w_ = vec_mem_width(name)
            pb_, po_ = (st.env.get((a0l, "pb")), st.env.get((a0l, "po"))) if a0l is not None else (None, None)
            what = "%s: %d bytes through a raw pointer" % (name.split("::")[-1], w_)
            ln_ = self.len_of(st, pb_.single()) if pb_ is not None and pb_.single() is not None else None
            if ln_ is not None and po_ is not None:
                self.sink(st, bb, "vecmem", what, [po_.addc(w_).sub(ln_)], [po_], loc)
            else:
                self.sink(st, bb, "vecmem", what, [None], [], loc)
        if LEN_CALL.search(name) and a0 is not None:
            val = self.len_of(st, self.value_atom(st, a0))
        elif EMPTY_CALL.search(name) and a0 is not None:
            ln = self.len_of(st, self.value_atom(st, a0))
            if ln is not None:
                cmpv = ("Eq", ln, Lin(0))
        elif (VIEW_CALL.search(name) or VIEW_CALL.search(orig)) and a0 is not None:
            va = self.value_atom(st, a0)
            if va is not None:
                val = Lin.atom(va)
        elif (IDENT_CALL.search(name) or IDENT_CALL.search(orig)) and a0 is not None and len(args) == 1:
            v = self.operand(st, a0, bb, "t")
            sty = (at[0] if at else "").lstrip("&")
            if v is not None and d is not None and INT.match(self.ty(d)) and (UNSIGNED.match(sty) or v.is_const()) and WIDTH.get(self.ty(d), 0) >= WIDTH.get(sty, 0):
                val = v
            elif a0["k"] in ("cp", "mv") and len(a0["p"]) == 1 and a0["p"][0] in st.rng:
                rngv = st.rng[a0["p"][0]]
            elif v is not None and d is not None and self.is_slice_ref(d):
                val = v
        elif (TRY_CONV.search(name) or TRY_CONV.search(orig)) and a0 is not None:
            v = self.operand(st, a0, bb, "t")
            sty = (at[0] if at else "").lstrip("&")
            if v is not None and (UNSIGNED.match(sty) or v.is_const()):
                payload = v   # Ok(x) carries the same value
        elif MIN_CALL.search(name) and len(args) == 2:
            a = self.operand(st, args[0], bb, "t")
            c = self.operand(st, args[1], bb, "t")
            if d is not None and INT.match(self.ty(d)):
                val = self.fresh("min", bb, "t", "derived", "")
                if a is not None and c is not None:
                    self.minmax[val.single()] = ("min", a, c)
                self.derive(val, [x for x in (a, c) if x is not None])
                for x in (a, c):
                    if x is not None:
                        newfacts.append(val.sub(x))
        elif MAX_CALL.search(name) and len(args) == 2:
            a = self.operand(st, args[0], bb, "t")
            c = self.operand(st, args[1], bb, "t")
            if d is not None and INT.match(self.ty(d)):
                val = self.fresh("max", bb, "t", "derived", "")
                if a is not None and c is not None:
                    self.minmax[val.single()] = ("max", a, c)
                self.derive(val, [x for x in (a, c) if x is not None])
                for x in (a, c):
                    if x is not None:
                        newfacts.append(x.sub(val))
        elif re.search(r"::saturating_add$", name) and len(args) == 2:
            a = self.operand(st, args[0], bb, "t")
            c = self.operand(st, args[1], bb, "t")
            if d is not None and UNSIGNED.match(self.ty(d)):
                val = self.fresh("sadd", bb, "t", "derived", "")
                self.derive(val, [x for x in (a, c) if x is not None])
                for x in (a, c):
                    if x is not None:
                        newfacts.append(x.sub(val))      # r >= a, r >= b (unsigned)
        elif SAT_SUB.search(name) and len(args) == 2:
            a = self.operand(st, args[0], bb, "t")
            c = self.operand(st, args[1], bb, "t")
            if d is not None and INT.match(self.ty(d)):
                val = self.fresh("ssub", bb, "t", "derived", "")
                self.derive(val, [x for x in (a, c) if x is not None])
                if a is not None:
                    newfacts.append(val.sub(a))
                    if c is not None:
                        newfacts.append(a.sub(c).sub(val))   # a - c <= r
        elif CHECKED.search(name) and len(args) == 2:
            a = self.operand(st, args[0], bb, "t")
            c = self.operand(st, args[1], bb, "t")
            op = CHECKED.search(name).group(1)
            if a is not None and c is not None:
                if op == "add":
                    payload = a.add(c)
                elif op == "sub":
                    payload = a.sub(c)
                elif op == "mul" and (a.is_const() or c.is_const()):
                    payload = c.scale(a.c) if a.is_const() else a.scale(c.c)
        elif (INDEX_CALL.search(name) or INDEX_CALL.search(orig)) and len(args) == 2:
            ity = at[1] if len(at) > 1 else ""
            va = self.value_atom(st, args[0])
            ln = self.len_of(st, va)
            what = "%s[%s]" % ((at[0] if at else "?").lstrip("&"), ity.split("::")[-1])
            if INT.match(ity):
                i = self.operand(st, args[1], bb, "t")
                if ln is not None and i is not None:
                    self.sink(st, bb, "index", what, [i.addc(1).sub(ln)], [i], loc)
                else:
                    self.sink(st, bb, "index", what, [None], [i] if i is not None else [], loc)
            elif "Range" in ity and args[1]["k"] in ("cp", "mv") and len(args[1]["p"]) == 1:
                rg = st.rng.get(args[1]["p"][0])
                goals, idxs = [], []
                res_len = None
                if rg and ln is not None:
                    kind, s0, e0 = rg
                    if kind == "Range" and s0 is not None and e0 is not None:
                        goals = [s0.sub(e0), e0.sub(ln)]
                        idxs = [s0, e0]
                        res_len = e0.sub(s0)
                    elif kind == "RangeFrom" and s0 is not None:
                        goals = [s0.sub(ln)]
                        idxs = [s0]
                        res_len = ln.sub(s0)
                    elif kind == "RangeTo" and e0 is not None:
                        goals = [e0.sub(ln)]
                        idxs = [e0]
                        res_len = e0
                    elif kind == "RangeFull":
                        goals = []
                        res_len = ln
                    else:
                        goals = [None]
                elif "RangeFull" in ity:
                    goals = []
                    res_len = ln
                else:
                    goals = [None]
                    if rg:
                        idxs = [x for x in rg[1:] if x is not None]
                if goals:
                    self.sink(st, bb, "range", what, goals, idxs, loc)
                if re.match(r"^&(mut )?(str|alloc::string::String)$", at[0] if at else "") and "RangeFull" not in ity:
                    ends = [x for x in ((rg[1:] if rg else ()) or ())] if rg else [None]
                    if rg and rg[0] in ("RangeFull",):
                        ends = []
                    okb = bool(rg) and all(x is None or self.char_boundary(st, x, va, ln) for x in ends) and any(x is not None for x in ends)
                    self.sink(st, bb, "charboundary", what, [Lin(0)] if okb else [None], [x for x in ends if x is not None], loc)
                if d is not None:
                    val = self.fresh("sl", bb, "t", "other", "")
                    if res_len is not None:
                        lendef = (val.single(), res_len)
                    if va is not None and rg and (rg[1] is not None or rg[0] in ("RangeTo", "RangeFull")):
                        self.slice_of[val.single()] = (va, rg[1] if rg[1] is not None else Lin(0))
        elif FIND_CALL.search(name) and len(args) >= 2:
            # position APIs: Some(p) with p + len(pattern) <= len(haystack) (p < len for element searches)
            ln = self.len_of(st, self.value_atom(st, args[0]))
            if ln is not None:
                payload = self.fresh("pos", bb, "t", "position", name, "usize")
                pl = None
                a1 = args[1]
                if a1["k"] == "c" and isinstance(a1.get("s"), str) and a1.get("ty", "").startswith("&str") or (a1["k"] == "c" and "str" in a1.get("ty", "")):
                    lit = a1.get("s", "")
                    if lit.startswith('"') and lit.endswith('"') and "\\" not in lit:
                        pl = Lin(len(lit) - 2)
                if pl is None and ((a1["k"] == "c" and a1.get("ty") == "char") or (len(at) > 1 and at[1] == "char")):
                    pl = Lin(1)      # a matched char occupies at least one byte
                if pl is None and a1["k"] in ("cp", "mv"):
                    pv = self.value_atom(st, a1)
                    if pv is not None and re.match(r"^&(str|\[)", (at[1] if len(at) > 1 else "")):
                        pl = self.len_of(st, pv)
                if pl is not None:
                    newfacts.append(payload.add(pl).sub(ln))
                newfacts.append(payload.sub(ln))
                if re.match(r"^&(mut )?str$", at[0] if at else ""):
                    # char boundaries: the match starts at one, and ends at one when the pattern's byte length is known exactly
                    exact = pl
                    if a1["k"] == "c" and a1.get("ty") == "char":
                        cp_ = int(a1.get("v", "0") or 0)
                        exact = Lin(1 if cp_ < 0x80 else 2 if cp_ < 0x800 else 3 if cp_ < 0x10000 else 4)
                    elif not (a1["k"] == "c" or (a1["k"] in ("cp", "mv") and re.match(r"^&(str|alloc::string::String)$", (at[1] if len(at) > 1 else "")))):
                        exact = None
                    self.pos_info[payload.single()] = (self.value_atom(st, args[0]), exact)
        elif GET_CALL.search(name) and len(args) == 2 and INT.match((at[1] if len(at) > 1 else "")):
            ln = self.len_of(st, self.value_atom(st, args[0]))
            i_ = self.operand(st, args[1], bb, "t")
            if ln is not None and i_ is not None:
                self._get_post = (1, i_.addc(1).sub(ln))
        elif SPLIT_AT.search(name) and len(args) == 2:
            ln = self.len_of(st, self.value_atom(st, args[0]))
            m = self.operand(st, args[1], bb, "t")
            if ln is not None and m is not None:
                self.sink(st, bb, "split_at", "split_at", [m.sub(ln)], [m], loc)
                if name.endswith("<impl str>::split_at"):
                    okb = self.char_boundary(st, m, self.value_atom(st, args[0]), ln)
                    self.sink(st, bb, "charboundary", "str::split_at", [Lin(0)] if okb else [None], [m], loc)
            else:
                self.sink(st, bb, "split_at", "split_at", [None], [m] if m is not None else [], loc)
        elif COPY_FROM.search(name) and len(args) == 2:
            l1 = self.len_of(st, self.value_atom(st, args[0]))
            l2 = self.len_of(st, self.value_atom(st, args[1]))
            if l1 is not None and l2 is not None:
                self.sink(st, bb, "copy_from_slice", "copy_from_slice", [l1.sub(l2), l2.sub(l1)], [l1, l2], loc)
            else:
                self.sink(st, bb, "copy_from_slice", "copy_from_slice", [None], [], loc)
        elif re.search(r"\bIterator>?::next$", orig or name) and a0 is not None and a0["k"] in ("cp", "mv"):
            # next() on a Range<usize> iterator: the payload p satisfies p + 1 <= end
            base = a0["p"][0]
            tgt = st.pts.get(base, base)
            rg = st.rng.get(tgt)
            if rg and rg[0] == "Range" and rg[2] is not None:
                payload = self.fresh("it", bb, "t", "derived", "")
                self.derive(payload, [x for x in rg[1:] if x is not None])
                newfacts.append(payload.addc(1).sub(rg[2]))
                if rg[1] is not None and rg[1].is_const():
                    newfacts.append(Lin(rg[1].c).sub(payload))
        cid = f["fn"].get("id") if f.get("k") == "fn" else None
        # pure arithmetic helpers: the callee returns a linear function of its arguments (entry_size(key_size) = 3*k + 13)
        if cid in self.summaries and val is None and payload is None:
            S = self.summaries[cid]
            inst = Lin(S.c)
            for a, v in S.t.items():
                sub = self.operand(st, args[a[1] - 1], bb, "t") if a[0] == "arg" and a[1] - 1 < len(args) else None
                if sub is None:
                    inst = None
                    break
                inst = inst.add(sub, v)
            if inst is not None:
                val = inst
        if cid and cid.startswith(("cascette_", "verif_selftest")):
            self.arg_taints = getattr(self, "arg_taints", {})
            for i_, a_ in enumerate(args):
                v_ = self.operand(st, a_, bb, "t")
                if v_ is not None and v_.t:
                    self.arg_taints.setdefault((cid, i_ + 1), set()).update(self.taint_of([v_]))
                elif a_["k"] in ("cp", "mv") and len(a_["p"]) == 1:
                    # a tuple / struct literal passed by value (binrw args): what its fields were built from
                    for kk, vv in st.env.items():
                        if isinstance(kk, tuple) and kk[0] == a_["p"][0] and isinstance(kk[1], int) and vv.t:
                            self.arg_taints.setdefault((cid, i_ + 1), set()).update(self.taint_of([vv]))
        # preconditions of workspace callees (bounds their body could only prove under an assumption about its parameters)
        for H in self.requires.get(cid, ()):
            inst = Lin(H.c)
            okh = True
            idx_l = []
            for a, v in H.t.items():
                sub = None
                if a[0] == "arg" and a[1] - 1 < len(args):
                    sub = self.operand(st, args[a[1] - 1], bb, "t")
                    if sub is not None:
                        idx_l.append(sub)
                elif a[0] == "len" and a[1][0] == "arg" and a[1][1] - 1 < len(args):
                    sub = self.len_of(st, self.value_atom(st, args[a[1][1] - 1]))
                    if sub is not None and not (sub.single() is not None and sub.single()[0] == "len"):
                        idx_l.append(sub)
                elif a[0] == "fld" and a[1][0] == "arg" and a[1][1] - 1 < len(args):
                    act = args[a[1][1] - 1]
                    ident = self.value_atom(st, act)
                    if act["k"] in ("cp", "mv") and len(act["p"]) == 1 and len(a[2]) == 1 and str(a[2][0]).isdigit() and (act["p"][0], int(a[2][0])) in st.env:
                        # a tuple / struct literal passed by value: the field is the operand it was built from
                        sub = st.env[(act["p"][0], int(a[2][0]))]
                        idx_l.append(sub)
                    elif ident is not None:
                        ident, pth_ = self.resolve_fld(st, ident, a[2])
                        na = ("fld", ident, pth_)
                        if na not in self.atom_src:
                            self.atom_src[na] = self.req_src.get(a, ("other", ""))
                            self.atom_ty[na] = self.req_ty.get(a, "")
                        sub = Lin.atom(na)
                        idx_l.append(sub)
                if sub is None:
                    okh = False
                    break
                inst = inst.add(sub, v)
            self.sink(st, bb, "precondition", "precondition of %s: %r <= 0" % (name.split("::")[-1], H), [inst if okh else None], idx_l, loc)
        postv = getattr(self, "_get_post", None)
        self._get_post = None
        if postv is not None:
            pass
        elif cid in self.posts:
            inst_all = []
            for F in self.posts[cid]:
                inst = Lin(F.c)
                for a, v in F.t.items():
                    ident = self.value_atom(st, args[a[1][1] - 1]) if (a[0] == "fld" and a[1][0] == "arg" and a[1][1] - 1 < len(args)) else None
                    if ident is None:
                        inst = None
                        break
                    ident, pth_ = self.resolve_fld(st, ident, a[2])
                    na = ("fld", ident, pth_)
                    if na not in self.atom_src:
                        self.atom_src[na] = self.post_src.get(a, ("other", ""))
                        self.atom_ty[na] = self.post_ty.get(a, "")
                    inst = inst.add(Lin.atom(na), v)
                if inst is not None:
                    inst_all.append(inst)
            if inst_all:
                postv = (0,) + tuple(inst_all)
        elif re.search(r"\bTry>?::branch$", orig or name) and a0 is not None and a0["k"] in ("cp", "mv") and len(a0["p"]) == 1:
            postv = st.post.get(a0["p"][0])
            if payload is None:
                payload = st.env.get((a0["p"][0], "payload"))
        if payload is None and re.search(r"\bOption::<T>::map$|\bResult::<T, E>::map$", name) and len(args) == 2 and a0["k"] in ("cp", "mv") and len(a0["p"]) == 1 \
                and args[1]["k"] in ("cp", "mv") and len(args[1]["p"]) == 1 and args[1]["p"][0] in st.clos:
            body_id, caps = st.clos[args[1]["p"][0]]
            S = self.summaries.get(body_id)
            x = st.env.get((a0["p"][0], "payload"))
            if S is not None and x is not None:
                inst = Lin(S.c)
                for a_, v_ in S.t.items():
                    sub = x if a_ == ("arg", 2) else (caps[a_[1]] if a_[0] == "up" and a_[1] < len(caps) else None)
                    if sub is None:
                        inst = None
                        break
                    inst = inst.add(sub, v_)
                payload = inst
        if payload is None and a0 is not None and a0["k"] in ("cp", "mv") and len(a0["p"]) == 1 and PAYLOAD_KEEP.search(name):
            payload = st.env.get((a0["p"][0], "payload"))      # Option/Result adaptors that keep the success value
        if payload is None and d is not None and val is None:
            m_ = re.match(r"^core::(result::Result|option::Option)<(u8|u16|u32|u64|usize|i8|i16|i32|i64|isize)\b", self.ty(d))
            if m_:
                rtk_ = sorted(self.ret_taints.get(cid, ()))
                kind_ = "input" if (INPUT_CALL.search(name) or INPUT_CALL.search(orig) or "input" in rtk_) else (rtk_[0] if rtk_ else "call:%s" % name.split("::")[-1])
                payload = self.fresh("pay", bb, "t", kind_, name, m_.group(2))
                srcs_ = [self.operand(st, a, bb, "t") for a in args]
                self.derive(payload, [x for x in srcs_ if x is not None])
        # effects on arguments: anything passed by &mut may change
        keep_rng = None
        for i, a in enumerate(args):
            if a["k"] in ("cp", "mv") and len(a["p"]) == 1:
                l = a["p"][0]
                aty = at[i] if i < len(at) else self.ty(l)
                if aty.startswith("&mut") or aty.startswith("&'") and " mut " in aty[:12]:
                    st.env.pop((l, "*"), None)
                    tgt = st.pts.get(l)
                    if tgt is None:
                        # a reborrow of a `&mut` parameter (`self.advance()`): the callee may write any field of the object
                        e_ = st.env.get(l)
                        a_ = e_.single() if e_ is not None else None
                        inner = re.sub(r"^&('\S+ )?mut ", "", aty)
                        if a_ is not None and a_[0] == "arg" and not (inner.startswith("[") or inner == "str") and not INT.match(inner):
                            st.ver[a_[1]] = ("m", bb, i)
                            for kk in [kk for kk in st.env if isinstance(kk, tuple) and kk[0] == a_[1]]:
                                st.env.pop(kk, None)
                    if tgt is not None:
                        if re.search(r"\bIterator>?::next$", orig or name) and tgt in st.rng:
                            keep_rng = (tgt, st.rng[tgt])
                        inner = re.sub(r"^&('\S+ )?mut ", "", aty)
                        resizing = not (inner.startswith("[") or inner == "str") and not NON_RESIZING.search(name) and not NON_RESIZING.search(orig)
                        if resizing:
                            # the callee may resize the container, or keep the borrow inside what it returns (Cursor::new(&mut v)):
                            # from here on nothing is known about this local's length
                            dty = self.ty(d) if d is not None else ""
                            if "&" in dty or "'" in dty:
                                st.ver[tgt] = ("vol", bb)     # the result may keep the borrow (Cursor::new(&mut v), v.iter_mut())
                            else:
                                st.ver[tgt] = ("m", bb, i)      # mutated once, by this call
                            for kk in [kk for kk in st.lendef if kk[0] == "vec" and kk[1] == tgt]:
                                st.lendef.pop(kk, None)
                        st.env.pop(tgt, None)
                        if keep_rng is None:
                            st.rng.pop(tgt, None)
        vec_len = None
        if FROM_ELEM.search(name) and len(args) == 2:
            vec_len = self.operand(st, args[1], bb, "t")
        elif re.search(r"\bVec::<T>::(with_capacity|new)$|\bVec::<T, A>::(with_capacity_in|new_in)$", name):
            vec_len = Lin(0)     # capacity is not length
        if re.search(r"\bRead>?::read_exact$|AsyncReadExt>?::read_exact$", orig or name) and len(args) >= 2:
            ln_ = self.len_of(st, self.value_atom(st, args[1]))
            if ln_ is not None and ln_.is_const() and ln_.c == 0:
                self.zero_reads = getattr(self, "zero_reads", {})
                self.zero_reads[bb] = loc
        if d is not None:
            self.kill(st, d)
            if ptrinfo is not None:
                st.env[(d, "pb")], st.env[(d, "po")] = ptrinfo
            if vec_len is not None:
                st.lendef[("vec", d, st.ver.get(d, 0))] = vec_len
            if val is None and payload is None and cmpv is None and INT.match(self.ty(d)):
                kind = "other"
                rtk_ = sorted(self.ret_taints.get(cid, ()))
                if INPUT_CALL.search(name) or INPUT_CALL.search(orig) or "input" in rtk_:
                    kind = "input"
                elif rtk_:
                    kind = rtk_[0]
                elif args and not LEN_CALL.search(name):
                    kind = "call:%s" % name.split("::")[-1]
                val = self.fresh("call", bb, "t", kind, name)
                srcs = [self.operand(st, a, bb, "t") for a in args] + [st.env.get((a["p"][0], "payload")) for a in args if a["k"] in ("cp", "mv") and len(a["p"]) == 1]
                self.derive(val, [x for x in srcs if x is not None])
            if val is None and self.is_slice_ref(d):
                val = self.fresh("s", bb, "t", "other", name)
            if val is not None:
                if val.single() is not None and val.single() in self.atom_src and val.single() not in self.atom_ty and val.single()[1:] == (bb, "t"):
                    self.atom_ty[val.single()] = self.ty(d)
                st.env[d] = val
            if payload is not None:
                if payload.single() is not None and payload.single()[1:] == (bb, "t") and payload.single() not in self.atom_ty:
                    self.atom_ty[payload.single()] = "usize"
                st.env[(d, "payload")] = payload
            if cmpv is not None:
                st.cmp[d] = cmpv
            if rngv is not None:
                st.rng[d] = rngv
            if lendef is not None and lendef[0] is not None:
                st.lendef[lendef[0]] = lendef[1]
            if postv is not None:
                st.post[d] = postv
        if newfacts:
            st.facts = st.facts | set(newfacts)

    # ---- fixed point ---------------------------------------------------------------------------------------------
    def _run(self):
        b = self.b
        self.utyped = set()
        entry = State()
        for i in range(1, b.argc + 1):
            a = ("arg", i)
            if INT.match(self.ty(i)) or self.is_slice_ref(i) or re.match(r"^&", self.ty(i)):
                entry.env[i] = Lin.atom(a)
                self.atom_src[a] = ("param", b.local_name(i) or str(i))
        entry.facts = frozenset(self.assume) | frozenset(self.given)
        edge_out = {}   # (src, dst) -> State
        self.in_state = {0: entry}
        work = [0]
        visits = {}
        preds = b.pred
        while work:
            bb = work.pop(0)
            visits[bb] = visits.get(bb, 0) + 1
            if visits[bb] > self.max_iter:
                continue
            st = self.in_state[bb].copy()
            self._sinks_now = []
            blk = b.blocks[bb]
            for idx, s in enumerate(blk["s"]):
                self.assign(st, bb, idx, s)
            t = blk["t"]
            outs = {}
            k = t["k"]
            self.out_state = getattr(self, "out_state", {})
            self.out_state[bb] = st
            if k == "Call":
                self.call(st, bb, t)
                if t.get("t") is not None:
                    outs[t["t"]] = st
            elif k == "Assert":
                c = t["c"]
                cl = c["p"][0] if c["k"] in ("cp", "mv") and len(c["p"]) == 1 else None
                cv = st.cmp.get(cl) if cl is not None else None
                if t.get("m") == "BoundsCheck":
                    loc = "%s:%d" % (b.file, t.get("l", 0))
                    if cv and cv[0] == "Lt":
                        self.sink(st, bb, "bounds", "slice/array index", [cv[1].addc(1).sub(cv[2])], [cv[1]], loc)
                    else:
                        self.sink(st, bb, "bounds", "slice/array index", [None], [], loc)
                if str(t.get("m", "")) in ("DivisionByZero", "RemainderByZero") and cv and cv[0] == "Eq":
                    dv = cv[1] if (cv[2].is_const() and cv[2].c == 0) else cv[2]
                    loc = "%s:%d" % (b.file, t.get("l", 0))
                    g_ = Lin(1).sub(dv)
                    okp = (dv.is_const() and dv.c != 0) or self.prove(st, g_) is not None
                    sk = Sink(self.b, bb, "divzero", "division by a value that may be zero", [g_], [dv], loc, okp, ["nonzero" if okp else None])
                    sk.used_assumptions = set()
                    self._sinks_now.append(sk)
                if str(t.get("m", "")).startswith("Overflow(") and c["k"] in ("cp", "mv") and len(c["p"]) == 2:
                    info = self._ovf.get((bb, c["p"][0]))
                    tty = self.ty(c["p"][0])
                    m_ = re.match(r"^\((\w+), bool\)$", tty)
                    if info and m_ and m_.group(1) in WIDTH:
                        opn, v, a_, c_ = info
                        ity = m_.group(1)
                        loc = "%s:%d" % (b.file, t.get("l", 0))
                        if UNSIGNED.match(ity):
                            if opn == "Sub":
                                goals = [c_.sub(a_)]
                                okp = self.prove(st, goals[0]) is not None
                            else:
                                ub = self.upper(st, v)
                                okp = ub is not None and ub <= (1 << WIDTH[ity]) - 1
                                goals = [v.addc(-((1 << WIDTH[ity]) - 1))]
                                if not okp:
                                    okp = self.prove(st, goals[0]) is not None
                            sk = Sink(self.b, bb, "overflow", "%s in %s" % (opn, ity), goals, [x for x in (a_, c_) if x is not None], loc, okp, ["range" if okp else None])
                            sk.used_assumptions = set()
                            self._sinks_now.append(sk)
                s2 = st
                if cv is not None:
                    s2 = st.copy()
                    s2.facts = s2.facts | set(self.fact_of(cv, bool(t.get("e"))))
                outs[t["t"]] = s2
            elif k == "Switch":
                dl = t["d"]["p"][0] if t["d"]["k"] in ("cp", "mv") and len(t["d"]["p"]) == 1 else None
                cv = st.cmp.get(dl) if dl is not None else None
                vals = [(int(v), tg) for v, tg in t["v"]]
                pf = st.post.get(st.disc.get(dl)) if dl is not None and dl in st.disc else None
                pv = pf[0] if pf else None
                pf = pf[1:] if pf else None
                for v, tg in vals:
                    s2 = st.copy()
                    if pf and v == pv:
                        s2.facts = s2.facts | set(pf)
                    if cv is not None:
                        s2.facts = s2.facts | set(self.fact_of(cv, v != 0))
                    elif dl is not None and dl in st.env and INT.match(self.ty(dl)):
                        s2.facts = s2.facts | {st.env[dl].addc(-v), Lin(v).sub(st.env[dl])}
                    outs[tg] = join([outs[tg], s2], tg, self.phi_src, self.prove) if tg in outs else s2
                if t.get("o") is not None:
                    s2 = st.copy()
                    if pf and vals and all(v != pv for v, _ in vals) and len(vals) == 1:
                        s2.facts = s2.facts | set(pf)
                    if cv is not None and len(vals) == 1:
                        s2.facts = s2.facts | set(self.fact_of(cv, vals[0][0] == 0))
                    tg = t["o"]
                    outs[tg] = join([outs[tg], s2], tg, self.phi_src, self.prove) if tg in outs else s2
            else:
                for sb in b.succ[bb]:
                    outs[sb] = st
            self.sinks_at = getattr(self, "sinks_at", {})
            self.sinks_at[bb] = self._sinks_now
            for tg, s2 in outs.items():
                edge_out[(bb, tg)] = s2
                ins = [edge_out[(p, tg)] for p in preds[tg] if (p, tg) in edge_out]
                new = join(ins, tg, self.phi_src, self.prove) if ins else s2.copy()
                old = self.in_state.get(tg)
                if old is None or not old.same(new):
                    self.in_state[tg] = new
                    if tg not in work:
                        work.append(tg)
        self.sinks = [s for bb in sorted(getattr(self, "sinks_at", {})) for s in self.sinks_at[bb]]
        # validator postcondition: facts about fields of a reference parameter that hold at every `Ok(..)` return
        self.post_facts = None
        okb = []
        for i, blk in enumerate(b.blocks):
            for st_ in blk["s"]:
                if st_["p"] == [0] and st_["r"]["k"] == "Agg" and st_["r"].get("ak") == "adt" and st_["r"].get("variant") == "Ok" and st_["r"].get("adt", "").endswith("result::Result"):
                    okb.append(i)
        outs_ = [self.out_state[i] for i in okb if i in getattr(self, "out_state", {})]
        if outs_:
            common = set(outs_[0].facts)
            for s_ in outs_[1:]:
                common &= s_.facts
            pf = [f for f in common if f.t and all(a[0] == "fld" and a[1][0] == "arg" for a in f.atoms())]
            if pf:
                self.post_facts = sorted(pf, key=repr)
        # what the returned number derives from (so that `parse_number()?` is as much input as the str::parse inside it)
        self.ret_taint = set()
        for i_, so in getattr(self, "out_state", {}).items():
            # (any block: the success value is assigned on one path and joins with error paths before the return block)
            for key_ in (0, (0, "payload")):
                v_ = so.env.get(key_)
                if v_ is not None and v_.t:
                    self.ret_taint |= self.taint_of([v_])
        # return summary: the same linear function of the parameters on every return path
        self.ret = None
        if INT.match(self.ty(0)):
            rets = [self.out_state[i] for i in b.return_blocks() if i in getattr(self, "out_state", {})]
            vals = {s.env.get(0) for s in rets}
            if len(vals) == 1:
                v = next(iter(vals))
                if v is not None and all(a[0] == "arg" or (a[0] == "up" and b.root) for a in v.atoms()):
                    self.ret = v
        for s in self.sinks:
            # what the operation depends on: the index AND the length it is compared with (`output[pos]` into vec![0; header.output_size])
            s.taint = self.taint_of(list(s.index_lins) + [g for g in s.goals if g is not None])

    def taint_of(self, lins):
        out = set()
        seen = set()
        work = []
        for l in lins:
            if l is not None:
                work += list(l.atoms())
        while work:
            a = work.pop()
            if a in seen:
                continue
            seen.add(a)
            if a[0] == "len":
                continue
            src = self.atom_src.get(a)
            if src:
                out.add(src[0])
            for x in self.phi_src.get(a, ()):
                work.append(x)
        return out


def closure_item_facts(prog, b):
    """a closure handed to an adaptor over `slice.chunks_exact(n)` / `slice.chunks(n)` (n constant) receives items of length == n / <= n: entry facts about
    its slice parameters. Found from the parent body: the call that takes this closure has a receiver whose type mentions ChunksExact / Chunks, and the
    parent creates exactly one such iterator with a constant size."""
    if not b.root or not b.parent or b.parent not in prog.bodies or b.coroutine:
        return []
    pb = prog.bodies[b.parent]
    tag = "%s:%d:" % (b.file, b.lines[0])
    kind = None
    for blk in pb.blocks:
        t = blk["t"]
        if t["k"] != "Call":
            continue
        at = t.get("at", [])
        if len(at) >= 2 and any(("{closure@" in x and tag in x) for x in at[1:]):
            if "ChunksExact<" in at[0]:
                kind = "exact"
            elif re.search(r"\bChunks<", at[0]):
                kind = "upto"
    if kind is None:
        return []
    sizes = []
    for c in pb.calls:
        if re.search(r"core::slice::<impl \[T\]>::chunks_exact$" if kind == "exact" else r"core::slice::<impl \[T\]>::chunks$", c.name) and len(c.args) == 2:
            v = op_const(c.args[1])
            sizes.append(int(v) if v is not None else None)
    if len(sizes) != 1 or sizes[0] is None:
        return []
    n = sizes[0]
    out = []
    for k in range(2, b.argc + 1):
        if re.match(r"^&(mut )?\[", b.local_ty(k) or ""):
            ln = ("len", ("arg", k))
            out.append(Lin(-n, {ln: 1}))           # len <= n
            if kind == "exact":
                out.append(Lin(n, {ln: -1}))       # n <= len
    return out


def candidate_hyps(b):
    """hypotheses about the parameters that a helper may rely on: int_param <= len(slice_param)"""
    ints = [i for i in range(1, b.argc + 1) if UNSIGNED.match(b.local_ty(i) or "")]
    seqs = [j for j in range(1, b.argc + 1) if re.match(r"^&(mut )?(\[|str$|alloc::vec::Vec<|alloc::string::String$|bytes::bytes::Bytes$)", b.local_ty(j) or "")]
    return [Lin(0, {("arg", i): 1, ("len", ("arg", j)): -1}) for i in ints for j in seqs]


def entry_only(g):
    return g is not None and bool(g.t) and all(a[0] == "arg" or (a[0] == "len" and a[1][0] == "arg") or (a[0] == "fld" and a[1][0] == "arg") for a in g.atoms())


def analyse_closure(prog, cl, rounds=4, krate_prefix="cascette_"):
    """-> ({body id: Analysis}, {body id: [required Lin]}). Sinks a helper cannot prove from its own guards but that hold under a
    condition on its parameters are DELEGATED: the condition becomes a precondition sink at every in-closure call site."""
    requires = {}
    results = {}
    summaries = {}
    posts = {"facts": {}, "src": {}, "ty": {}, "ret_taints": {}}
    has_caller = set()
    indirect = set()
    for bid in cl:
        for (s_id, how, cc) in prog.callers.get(bid, []):
            if cc is not None and s_id in cl and (prog.bodies[s_id].root or s_id) != bid:
                if how == "call" and cc.id == bid:
                    has_caller.add(bid)
                else:
                    indirect.add(bid)   # reached through trait dispatch / a function reference: no call site to instantiate a precondition at
    # a precondition is only as good as the call sites that check it: a direct call instantiates it; an indirect edge (trait dispatch, fn
    # reference) cannot, and gets an unprovable obligation of its own below (so nothing is dropped silently)
    indirect_edges = {}
    for bid in cl:
        for (s_id, how, cc) in prog.callers.get(bid, []):
            if cc is not None and s_id in cl and (prog.bodies[s_id].root or s_id) != bid and not (how == "call" and cc.id == bid):
                indirect_edges.setdefault(bid, []).append((s_id, cc))
    dirty = None   # None = everything
    callers_of = {}
    for bid in cl:
        for (s_id, how, cc) in prog.callers.get(bid, []):
            if cc is not None and s_id in cl:
                callers_of.setdefault(bid, set()).add(s_id)
    last_req = {}
    for r in range(rounds):
        changed = set()
        for bid in sorted(cl):
            b = prog.bodies[bid]
            if not b.krate.startswith(krate_prefix):
                continue
            if dirty is not None and bid not in dirty:
                continue
            given_ = closure_item_facts(prog, b)
            a0 = Analysis(b, requires=requires, summaries=summaries, posts=posts, given=given_)
            results[bid] = a0
            rt_ = {t_ for t_ in a0.ret_taint if t_ == "input" or t_.startswith("field:cascette_")}
            if rt_ and posts["ret_taints"].get(bid) != rt_ and not b.root:
                posts["ret_taints"][bid] = rt_
                changed.add(bid)
            if a0.ret is not None and summaries.get(bid) != a0.ret:
                summaries[bid] = a0.ret
                changed.add(bid)
            if a0.post_facts and not b.root and posts["facts"].get(bid) != a0.post_facts:
                posts["facts"][bid] = a0.post_facts
                changed.add(bid)
                for f_ in a0.post_facts:
                    for at_ in f_.atoms():
                        posts["src"][at_] = a0.atom_src.get(at_, ("other", ""))
                        posts["ty"][at_] = a0.atom_ty.get(at_, "")
            for sk in a0.sinks:
                sk.delegated = None
            unp = [sk for sk in a0.sinks if not sk.proven]
            req = set()
            if unp and bid in has_caller and not b.root:
                # (1) goals that only mention the parameters: the callers decide
                for sk in unp:
                    if sk.kind == "overflow":
                        continue     # wrap-around is judged where it happens, not at the callers
                    bad = [g for g, d in zip(sk.goals, sk.detail) if d is None]
                    if bad and all(entry_only(g) for g in bad):
                        sk.delegated = bad
                        req |= set(bad)
                # (2) int_param <= len(slice_param)
                rest = [sk for sk in unp if not sk.delegated and sk.kind not in ("overflow", "divzero")]
                hyps = candidate_hyps(b)
                if rest and hyps:
                    a1 = Analysis(b, assume=hyps, requires=requires, summaries=summaries, posts=posts, given=given_)
                    if len(a1.sinks) == len(a0.sinks):
                        for s0, s1 in zip(a0.sinks, a1.sinks):
                            if s0.kind in ("overflow", "divzero"):
                                continue
                            if not s0.proven and not s0.delegated and s1.proven and getattr(s1, "used_assumptions", None):
                                s0.delegated = sorted(s1.used_assumptions, key=repr)
                                req |= set(s1.used_assumptions)
            newr = sorted(req, key=repr)
            if newr != requires.get(bid, []):
                changed.add(bid)
                if newr:
                    requires[bid] = newr
                    for f_ in req:
                        for at_ in f_.atoms():
                            if at_[0] == "fld":
                                posts["src"][at_] = a0.atom_src.get(at_, ("other", ""))
                                posts["ty"][at_] = a0.atom_ty.get(at_, "")
                else:
                    requires.pop(bid, None)
        if not changed:
            break
        dirty = set()
        for c_ in changed:
            dirty |= callers_of.get(c_, set())
            dirty.add(c_)
            par = prog.bodies[c_].parent if c_ in prog.bodies else None
            while par and par in cl:
                dirty.add(par)       # a closure's summary is used where the closure is created and handed to an adaptor
                par = prog.bodies[par].parent
    for bid, reqs in requires.items():
        for (s_id, cc) in indirect_edges.get(bid, []):
            if s_id in results:
                sk = Sink(prog.bodies[s_id], cc.bb, "precondition", "precondition of %s (reached indirectly: %s)" % (bid.split("::")[-1], "; ".join(repr(x) for x in reqs)[:80]),
                          [None], [], cc.loc(), False, [None])
                sk.delegated = None
                sk.used_assumptions = set()
                results[s_id].sinks.append(sk)
    # what the in-closure callers pass for each integer parameter (so that `param` taint can be resolved one level up)
    param_in = {}
    for bid, a in results.items():
        for (cid, i_), ts in getattr(a, "arg_taints", {}).items():
            param_in.setdefault(cid, {}).setdefault(i_, set()).update(ts)
    for bid, a in results.items():
        a.param_in = param_in.get(bid, {})
    return results, requires
