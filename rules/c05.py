"""C05 - local key index and residency DB behave as persistent maps (structural clauses)."""
import re
from .facts import op_local, Slice, uses_of_local, place_fields, op_const
from .lib import (bool_switches, enum_switches, assigns_variant, copies_of, field_writes, forward_calls,
                  const_bool_assign_blocks, path_exists, field_reads)

CRATES = ["cascette_client_storage"]

EXPLANATION = (
    "Static rules over the MIR of cascette-client-storage. R1: every call site of a capacity-limited "
    "append (UpdateSection::append, UpdatePage::push, ResidencyPage::push; discovered by (type, method)) must "
    "consume the returned bool (branch / return / argument) unless the receiver was created in the same body. "
    "R2: in IndexManager::add_entry no path from a failed append reaches an Ok return without a flush and "
    "another append. R3: search_both_sections consults the update section first and a hit passes a "
    "tombstone (Delete) test before it is served; UpdateSection::search iterates newest-first on both levels; "
    "flush and iteration test the same tombstone. R4: every &mut method of ResidencyDb that mutates the "
    "bucket pages sets dirty=true on every path after the mutation, and save() clears dirty only after a "
    "successful rename. Decides these structural necessary conditions, not map equivalence over histories.")

ASSUMPTIONS = [
    "truth of 'map equivalence over all histories' is not decided; only the listed structural clauses are",
]

CFG = {
    "append_pat": r"(index::update::UpdateSection::append|index::update::UpdatePage::push|kmt::key_state::ResidencyPage::push)$",
    "append_floor": 7,
    "add_entry": ("IndexManager", "add_entry"),
    "flush_pat": r"IndexManager::flush_updates_for_bucket$",
    "search_both": ("IndexManager", "search_both_sections"),
    "update_search_pat": r"UpdateSection::search$",
    "sorted_search_pat": r"binary_search",
    "status_eq_pat": r"UpdateStatus as core::cmp::PartialEq>::(eq|ne)$",
    "to_entry_pat": r"UpdateEntry::to_index_entry$",
    "section_search": ("UpdateSection", "search"),
    "resdb": "ResidencyDb",
    "resdb_field": "buckets",
    "dirty": "dirty",
    "rename_pat": r"std::fs::rename",
}


def flows_to_consumer(body, local):
    """does the value in `local` reach a branch, the return place or a call argument (through copies,
    `!` and casts)?"""
    holders = set(copies_of(body, local, allow_not=True))
    # casts / further moves
    changed = True
    while changed:
        changed = False
        for i, j, s in body.stmts():
            r = s["r"]
            if s["p"][0] in holders:
                continue
            if r["k"] in ("Use", "Cast", "Un") and any(op_local(o) in holders for o in r.get("o", [])):
                holders.add(s["p"][0])
                changed = True
    live = body.live_blocks()
    for h in holders:
        if h == 0:
            return True
        for (bb, idx, kind) in uses_of_local(body, h):
            if bb in live and kind in ("switch", "arg", "return", "yield"):
                return True
            if bb in live and kind == "assign":
                s = body.blocks[bb]["s"][idx]
                # stored into a field / aggregate that escapes
                if s["p"][0] not in holders and s["r"]["k"] in ("Agg", "Bin"):
                    return True
                if len(s["p"]) > 1 and s["p"][0] not in holders:
                    return True
    return False


def receiver_fresh(body, call):
    """receiver is a value constructed in this body (its slice has no argument / upvar and contains a
    constructor call) -> a first push into it cannot hit capacity"""
    l = op_local(call.args[0]) if call.args else None
    if l is None:
        return False
    sl = Slice(body, [l], transparent=None)
    if sl.args:
        return False
    return any(re.search(r"::(new|default|with_capacity)$", c.name) for c in sl.calls)


def r1_append_consumed(ctx, cfg):
    ctx.rule("C05.R1", "result of every capacity-limited append/push is consumed")
    sites = ctx.prog.all_calls(cfg["append_pat"])
    ctx.floor("C05.R1", len(sites), cfg.get("append_floor", 0), "call sites of capacity-limited append/push")
    for c in sites:
        b = c.body
        ctx.saw(b)
        ctx.call_sites += 1
        short = c.name.split("::")[-2] + "::" + c.name.split("::")[-1]
        if flows_to_consumer(b, c.dest[0]):
            ctx.ok("C05.R1", [b.id, short], "consumed", c.loc(),
                   sample={"call": c.name, "in": b.id, "result": "flows to a branch/return/argument"})
        elif receiver_fresh(b, c):
            ctx.ok("C05.R1", [b.id, short], "fresh receiver", c.loc(),
                   sample={"call": c.name, "in": b.id, "result": "discarded, but the receiver was constructed in this body"})
        else:
            ctx.bad("C05.R1", [b.id, short],
                    "the bool returned by %s is discarded in %s: when the update section/page is full the mutation "
                    "silently does not happen while the caller reports success" % (c.name, b.id), c.loc())


def find_method(ctx, rule, ty, item, closure=False):
    bs = ctx.prog.find(self_ty=r"\b%s\b" % ty, item=item, closure=closure)
    if not ctx.anchor(rule, bs, "%s::%s" % (ty, item)):
        return None
    return bs[0]


def r2_flush_retry(ctx, cfg):
    ctx.rule("C05.R2", "add_entry: failed append -> flush -> second append -> Err; no Ok without a successful append")
    b = find_method(ctx, "C05.R2", *cfg["add_entry"])
    if not b:
        return
    ctx.saw(b)
    apps = b.calls_matching(cfg["append_pat"])
    if len(apps) < 1:
        ctx.anchor("C05.R2", None, "an append call in add_entry")
        return
    okb = assigns_variant(b, "Ok")
    if not ctx.anchor("C05.R2", okb, "an Ok(..) return in add_entry"):
        return
    app_blocks = {c.bb for c in apps}
    # Ok means the entry is in the index: every path from the entry to Ok passes an append - or, for an "it is already there" shortcut, has looked at
    # the STATUS of what it found (an entry with the same location can be the key's delete tombstone: remove_entry copies the location into it)
    status_reads = {i for (i, j) in field_reads(b, "status")}
    skip_ok = b.reachable([0], avoid=app_blocks | status_reads) & set(okb)
    ctx.check(not skip_ok, "C05.R2", [b.id, "ok-without-append"], "no Ok without an append (or a look at the found entry's status)",
              "add_entry can return Ok(()) on a path that neither appends the entry nor looks at the status of an entry it found: a shortcut for 're-adding what "
              "is already there' that compares locations only also matches the key's delete tombstone (remove_entry builds it from the removed entry), so a "
              "re-add after a remove is dropped and the key stays deleted although add_entry reported success", b.loc(), sample={"ok_blocks": sorted(okb)[:4]})
    flush = b.calls_matching(cfg["flush_pat"])
    for n, c in enumerate(apps):
        sw = bool_switches(b, c.dest[0])
        if not sw:
            ctx.bad("C05.R2", [b.id, "append#%d" % n, "unbranched"],
                    "append result in add_entry does not control a branch", c.loc())
            continue
        for (sbb, tt, ft) in sw:
            # from the failing edge, an Ok return must not be reachable without another append
            reach = b.reachable([ft], avoid=app_blocks - {c.bb})
            leak = reach & set(okb)
            ctx.check(not leak, "C05.R2", [b.id, "append#%d" % n, "fail-edge"],
                      "failed append cannot reach Ok without another append",
                      "add_entry: the failing edge of the append at %s reaches `Ok(())` without a successful append" % c.loc(),
                      c.loc(), sample={"append": c.loc(), "false_edge": ft, "ok_blocks": okb})
            # and the failing edge of a non-final append must pass the flush before the next append
            later = [a for a in apps if a.bb in b.reachable([ft]) and a.bb != c.bb]
            if later:
                fl_blocks = {f.bb for f in flush}
                r2 = b.reachable([ft], avoid=fl_blocks)
                ctx.check(not (r2 & {a.bb for a in later}) and bool(fl_blocks), "C05.R2", [b.id, "append#%d" % n, "flush-before-retry"],
                          "retry is preceded by a flush",
                          "add_entry retries the append without flushing the update section first", c.loc(),
                          sample={"flush_calls": [f.loc() for f in flush]})
                # the flush error edge must not reach the retry or Ok
                for f in flush:
                    for (ebb, m, other, via) in enum_switches(b, f.dest[0]):
                        if 1 in m:
                            r3 = b.reachable([m[1]])
                            ctx.check(not (r3 & ({a.bb for a in later} | set(okb))), "C05.R2", [b.id, "flush-err"],
                                      "flush error leaves add_entry", "a failed flush still reaches the retry / Ok in add_entry", f.loc())


ITER_ADAPT = re.compile(r"\bIterator>?::(enumerate|rev|skip|take|filter|map|peekable|copied|cloned|by_ref|zip|chain|flat_map|flatten|filter_map)$|\bIntoIterator>?::into_iter$|\bDeref>?::deref$")
REVERSE = re.compile(r"\bIterator>?::rev$|\bDoubleEndedIterator>?::(rfind|rposition|rfold|next_back|nth_back|try_rfold)$|\bIterator>?::(last|rposition)$")


def r3_precedence(ctx, cfg):
    ctx.rule("C05.R3", "update section first, newest first, tombstones hide; siblings agree on the tombstone")
    b = find_method(ctx, "C05.R3", *cfg["search_both"])
    if b:
        ctx.saw(b)
        us = b.calls_matching(cfg["update_search_pat"])
        ss = []
        for fb in ctx.prog.family(b):
            ss += [(fb, c) for c in fb.calls_matching(cfg["sorted_search_pat"])]
        if ctx.anchor("C05.R3", us, "UpdateSection::search call in search_both_sections") and \
           ctx.anchor("C05.R3", ss, "sorted-section search in search_both_sections"):
            u = us[0]
            for fb, s in ss:
                if fb.id == b.id:
                    ctx.check(b.dominates(u.bb, s.bb), "C05.R3", [b.id, "order"],
                              "update-section search dominates sorted search",
                              "search_both_sections can reach the sorted-section search without consulting the update section first",
                              s.loc(), sample={"update_search": u.loc(), "sorted_search": s.loc()})
            # a hit in the update section is FINAL: whatever its status, the sorted section is not consulted behind it (the update section holds the
            # key's newest record - its current location, a residency marker carrying that location, or its tombstone)
            from .cachebooks import option_edges
            hit_edges = option_edges(b, u.dest[0])
            if ctx.anchor("C05.R3", hit_edges, "branch on the result of the update-section search"):
                some_e = hit_edges[0][0]
                after_hit = b.reachable([some_e])
                for fb, s_ in ss:
                    if fb.id == b.id:
                        ctx.check(s_.bb not in after_hit, "C05.R3", [b.id, "hit-is-final"], "no path from an update-section hit to the sorted-section search",
                                  "search_both_sections can fall through from an update-section HIT to the sorted-section search (for some status of the hit): the "
                                  "sorted section then answers with the key's older record - a stale location, or nothing for a key that was added and not yet "
                                  "flushed", s_.loc(), sample={"hit_edge": some_e, "sorted_search": s_.loc()})
            # a hit is served only after a tombstone test - written as `status == Delete` / `!=`, or as a match on the status
            conv = b.calls_matching(cfg["to_entry_pat"])
            eqs = b.calls_matching(cfg["status_eq_pat"])
            delete_disc = None
            for aid, adt in ctx.prog.adts.items():
                if aid.endswith("::UpdateStatus"):
                    for v in adt.get("variants", []):
                        if v.get("name") == "Delete":
                            delete_disc = v.get("discr")
            match_gate = None
            if not eqs and hit_edges and delete_disc is not None:
                for bb_ in sorted(b.reachable([hit_edges[0][0]])):
                    t_ = b.blocks[bb_]["t"]
                    if t_["k"] != "Switch" or op_local(t_["d"]) is None:
                        continue
                    dl = op_local(t_["d"])
                    is_status = any(st_["p"] == [dl] and st_["r"]["k"] == "Discr" and "status" in place_fields(st_["r"]["p"]) for (i_, j_, st_) in b.stmts())
                    if is_status:
                        tg = dict((str(v), t) for v, t in t_["v"]).get(str(delete_disc))
                        if tg is not None:
                            match_gate = (bb_, tg)
            if ctx.anchor("C05.R3", conv, "conversion of the update hit (to_index_entry)") and match_gate is not None:
                sbb, tg = match_gate
                reach = b.reachable([tg])
                served = reach & {c.bb for c in conv}
                none_ret = set(assigns_variant(b, "None")) & reach
                ctx.check(not served and bool(none_ret) and all(b.dominates(sbb, c.bb) for c in conv), "C05.R3", [b.id, "tombstone-gate"],
                          "the Delete arm of the match on the hit's status returns None and serves nothing",
                          "search_both_sections serves an update-section hit without (or regardless of) the Delete-tombstone test", "%s:%s" % (b.file, b.blocks[sbb]["t"].get("l", 0)),
                          sample={"match_block": sbb, "delete_arm": tg})
            elif ctx.anchor("C05.R3", conv, "conversion of the update hit (to_index_entry)") and \
               ctx.anchor("C05.R3", eqs, "test of the hit's status against the tombstone (== / != / match)"):
                e = eqs[0]
                is_ne = e.name.endswith("::ne") or e.full.endswith("::ne")
                sw = bool_switches(b, e.dest[0])
                ok = False
                detail = {}
                for (sbb, tt, ft) in sw:
                    equal_edge = ft if is_ne else tt
                    reach = b.reachable([equal_edge])
                    served = reach & {c.bb for c in conv}
                    dominated = all(b.dominates(sbb, c.bb) for c in conv)
                    none_ret = set(assigns_variant(b, "None")) & reach
                    detail = {"cmp": e.loc(), "equal_edge": equal_edge, "serves_on_equal": bool(served), "dominates_serve": dominated}
                    if not served and dominated and none_ret:
                        ok = True
                # the constant compared against must be the Delete tombstone
                delete_cmp = status_const_is(ctx, b, e, "Delete")
                ctx.check(ok and delete_cmp, "C05.R3", [b.id, "tombstone-gate"],
                          "hit passes a Delete test whose equal edge returns None",
                          "search_both_sections serves an update-section hit without (or regardless of) the Delete-tombstone test",
                          e.loc(), sample=detail)
    # newest first in UpdateSection::search: every iterator created in search (or its closures) must be
    # consumed in reverse
    sb = find_method(ctx, "C05.R3", *cfg["section_search"])
    if sb:
        n_it = 0
        for fb in ctx.prog.family(sb):
            ctx.saw(fb)
            its = fb.calls_matching(r"slice::<impl \[T\]>::iter$|\bIntoIterator>?::into_iter$")
            for c in its:
                # an into_iter of something that is already a reversed iterator is not a new iteration
                if re.search(r"into_iter$", c.name) and any(REVERSE.search(x.name) or REVERSE.search(x.orig_name) for x in Slice(fb, [op_local(c.args[0])], transparent=ITER_ADAPT).calls):
                    continue
                n_it += 1
                fw = forward_calls(fb, c.dest[0], through=ITER_ADAPT)
                rev = [x for x in fw if REVERSE.search(x.name) or REVERSE.search(x.orig_name)]
                ctx.check(bool(rev), "C05.R3", [fb.id, "newest-first"],
                          "iteration is consumed in reverse (newest first)",
                          "UpdateSection::search walks %s oldest-first: an older entry for the key wins over a newer one "
                          "(stale location returned / removed key still found)" % ("the pages/entries created at " + c.loc()),
                          c.loc(), sample={"iterator_created": c.loc(), "reverse_consumer": [x.name for x in rev][:2]})
        ctx.floor("C05.R3", n_it, 2, "iterations (pages, entries) in UpdateSection::search")
    # siblings agree on the tombstone discriminant
    sib = []
    for (ty, item) in cfg.get("tombstone_siblings", [("IndexManager", "flush_updates_for_bucket"), ("IndexManager", "iter_entries")]):
        for fb in ctx.prog.find(self_ty=r"\b%s\b" % ty, item=item):
            for c in fb.calls_matching(cfg["status_eq_pat"]):
                sib.append((fb, c))
    ctx.floor("C05.R3", len(sib), cfg.get("sibling_floor", 2), "tombstone tests in flush_updates_for_bucket / iter_entries")
    for fb, c in sib:
        ctx.saw(fb)
        ctx.check(status_const_is(ctx, fb, c, "Delete"), "C05.R3", [fb.id, "tombstone-const"],
                  "compares with UpdateStatus::Delete",
                  "%s tests a status other than the Delete tombstone that search_both_sections honours" % fb.id, c.loc(),
                  sample={"cmp": c.loc()})


def status_const_is(ctx, body, call, variant):
    """one operand of the eq/ne call is (a reference to) the constant enum variant `variant`"""
    for a in call.args:
        l = op_local(a)
        if l is None:
            continue
        sl = Slice(body, [l], transparent=None)
        for o in sl.consts:
            if o.get("variant") == variant or o.get("s", "").endswith("::" + variant):
                return True
    return False


def r4_dirty(ctx, cfg):
    ctx.rule("C05.R4", "ResidencyDb mutators mark the DB dirty on every path after the mutation; save clears it only after rename")
    ty = cfg["resdb"]
    methods = [b for b in ctx.prog.find(self_ty=r"\b%s\b" % ty, closure=False, trait=False)]
    if not ctx.anchor("C05.R4", methods, "methods of %s" % ty):
        return
    by_id = {m.id: m for m in methods}
    field = cfg["resdb_field"]
    dirty = cfg["dirty"]

    def direct_mut_sites(m):
        out = []
        for i, j, s in m.stmts():
            r = s["r"]
            if r["k"] in ("Ref", "RawPtr") and r.get("mut") and field in place_fields(r["p"]):
                out.append(i)
            if field in place_fields(s["p"]):
                out.append(i)
        return out

    memo = {}

    def summary(m, stack=()):
        """(mutates, self_covering)"""
        if m.id in memo:
            return memo[m.id]
        if m.id in stack:
            return (False, True)
        sites = []  # (bb, covered_by_callee)
        for bb in direct_mut_sites(m):
            sites.append((bb, False))
        for fb in [m]:
            for c in fb.calls:
                if c.id in by_id and c.id != m.id:
                    mu, cov = summary(by_id[c.id], stack + (m.id,))
                    if mu:
                        sites.append((c.bb, cov))
        # closures of m that mutate captured state are treated as part of m (none today)
        live = m.live_blocks()
        sites = [(bb, cov) for bb, cov in sites if bb in live]
        mutates = bool(sites)
        dirty_blocks = set()
        for i, j, s in field_writes(m, dirty):
            r = s["r"]
            if r["k"] == "Use" and op_const(r["o"][0]) == 1:
                dirty_blocks.add(i)
        covering_calls = set()
        for c in m.calls:
            if c.id in by_id and c.id != m.id:
                mu, cov = summary(by_id[c.id], stack + (m.id,))
                if mu and cov:
                    covering_calls.add(c.bb)
        rets = set(m.return_blocks())
        uncovered = []
        for bb, cov in sites:
            if cov:
                continue
            if bb in dirty_blocks:
                # same block: require the dirty store after? conservatively accept
                continue
            reach = m.reachable(m.succ[bb], avoid=dirty_blocks | covering_calls)
            if reach & rets:
                uncovered.append(bb)
        memo[m.id] = (mutates, mutates and not uncovered)
        memo[m.id + "#uncovered"] = uncovered
        return memo[m.id]

    n = 0
    for m in methods:
        if m.item in ("new", "load", "save", "default"):
            continue
        self_ty = m.local_ty(1) if m.argc >= 1 else ""
        if not self_ty.startswith("&mut"):
            continue
        mu, cov = summary(m)
        ctx.saw(m)
        if not mu:
            continue
        if not m.pub:
            continue
        n += 1
        ctx.check(cov, "C05.R4", [m.id, "dirty"],
                  "every path after the mutation sets dirty",
                  "%s mutates the bucket pages but some path returns without `dirty = true`: save() will skip the write and "
                  "the change is lost on reload" % m.id, m.loc(),
                  sample={"method": m.id, "uncovered_blocks": memo.get(m.id + "#uncovered")})
    ctx.floor("C05.R4", n, cfg.get("mutator_floor", 4), "public mutators of %s" % ty)
    # save(): dirty=false only after a successful rename
    sv = [m for m in methods if m.item == "save"]
    if ctx.anchor("C05.R4", sv, "%s::save" % ty):
        m = sv[0]
        ctx.saw(m)
        clears = [i for i, j, s in field_writes(m, dirty)
                  if s["r"]["k"] == "Use" and op_const(s["r"]["o"][0]) == 0]
        ren = m.calls_matching(cfg["rename_pat"])
        if ctx.anchor("C05.R4", clears, "`dirty = false` in save") and ctx.anchor("C05.R4", ren, "rename in save"):
            r = ren[0]
            okdom = all(m.dominates(r.bb, cb) for cb in clears)
            err_reach = False
            for (ebb, mp, other, via) in enum_switches_through(m, r.dest[0]):
                if 1 in mp and (m.reachable([mp[1]]) & set(clears)):
                    err_reach = True
            ctx.check(okdom and not err_reach, "C05.R4", [m.id, "clear-after-rename"],
                      "dirty cleared only after rename succeeded",
                      "save() clears `dirty` on a path where the rename did not (successfully) happen", r.loc(),
                      sample={"rename": r.loc(), "clear_blocks": clears})


ADAPTERS = re.compile(r"\bResult::<T, E>::(map_err|map|inspect_err|inspect)$")


def enum_switches_through(body, local):
    """enum_switches, also following Result adapters that preserve Ok/Err-ness (map_err, map) and plain moves"""
    out = list(enum_switches(body, local))
    seen = set(copies_of(body, local))
    work = list(seen)
    while work:
        l = work.pop()
        for c in body.calls:
            if c.args and op_local(c.args[0]) == l and ADAPTERS.search(c.name) and c.dest[0] not in seen:
                for d in copies_of(body, c.dest[0]):
                    if d not in seen:
                        seen.add(d)
                        work.append(d)
                out += enum_switches(body, c.dest[0])
    return out


def r5_hash_index(ctx, cfg):
    rule = "C05.R5"
    ctx.rule(rule, "the residency fast-path filter (hash_index) stays a superset of the stored keys: no per-key removal; "
                   "every path that stores an entry/page reaches an index update")
    ty = cfg["resdb"]
    fld = cfg.get("filter_field", "hash_index")
    methods = ctx.prog.find(self_ty=r"\b%s\b" % ty, trait=False)
    if not ctx.anchor(rule, methods, "methods of %s" % ty):
        return
    from .lib import receiver_fields_all
    n_sites = 0
    maint = re.compile(cfg.get("filter_maint_pat", r"ResidencyDb::(rebuild_hash_index|update_hash_index_for_key)$"))
    for m in methods:
        adds = False
        for c in m.calls:
            if not c.args:
                continue
            fields = receiver_fields_all(m, c)
            on_filter = any(fld in f for f in fields)
            if on_filter:
                n_sites += 1
                ctx.call_sites += 1
                meth = c.name.split("::")[-1]
                if meth in ("remove", "retain", "pop_first", "pop_last", "remove_entry", "split_off", "extract_if", "first_entry", "last_entry"):
                    ctx.bad(rule, [m.id, fld, meth],
                            "%s removes individual slots from `%s`: slots are shared by every key with the same 8-byte prefix hash and "
                            "is_resident() answers `false` when the slot is missing, so a surviving key is reported non-resident" % (m.id, fld), c.loc())
                elif meth == "clear":
                    refill = any(any(fld in f for f in receiver_fields_all(m, x)) and x.name.split("::")[-1] in ("entry", "insert")
                                 for x in m.calls if x.args)
                    ctx.check(refill, rule, [m.id, fld, "clear"], "clear is part of a rebuild",
                              "%s clears `%s` without rebuilding it from the buckets" % (m.id, fld), c.loc())
                else:
                    ctx.ok(rule, [m.id, fld, meth, c.bb], "non-removing access", c.loc(), nontrivial=False)
        # stores of entries/pages into the buckets must be followed by index maintenance
        stores = [c for c in m.calls if re.search(cfg.get("store_pat", r"ResidencyPage::push$"), c.name) or
                  (re.search(r"\bVec::<T, A>::push$", c.name) and any(cfg["resdb_field"] in f for f in receiver_fields_all(m, c)))]
        if stores and not m.root:
            ctx.saw(m)
            maint_blocks = {c.bb for c in m.calls if maint.search(c.name)}
            rets = set(m.return_blocks())
            for n, c in enumerate(stores):
                leak = m.reachable(m.succ[c.bb], avoid=maint_blocks) & rets
                ctx.check(not leak, rule, [m.id, "store#%d" % n, "index-maintained"],
                          "store is followed by an index update on every path",
                          "%s stores an entry/page but can return without updating `%s`: is_resident() will answer false for a resident key" % (m.id, fld),
                          c.loc(), sample={"store": c.loc(), "maintenance_calls": sorted(maint_blocks)})
    ctx.floor(rule, n_sites, cfg.get("filter_floor", 4), "accesses to %s.%s" % (ty, fld))


def r7_merge_precedence(ctx, cfg):
    """flush (merge of the update section into the sorted section): for EVERY update key - additions and delete tombstones alike -
    the sorted entry with the same key is skipped. A path through the loop body that bypasses the equal-key test copies the old
    sorted entry into the merged section: a removed key comes back at its old location after the next flush."""
    from .c12 import every_iteration
    rule = "C05.R7"
    ctx.rule(rule, "flush_updates_for_bucket: the equal-key test that drops the superseded sorted entry lies on every iteration path of the "
                   "loop over the updates (tombstones included)")
    b = find_method(ctx, rule, "IndexManager", "flush_updates_for_bucket")
    if not b:
        return
    ctx.saw(b)
    nxs = [c for c in b.calls if re.search(r"\bIterator>?::next$", c.orig_name or c.name) and re.search(r"btree|BTreeMap|hash_map|HashMap", c.full)]
    if not ctx.anchor(rule, nxs, "loop over the de-duplicated updates (map iterator)"):
        return
    nx = nxs[0]
    body_blocks = b.reachable(b.succ[nx.bb])
    eqs = []
    for c in b.calls:
        if c.bb in body_blocks and nx.bb in b.reachable(b.succ[c.bb]) and re.search(r"PartialEq.*>?::eq$|::eq$", c.orig_name or c.name):
            flds = set()
            for a in c.args:
                if op_local(a) is not None:
                    for f in Slice(b, [op_local(a)], transparent=True).fields:
                        flds |= set(f)
            if "key" in flds and "entries" in flds:
                eqs.append(c)
    if not ctx.anchor(rule, eqs, "comparison of the sorted entry's key with the update key (==) inside the merge loop"):
        return
    def gate_of(e):
        # `idx < len && entries[idx].key == key`: the bounds test that short-circuits the comparison is the gate; running off the end of
        # the sorted section is the one legitimate way not to compare
        cands = [i for i, j, st in b.stmts() if i in body_blocks and i != e.bb and st["r"]["k"] == "Bin" and st["r"]["op"] in ("Lt", "Gt", "Le", "Ge")
                 and b.dominates(i, e.bb)]
        return max(cands, key=lambda g: len(b.dom.get(g, ()))) if cands else e.bb
    ok = any(every_iteration(b, nx, e.bb) or every_iteration(b, nx, gate_of(e)) for e in eqs)
    ctx.check(ok, rule, [b.id, "equal-key-test-every-update"], "every update key is matched against the sorted section",
              "flush_updates_for_bucket has a path through the merge loop (a `continue` for some kind of update) that never compares the update key with the "
              "current sorted key: the superseded sorted entry is copied into the merged section - after the flush a removed key is found again at its old location",
              eqs[0].loc(), sample={"loop": nx.loc(), "eq": [e.loc() for e in eqs]})


def r8_persist_every_bucket(ctx, cfg):
    """save_all / flush_all_updates walk all buckets and persist EACH one: an in-memory bucket can differ from its file without having
    pending updates (clear_bucket, clear, a flush that merged them), so 'nothing pending' is not 'unchanged'"""
    from .c12 import every_iteration
    rule = "C05.R8"
    ctx.rule(rule, "IndexManager::save_all / flush_all_updates: the per-bucket save / flush call lies on every iteration path of the loop over the buckets")
    n = 0
    for item, pat in (("save_all", r"IndexManager::save_index$"), ("flush_all_updates", r"IndexManager::flush_updates_for_bucket$")):
        b = find_method(ctx, rule, "IndexManager", item)
        if not b:
            continue
        ctx.saw(b)
        calls = b.calls_matching(pat)
        nxs = [c for c in b.calls if re.search(r"\bIterator>?::next$", c.orig_name or c.name)]
        if not (ctx.anchor(rule, calls, "per-bucket call in %s" % item) and ctx.anchor(rule, nxs, "loop over the buckets in %s" % item)):
            continue
        c = calls[0]
        loops = [nx for nx in nxs if c.bb in b.reachable(b.succ[nx.bb]) and nx.bb in b.reachable(b.succ[c.bb])]
        if not ctx.anchor(rule, loops, "per-bucket call inside the loop in %s" % item):
            continue
        n += 1
        # a bucket may be skipped on the strength of a dirty flag - whose discipline E-dirty (R9) decides on every mutator path; any other
        # skip condition ("nothing pending") is not evidence that the bucket equals its file
        from . import dirtyflag
        from .c12 import some_edge
        tests = set()
        for (adt_, fl_), info_ in dirtyflag.discover(ctx.prog, ["cascette_client_storage"]).items():
            tests |= {bb_ for (bid_, bb_) in info_["test"] if bid_ == b.id}
        se_ = some_edge(b, loops[0])
        only_dirty_skips = bool(tests) and se_ is not None and loops[0].bb not in b.reachable([se_], avoid={c.bb} | tests) and \
            not (b.reachable([se_], avoid={c.bb} | tests) & set(b.return_blocks()))
        ctx.check(every_iteration(b, loops[0], c.bb) or only_dirty_skips, rule, [b.id, "every-bucket"], "every bucket is persisted (or skipped only behind a dirty-flag test)",
                  "%s skips some buckets (a `continue` in front of the per-bucket call): a bucket whose in-memory state changed without pending updates - "
                  "cleared, or just merged - keeps its old file, and after a reload the removed keys are back" % item, c.loc())
    ctx.floor(rule, n, 2, "bucket-walking persistence loops")


def run(ctx, cfg=CFG):
    # E-drop (rules/dropped.py): no bool result of a function of these modules is thrown away by a caller anywhere in the workspace
    from . import dropped
    dropped.rule_dropped(ctx, "C05.R11", [k for k in ["cascette_formats", "cascette_client_storage", "cascette_cache", "cascette_protocol", "cascette_ribbit"] if k in (CRATES or [])] or CRATES, r"client-storage/src/(index|kmt)/", floor=20)
    # E-stale (rules/stale.py): no snapshot of a self field is written back after a self-method call that may have changed it
    from . import stale
    stale.rule_stale(ctx, "C05.R10", "cascette_client_storage", r"src/(index|kmt)/")
    # E-dirty (rules/dirtyflag.py): every dirty flag found in the crate whose saver lives in this property's modules
    from . import dirtyflag
    dirtyflag.rule_dirty(ctx, "C05.R9", ["cascette_client_storage"], file_pat=r"src/(kmt|index)/", floor=6)
    r8_persist_every_bucket(ctx, cfg)
    r7_merge_precedence(ctx, cfg)
    r1_append_consumed(ctx, cfg)
    r2_flush_retry(ctx, cfg)
    r3_precedence(ctx, cfg)
    r4_dirty(ctx, cfg)
    r5_hash_index(ctx, cfg)
    from . import c04
    c04.r5_latest_wins(ctx, c04.CFG, rule="C05.R6")


from .selftest import for_families as _ff  # noqa: E402
selftest = _ff(['gate', 'loop', 'dirty', 'stale', 'drop'])
