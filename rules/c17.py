"""C17 - the LRU tracker keeps its full capacity (slot conservation) and releases slots consistently."""
import re
from .facts import op_local, Slice, place_fields, op_const
from .lib import must_pass, assigns_variant, return_holders
from .cachebooks import recv_fields, on_field, option_edges
from .c04 import forward_values

CRATES = ["cascette_client_storage"]

EXPLANATION = (
    "Static ownership rule over the MIR of LruManager (cascette-client-storage/src/lru/mod.rs). R1 slot conservation: a body that "
    "removes a key from key_map releases a slot index; on every path it must push that index onto free_list, or return it - in which "
    "case every workspace caller inherits the obligation: the returned slot must flow into free_list.push, key_map.insert or the "
    "caller's own return value (a test such as is_none() does not consume it). R2 sibling agreement: every releasing body performs the "
    "full release protocol on the path of the removal - unlink from the intrusive list (call to unlink, or writes to BOTH header.lru_tail "
    "and header.mru_head) and blanking of the slot (entries[idx] = LruFileEntry::empty()), which load_from_disk relies on because it "
    "derives liveness from a non-zero key. Recency order equal to a textbook LRU is not decided.")

ASSUMPTIONS = ["recency order, all-zero keys vs empty slots and capacity after reload are value/history-level and not decided"]

TY = r"\bLruManager\b"


def lru_bodies(ctx):
    return [b for b in ctx.prog.find(self_ty=TY, closure=False, trait=False) if re.search(r"lru/mod\.rs$", b.file)]


def map_calls(b, field, meth_pat):
    out = []
    for c in b.calls:
        if c.bb not in b.live_blocks() or not c.args:
            continue
        if re.search(meth_pat, c.name) and on_field(recv_fields(b, c), field):
            out.append(c)
    return out


def removed_start(b, r):
    """blocks where 'something was removed' begins: the Some edge(s) of the removal's result, else its successor"""
    edges = option_edges(b, r.dest[0])
    if edges:
        return [some for (some, none) in edges]
    return list(b.succ[r.bb])


def r1_conservation(ctx):
    rule = "C17.R1"
    ctx.rule(rule, "a slot taken out of key_map is freed, re-used, or handed to a caller who does")
    prog = ctx.prog
    bodies = lru_bodies(ctx)
    if not ctx.anchor(rule, bodies, "LruManager methods"):
        return
    releasing = []
    for b in bodies:
        rm = map_calls(b, "key_map", r"HashMap::<K, V, S, A>::remove$")
        if rm:
            releasing.append((b, rm))
    ctx.floor(rule, len(releasing), 2, "bodies that remove from key_map")
    escaping = []
    for b, rm in releasing:
        ctx.saw(b)
        ret_ty = b.local_ty(0)
        pushes = {c.bb for c in map_calls(b, "free_list", r"\bVec::<T, A>::push$")}
        rets = set(b.return_blocks())
        for n, r in enumerate(rm):
            start = removed_start(b, r)
            if pushes and all(must_pass(b, st, rets, pushes) for st in start):
                ctx.ok(rule, [b.id, "freed"], "released slot is pushed onto free_list on every path", r.loc(),
                       sample={"in": b.id, "remove": r.loc(), "push_blocks": sorted(pushes)})
            elif "u32" in ret_ty and b.rec.get("pub"):
                # free_list and key_map are private: a caller outside the type can neither free nor re-use the slot it is handed
                escaping.append(b)
                ctx.bad(rule, [b.id, "public-escape"],
                        "%s is public, removes a key from key_map and hands the freed slot index to its caller without pushing it onto free_list: "
                        "free_list is private, so no outside caller can return the slot - every such call shrinks the tracker's capacity for good "
                        "(capacity 1: touch a; evict; touch b fails)" % b.id, r.loc())
            elif "u32" in ret_ty:
                # hands the slot to the caller on the paths that do not push
                escaping.append(b)
                ctx.ok(rule, [b.id, "returned"], "released slot is returned to the caller (obligation inherited)", r.loc(),
                       sample={"in": b.id, "returns": ret_ty})
            else:
                ctx.bad(rule, [b.id, "slot-lost"],
                        "%s removes a key from key_map but neither pushes the slot onto free_list nor returns it: the slot is lost and the tracker's "
                        "capacity shrinks permanently" % b.id, r.loc())
    # callers of escaping functions (whole workspace)
    n_callers = 0
    for eb in {x.id: x for x in escaping}.values():
        for (s, how, c) in prog.callers.get(eb.id, []):
            if c is None:
                continue
            cb = prog.bodies[s]
            n_callers += 1
            ctx.saw(cb)
            ctx.call_sites += 1
            der = forward_values(cb, c.dest[0])
            # unwrap through downcasts: `evicted = (_r as Some).0`
            changed = True
            while changed:
                changed = False
                for i, j, st in cb.stmts():
                    if st["p"][0] in der:
                        continue
                    r = st["r"]
                    if r["k"] in ("Use", "Cast") and any(op_local(o) in der for o in r.get("o", [])):
                        der.add(st["p"][0])
                        changed = True
            consumed = False
            how_c = None
            for x in cb.calls:
                if x.bb not in cb.live_blocks() or not x.args:
                    continue
                if re.search(r"\bVec::<T, A>::push$", x.name) and on_field(recv_fields(cb, x), "free_list") and any(op_local(a) in der for a in x.args[1:]):
                    consumed, how_c = True, "free_list.push"
                if re.search(r"HashMap::<K, V, S, A>::insert$", x.name) and on_field(recv_fields(cb, x), "key_map") and any(op_local(a) in der for a in x.args[1:]):
                    consumed, how_c = True, "key_map.insert"
            if not consumed:
                hs = return_holders(cb)
                if (hs & der) - {0} or any(op_local(o) in der for i, j, st in cb.stmts() if st["p"][0] in hs for o in st["r"].get("o", [])):
                    consumed, how_c = True, "returned"
            ctx.check(consumed, rule, [cb.id, "consumes", eb.item], "returned slot is consumed (%s)" % how_c,
                      "%s calls %s(), which hands back the freed slot index, but only tests the result (it never reaches free_list.push, key_map.insert or "
                      "the return value): every such eviction loses one slot, and a tracker that was filled and then trimmed refuses every later touch" %
                      (cb.id, eb.item), c.loc(), sample={"caller": cb.id, "callee": eb.item, "consumed_by": how_c})
    ctx.floor(rule, n_callers, 2, "callers of slot-returning release functions")


def r2_release_protocol(ctx):
    rule = "C17.R2"
    ctx.rule(rule, "every releasing body unlinks the entry (head AND tail maintained) and blanks the slot")
    bodies = lru_bodies(ctx)
    n = 0
    for b in bodies:
        rm = map_calls(b, "key_map", r"HashMap::<K, V, S, A>::remove$")
        if not rm:
            continue
        n += 1
        ctx.saw(b)
        rets = set(assigns_variant(b, "Some")) | {i for i in b.return_blocks()}
        r = rm[0]
        unl = {c.bb for c in b.calls_matching(r"LruManager::unlink$")}

        start = removed_start(b, r)

        def on_path(blocks):
            return bool(blocks) and (all(must_pass(b, st, set(b.return_blocks()), blocks) for st in start) or any(b.dominates(x, r.bb) for x in blocks))
        # inline alternative: both header pointers written
        w_tail = {i for i, j, s in b.stmts() if place_fields(s["p"])[-1:] == ["lru_tail"]}
        w_head = {i for i, j, s in b.stmts() if place_fields(s["p"])[-1:] == ["mru_head"]}
        unlinked = on_path(unl) or (bool(w_tail) and bool(w_head))
        ctx.check(unlinked, rule, [b.id, "unlink"], "entry is unlinked with head and tail maintained",
                  "%s releases a slot without unlinking it through unlink() and without updating both header.lru_tail and header.mru_head: when the "
                  "released entry was the only one the head keeps pointing at a dead slot, later touches link behind it and the list/iteration/eviction "
                  "no longer see live entries" % b.id, r.loc(), sample={"in": b.id, "unlink_calls": sorted(unl), "writes_tail": bool(w_tail), "writes_head": bool(w_head)})
        # blanking: entries[idx] = LruFileEntry::empty()
        blank = set()
        empties = b.calls_matching(r"LruFileEntry::empty$")
        idxm = {c.dest[0] for c in b.calls if re.search(r"\bIndexMut<.*>>?::index_mut$", c.name) and on_field(recv_fields(b, c), "entries")}
        for e in empties:
            for i, j, s in b.stmts():
                if s["r"]["k"] == "Use" and op_local(s["r"]["o"][0]) == e.dest[0]:
                    p = s["p"]
                    if p[0] in idxm and p[1:] == ["*"]:
                        blank.add(i)
        ctx.check(on_path(blank), rule, [b.id, "blank"], "released slot is overwritten with LruFileEntry::empty()",
                  "%s releases a slot but leaves its key bytes in `entries`: checkpoint_to_disk writes the whole array and load_from_disk treats every "
                  "slot with a non-zero key as live, so after a reload the removed key is back in key_map (but not in the list) and one unit of capacity "
                  "is gone" % b.id, r.loc(), sample={"in": b.id, "blank_blocks": sorted(blank)})
    ctx.floor(rule, n, 2, "releasing bodies")
    # premise: the loader derives liveness from the key bytes
    ld = [b for b in ctx.prog.bodies.values() if b.item == "load_from_disk" and re.search(r"lru/mod\.rs$", b.file)]
    if ctx.anchor(rule, ld, "LruManager::load_from_disk"):
        uses = any(fb.calls_matching(r"LruFileEntry::is_active$") for fb in ld)
        ctx.check(uses, rule, ["premise", "liveness-from-key"], "load_from_disk rebuilds key_map/free_list from is_active() (premise of the blank rule)",
                  "load_from_disk no longer derives liveness from LruFileEntry::is_active(); the blanking rule's premise changed - re-derive it", ld[0].loc(),
                  sample={"loader": ld[0].id})


def r3_checkpoint_whole_table(ctx):
    """slot conservation across a checkpoint: load_from_disk adopts the entry vector of the file as its slot table, so serialize must
    write the whole slice it is given - a sub-range (trailing free slots trimmed) comes back as a smaller table"""
    rule = "C17.R3"
    ctx.rule(rule, "lru_file::serialize iterates over its entries parameter itself (no sub-slice / skip / take / filter between the parameter and the loop)")
    bs = [b for b in ctx.prog.bodies.values() if b.krate == "cascette_client_storage" and b.item == "serialize" and not b.root and re.search(r"lru/lru_file\.rs$", b.file or "")]
    if not ctx.anchor(rule, bs, "lru_file::serialize"):
        return
    b = bs[0]
    ctx.saw(b)
    params = [i for i in range(1, b.argc + 1) if "LruFileEntry" in (b.local_ty(i) or "")]
    if not ctx.anchor(rule, params, "entries parameter of serialize"):
        return
    its = [c for c in b.calls if re.search(r"slice::<impl \[T\]>::iter$|\bIntoIterator>?::into_iter$", c.name) or re.search(r"\bIntoIterator>?::into_iter$", c.orig_name or "")]
    its = [c for c in its if c.args and op_local(c.args[0]) is not None and "LruFileEntry" in (b.local_ty(op_local(c.args[0])) or "") + (b.local_ty(c.dest[0]) or "")]
    if not ctx.anchor(rule, its, "iteration over the entries in serialize"):
        return
    NARROW = re.compile(r"\bIndex<.*>>?::index$|::(get|split_at|split_first|split_last|skip|take|filter|take_while|skip_while|step_by|rposition|position)$|\[T\]>::(get|split_at)")
    for k, c in enumerate(its):
        sl = Slice(b, [op_local(c.args[0])], transparent=True)
        from_param = bool(sl.args & set(params))
        narrowed = [x for x in sl.calls if NARROW.search(x.name) or NARROW.search(x.orig_name or "")]
        fw_bad = []
        ctx.check(from_param and not narrowed, rule, [b.id, "whole-table"], "the serialised entries are the whole slice passed in",
                  "lru_file::serialize writes only part of the slot table it is given (%s): load_from_disk adopts the file's entry vector as the table, so after "
                  "a checkpoint and reload the tracker has fewer slots than its capacity - it evicts while under capacity, or touch() fails with no slot" %
                  (narrowed[0].name.split("::")[-1] if narrowed else "the loop does not start from the parameter"), c.loc())


def r8_unlink_both_sides(ctx):
    """taking an entry out of a doubly linked list repairs BOTH sides on every path: the slot that pointed forward to it (its predecessor's `next`, or
    the list end `header.lru_tail`) and the slot that pointed back to it (its successor's `prev`, or `header.mru_head`). A path that repairs one side
    only leaves a dangling link that the next checkpoint persists (load_from_disk then refuses the table) or the next removal follows."""
    rule = "C17.R8"
    ctx.rule(rule, "LruManager::unlink: every path writes one forward slot (neighbour.next or header.lru_tail) and one backward slot (neighbour.prev or header.mru_head)")
    bs = [b for b in lru_bodies(ctx) if b.item == "unlink"]
    if not ctx.anchor(rule, bs, "LruManager::unlink"):
        return
    b = bs[0]
    ctx.saw(b)
    fwd, bwd = set(), set()
    for (i, j, st) in b.stmts():
        if i not in b.live_blocks():
            continue
        fs = place_fields(st["p"])
        if not fs:
            continue
        if fs[-2:] == ["header", "lru_tail"] or fs[-1:] == ["lru_tail"]:
            fwd.add(i)
        elif fs[-2:] == ["header", "mru_head"] or fs[-1:] == ["mru_head"]:
            bwd.add(i)
        elif fs[-1] in ("next", "prev"):
            # entries[X].next / .prev: a NEIGHBOUR's link when X is not the unlinked entry's own index (the parameter)
            base = st["p"][0]
            own = False
            for (bb_, idx_, kind_, pay_) in b.defs.get(base, []):
                if kind_ == "call" and len(pay_.args) >= 2 and op_local(pay_.args[1]) is not None:
                    sl = Slice(b, [op_local(pay_.args[1])], transparent=None)
                    own = 2 in sl.args or 2 in sl.locals
            if not own:
                (fwd if fs[-1] == "next" else bwd).add(i)
    rets = set(b.return_blocks())
    for nm, blks, what in (("forward", fwd, "its predecessor's `next` or header.lru_tail"), ("backward", bwd, "its successor's `prev` or header.mru_head")):
        ok = bool(blks) and not (b.reachable([0], avoid=blks) & rets)
        ctx.check(ok, rule, [b.id, nm + "-slot"], "every path repairs the %s slot" % nm,
                  "LruManager::unlink has a path that does not write the %s slot (%s): the neighbour keeps pointing at the entry that was taken out - the next "
                  "checkpoint stores a table that load_from_disk refuses (corrupt links), and a further removal or eviction follows the dangling link" % (nm, what),
                  b.loc(), sample={"blocks": sorted(blks)})


def run(ctx):
    r8_unlink_both_sides(ctx)
    # E-drop (rules/dropped.py): no bool result of a function of these modules is thrown away by a caller anywhere in the workspace
    from . import dropped
    dropped.rule_dropped(ctx, "C17.R7", [k for k in ["cascette_formats", "cascette_client_storage", "cascette_cache", "cascette_protocol", "cascette_ribbit"] if k in (CRATES or [])] or CRATES, r"client-storage/src/lru/", floor=5)
    # E-stale (rules/stale.py): no snapshot of a self field is written back after a call that may have changed it
    from . import stale
    stale.rule_stale(ctx, "C17.R6", "cascette_client_storage", r"src/lru/", floor=3)
    # E-dirty (rules/dirtyflag.py): every dirty flag found in the crate whose saver lives in this property's modules
    from . import dirtyflag
    dirtyflag.rule_dirty(ctx, "C17.R5", ["cascette_client_storage"], file_pat=r"src/lru/", floor=0)
    # "checkpoints and reloads" keep the tracker's state only if a checkpoint never deletes the file it has just written (C06.R10)
    from . import c06
    c06.r10_no_self_delete(ctx, c06.CFG)
    c06.r11_sweep_spares_current(ctx, c06.CFG)
    r3_checkpoint_whole_table(ctx)
    r1_conservation(ctx)
    r2_release_protocol(ctx)


from .selftest import for_families as _ff  # noqa: E402
selftest = _ff(['gate', 'dirty', 'stale', 'drop'])
