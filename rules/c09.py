"""C09 - cipher / hash primitives and the accelerated helpers: the structural necessary conditions that are visible in the code.

Decided here (and only this): R1 every call of a #[target_feature] function is gated by the CPU-feature flag that implies the feature, and the
flags are filled from the matching runtime detection; R2 every x86 vector load / store through a raw pointer into a byte slice is proven in
bounds (E-bounds); R3 the hand-unrolled lookup3 siblings (hashlittle / hashlittle2) add the same key bytes with the same shifts into the same
accumulators, in the 12-byte loop and in each of the tail cases, and run the same mixing functions; R4 encrypt and decrypt entry points of the
stream ciphers are one keystream path (one delegates to the other forwarding its parameters unchanged).
NOT decided: that Salsa20 / ARC4 / lookup3 / MD5 compute the published functions, SIMD == scalar results, piecewise == at-once keystream."""
import re
from .facts import op_local, op_const, Slice
from . import bounds

CRATES = ["cascette_crypto", "cascette_cache"]

EXPLANATION = (
    "Static rules over the MIR of cascette-crypto and cascette-cache::simd. R1 (dominance + slice): every call of a function carrying "
    "#[target_feature(enable = F)] from a body that does not itself enable F lies behind the true edge of a test of a CPU-feature flag field "
    "whose feature implies F in the x86 ISA hierarchy (avx512f > avx2 > avx > sse4.2 > sse4.1 > ssse3 > sse3 > sse2 > sse), and every "
    "construction of the flag struct fills each flag from is_x86_feature_detected of a feature that implies it (or from a constant false). "
    "R2 (E-bounds, relational abstract interpretation): every _mm*_load*/_mm*_store* whose pointer is slice.as_ptr().add(i).cast() is a "
    "sink with goal i + width <= slice.len(); all must be proven. R3 (symbolic table extraction, sibling agreement): in every function of "
    "cascette_crypto::jenkins that switches on a key length with eight or more cases, each case and the block loop are evaluated symbolically "
    "to a set of (accumulator role, key byte index, shift) contributions, where the role is the argument position of the accumulator in the "
    "shared final mixing call; all siblings must have identical tables and call the same mixing functions. R4: for each encrypt*/decrypt* "
    "pair, if one calls the other, every argument is the corresponding parameter unchanged and the result is returned unchanged. "
    "Functional correctness of the primitives (outputs equal to the published algorithms), SIMD == scalar equality of results and "
    "piecewise keystream application are value-level and are NOT decided.")

ASSUMPTIONS = [
    "functional correctness of Salsa20 / ARC4 / lookup3 / MD5 against the published algorithms is value-level and not decided",
    "SIMD helpers returning what the scalar fallbacks return is decided only as far as memory safety of the vector accesses and soundness of the dispatch go",
    "the CPU-feature struct is assumed to be built by the library's own constructors (a caller that fills the public flags by hand is outside the rule)",
    "pointer arithmetic is modelled for `slice.as_ptr().add(i).cast()` chains over u8 only; any other pointer reaching a vector intrinsic is reported as not proven",
]

# x86 ISA implication (a fact about the architecture, not about this repository): feature -> features it implies
IMPLIES = {
    "sse": [], "sse2": ["sse"], "sse3": ["sse2"], "ssse3": ["sse3"], "sse4.1": ["ssse3"], "sse4.2": ["sse4.1"], "avx": ["sse4.2"],
    "avx2": ["avx"], "avx512f": ["avx2", "fma", "f16c"], "fma": ["avx"], "f16c": ["avx"], "popcnt": [], "bmi1": [], "bmi2": [],
    "avx512bw": ["avx512f"], "avx512vl": ["avx512f"], "avx512dq": ["avx512f"], "avx512cd": ["avx512f"],
}


def closure_of(feat):
    out, work = set(), [feat]
    while work:
        f = work.pop()
        if f in out:
            continue
        out.add(f)
        work += IMPLIES.get(f, [])
    return out


def flag_feature(field_name):
    """CpuFeatures field name -> the target feature it stands for (sse4_1 -> sse4.1, avx512 -> avx512f)"""
    n = field_name.replace("_", ".")
    if n == "avx512":
        n = "avx512f"
    return n if n in IMPLIES else None


def flag_tests(b):
    """[(switch bb, field name, adt, true-target)] for SwitchInt terminators that test a bool struct field"""
    out = []
    for bb, blk in enumerate(b.blocks):
        t = blk["t"]
        if t["k"] != "Switch" or bb not in b.live_blocks():
            continue
        d = t["d"]
        fld = None
        if d["k"] in ("cp", "mv"):
            fld = _bool_field(b, d["p"], bb)
        if fld is None:
            continue
        # `switchInt(x) -> [0: F, otherwise: T]`
        vals = dict((v, tg) for v, tg in t["v"])
        if set(vals) == {"0"}:
            out.append((bb, fld[0], fld[1], t["o"], vals["0"]))
    return out


def _bool_field(b, place, bb, depth=0):
    """the (field name, adt) a bool place reads, following one level of `tmp = copy (*self).field` in the same block or a dominating one"""
    fl = [e for e in place[1:] if isinstance(e, dict) and "f" in e and e.get("t") == "bool" and e.get("a")]
    if fl:
        return (fl[-1]["n"], fl[-1]["a"])
    if len(place) == 1 and depth < 3:
        defs = [(i, j, st) for (i, j, st) in b.stmts() if st["p"] == [place[0]]]
        if len(defs) == 1 and defs[0][2]["r"]["k"] == "Use":
            o = defs[0][2]["r"]["o"][0]
            if o["k"] in ("cp", "mv"):
                return _bool_field(b, o["p"], defs[0][0], depth + 1)
    return None


def gated_by(b, call_bb):
    """features established on every path to call_bb by true edges of flag tests"""
    feats = []
    for (sbb, fname, adt, true_t, false_t) in flag_tests(b):
        if true_t == false_t:
            continue
        # the true target must be entered only from this switch, and dominate the call
        if set(b.pred[true_t]) - {sbb}:
            continue
        if b.dominates(true_t, call_bb):
            feats.append((fname, adt))
    return feats


def r1_dispatch(ctx, prefix="cascette_"):
    rule = "C09.R1"
    ctx.rule(rule, "target_feature code runs only behind the matching CPU flag; flags come from the matching detection")
    prog = ctx.prog
    tf_bodies = {b.id: set(b.rec["tf"]) for b in prog.bodies.values() if b.rec.get("tf") and b.krate.startswith(prefix)}
    n_calls = 0
    flag_adts = set()
    for b in prog.bodies.values():
        if not b.krate.startswith(prefix):
            continue
        own = set()
        rb = prog.bodies.get(b.root) if b.root else b
        for f in (rb.rec.get("tf") if rb is not None else None) or []:
            own |= closure_of(f)
        for c in b.calls:
            if c.bb not in b.live_blocks() or c.id not in tf_bodies:
                continue
            need = tf_bodies[c.id] - own
            if not need:
                continue
            n_calls += 1
            ctx.saw(b)
            ctx.call_sites += 1
            gates = gated_by(b, c.bb)
            have = set()
            for (fname, adt) in gates:
                ff = flag_feature(fname)
                if ff:
                    have |= closure_of(ff)
                    flag_adts.add(adt)
            missing = sorted(need - have)
            callee = c.id.split("::")[-1]
            ctx.check(not missing, rule, [b.id, "gate", callee],
                      "call of %s (needs %s) is dominated by the true edge of %s" % (callee, ",".join(sorted(need)), ", ".join(g[0] for g in gates)),
                      "%s calls %s, which is compiled with #[target_feature(enable = \"%s\")], but no test of a CPU-feature flag implying %s dominates "
                      "the call (flags tested on the way: %s): on a host without that feature this executes an illegal instruction instead of "
                      "returning what the portable fallback returns" % (b.id, callee, ",".join(sorted(need)), ",".join(missing), ", ".join(g[0] for g in gates) or "none"),
                      c.loc(), sample={"caller": b.id, "callee": c.id, "needs": sorted(need), "gates": [g[0] for g in gates]})
    ctx.floor(rule, n_calls, 17, "calls of #[target_feature] functions from ungated bodies")
    # flag provenance: every construction of the flag struct
    n_agg = 0
    for b in prog.bodies.values():
        if not b.krate.startswith(prefix):
            continue
        for (i, j, st) in b.stmts():
            r = st["r"]
            if r["k"] != "Agg" or r.get("adt") not in flag_adts or i not in b.live_blocks():
                continue
            n_agg += 1
            ctx.saw(b)
            for fname, o in zip(r.get("fields", []), r["o"]):
                ff = flag_feature(fname)
                if ff is None:
                    continue
                det = detected_features(b, o)
                if det is None:
                    ctx.ok(rule, [b.id, "flag", fname], "flag %s is constant false" % fname, b.loc(), nontrivial=False)
                    continue
                bad = sorted(d for d in det if ff not in closure_of(d))
                ctx.check(det and not bad, rule, [b.id, "flag", fname],
                          "flag %s is filled from detection of %s" % (fname, ",".join(sorted(det))),
                          "%s fills the CPU flag `%s` from %s: a host can report that without supporting %s, and every %s path then runs "
                          "instructions the host does not have" % (b.id, fname, ("detection of " + ",".join(sorted(det))) if det else "a value that is not a runtime detection", ff, ff),
                          "%s:%d" % (b.file, st.get("l", 0)), sample={"in": b.id, "flag": fname, "detected": sorted(det)})
    ctx.floor(rule, n_agg, 2, "constructions of the CPU-feature struct")


def detected_features(b, operand):
    """set of feature names whose runtime detection can reach this operand; None when the operand is constant false only"""
    sl = Slice(b, [op_local(operand)] if op_local(operand) is not None else [], through_calls=True)
    det = set()
    for n in sl.call_names():
        m = re.search(r"__is_feature_detected::(\w+)$", n)
        if m:
            det.add(m.group(1).replace("_", ".") if m.group(1) != "avx512f" else "avx512f")
    if det:
        return {d if d in IMPLIES else d for d in det}
    if operand["k"] == "c":
        return None if op_const(operand) in (0, "0", False) else set()
    # all defs constant false?
    l = op_local(operand)
    defs = [st for (i, j, st) in b.stmts() if st["p"] == [l]]
    if defs and all(st["r"]["k"] == "Use" and st["r"]["o"][0]["k"] == "c" and op_const(st["r"]["o"][0]) in (0, "0", False) for st in defs):
        return None
    return set()


# ---------------------------------------------------------------------------------------------------------------
def r2_vector_bounds(ctx, prefix="cascette_", floor=16):
    rule = "C09.R2"
    ctx.rule(rule, "every vector load/store through slice.as_ptr().add(i) is proven within the slice")
    prog = ctx.prog
    cl = {b.id for b in prog.bodies.values() if b.krate.startswith(prefix) and any(bounds.vec_mem_width(c.name) is not None for c in b.calls)}
    if not cl:
        ctx.floor(rule, 0, floor, "vector load/store call sites")
        return
    res, _req = bounds.analyse_closure(prog, cl, krate_prefix=prefix)
    n = 0
    for bid in sorted(cl):
        b = prog.bodies[bid]
        ctx.saw(b)
        for sk in res[bid].sinks:
            if sk.kind != "vecmem":
                continue
            n += 1
            ctx.call_sites += 1
            ctx.check(sk.proven, rule, [bid, sk.what.split(":")[0]],
                      "%s proven in bounds (%s)" % (sk.what, "; ".join(str(d) for d in sk.detail)[:160]),
                      "%s in %s is not proven to stay inside the slice its pointer was taken from (goal offset + width <= len; facts on the path do "
                      "not give it): an out-of-bounds vector access reads or writes foreign memory, so the accelerated helper no longer returns "
                      "what the portable fallback returns" % (sk.what, bid), sk.loc,
                      sample={"in": bid, "access": sk.what, "goal": [repr(g) for g in sk.goals], "proof": [str(d) for d in sk.detail]})
    ctx.floor(rule, n, floor, "vector load/store call sites")


# ---------------------------------------------------------------------------------------------------------------
# R3: symbolic tables of the lookup3 siblings
def _const_of(e):
    return e[1] if isinstance(e, tuple) and e[0] == "c" else None


def eval_path(b, start, stop):
    """symbolic evaluation of the straight-line path that starts in block `start` and ends when a block in `stop` is reached, the
    path branches, or it returns. -> (env at the end, [callee names seen], last block)"""
    env = {}
    calls = []

    def val(o):
        if o["k"] == "c":
            v = op_const(o)
            return ("c", v)
        p = o["p"]
        if len(p) == 1:
            return env.get(p[0], ("init", p[0]))
        idx = [e for e in p[1:] if isinstance(e, dict) and ("i" in e or "ci" in e)]
        if idx:
            e = idx[-1]
            if "i" in e:
                iv = _const_of(env.get(e["i"], ("init", e["i"])))
            else:
                iv = e["ci"]
            return ("byte", iv) if iv is not None else ("?",)
        return ("?",)
    seen = set()
    cur = start
    while cur is not None and cur not in seen and cur not in stop:
        seen.add(cur)
        blk = b.blocks[cur]
        for st in blk.get("s", []):
            p, r = st["p"], st["r"]
            if len(p) != 1:
                continue
            k = r["k"]
            if k == "Use":
                env[p[0]] = val(r["o"][0])
            elif k == "Cast":
                env[p[0]] = val(r["o"][0])
            elif k == "Bin":
                a, c = val(r["o"][0]), val(r["o"][1])
                op = r["op"]
                if op in ("Shl", "ShlUnchecked") and _const_of(c) is not None:
                    env[p[0]] = ("shl", a, int(_const_of(c)))
                elif op in ("Add", "AddUnchecked", "BitOr"):
                    env[p[0]] = ("add", a, c)
                else:
                    env[p[0]] = ("?",)
            elif k == "Agg" and r.get("ak") == "array":
                env[p[0]] = ("arr", [val(o) for o in r["o"]])
            else:
                env[p[0]] = ("?",)
        t = blk["t"]
        nxt = None
        if t["k"] == "Call":
            f = t["f"]
            name = f["fn"]["name"] if f.get("k") == "fn" else ""
            args = [val(a) for a in t["a"]]
            d = t["d"][0] if t.get("d") and len(t["d"]) == 1 else None
            res = ("?",)
            if re.search(r"::wrapping_add$", name) and len(args) == 2:
                res = ("add", args[0], args[1])
            elif re.search(r"\bFrom<.*>>?::from$|\bInto<.*>>?::into$", name) and len(args) == 1:
                res = args[0]
            elif re.search(r"::from_le_bytes$", name) and len(args) == 1 and args[0][0] == "arr":
                acc = None
                for i, e in enumerate(args[0][1]):
                    term = ("shl", e, 8 * i)
                    acc = term if acc is None else ("add", acc, term)
                res = acc
            elif re.search(r"::from_be_bytes$", name) and len(args) == 1 and args[0][0] == "arr":
                acc = None
                n = len(args[0][1])
                for i, e in enumerate(args[0][1]):
                    term = ("shl", e, 8 * (n - 1 - i))
                    acc = term if acc is None else ("add", acc, term)
                res = acc
            else:
                if f.get("k") == "fn" and f["fn"].get("local"):
                    calls.append(f["fn"]["id"])
            if d is not None:
                env[d] = res
            nxt = t.get("t")
        elif t["k"] == "Assert":
            nxt = t.get("t")
        elif t["k"] == "Goto":
            nxt = t.get("t")
        elif t["k"] == "Drop":
            nxt = t.get("t")
        else:
            nxt = None
        last = cur
        cur = nxt
    return env, calls, cur


def flatten(e, shift=0):
    """-> (list of (byte index, shift), list of base atoms) or None when the expression is not a sum of shifted key bytes over a base"""
    if e[0] == "add":
        a = flatten(e[1], shift)
        c = flatten(e[2], shift)
        if a is None or c is None:
            return None
        return (a[0] + c[0], a[1] + c[1])
    if e[0] == "shl":
        return flatten(e[1], shift + e[2])
    if e[0] == "byte":
        return ([(e[1], shift)], [])
    if e[0] == "init":
        return ([], [e[1]])
    return None


def base_local(b, l, depth=0):
    """follow `x = &mut y` / `x = &mut (*y)` / copies to the local that is ultimately borrowed"""
    if depth > 6:
        return l
    defs = [st for (i, j, st) in b.stmts() if st["p"] == [l]]
    if len(defs) != 1:
        return l
    r = defs[0]["r"]
    if r["k"] == "Ref":
        return base_local(b, r["p"][0], depth + 1)
    if r["k"] == "Use" and r["o"][0]["k"] in ("cp", "mv") and len(r["o"][0]["p"]) == 1:
        return base_local(b, r["o"][0]["p"][0], depth + 1)
    return l


def lookup_tables(b, min_arms=8):
    """-> {"arms": {n: frozenset((role, byte, shift))}, "loop": frozenset(..) | None, "mix": [callee ids], "roles": {...}} or None"""
    big = [(bb, blk["t"]) for bb, blk in enumerate(b.blocks) if blk["t"]["k"] == "Switch" and len(blk["t"]["v"]) >= min_arms and bb in b.live_blocks()]
    if not big:
        return None
    sbb, sw = big[0]
    joins = {x for x in range(len(b.blocks)) if len([p for p in b.pred[x] if p in b.live_blocks()]) > 1}
    raw = {}
    acc_locals = set()
    after = []
    for v, tg in sw["v"]:
        env, calls, end = eval_path(b, tg, joins)
        contrib = {}
        ok = True
        for l, e in env.items():
            fl = flatten(e) if isinstance(e, tuple) and e[0] == "add" else None
            if fl is None:
                continue
            terms, bases = fl
            if bases == [l] and terms:
                contrib[l] = terms
        raw[int(v)] = contrib
        acc_locals |= set(contrib)
        after.append(end)
    # roles: argument position of the accumulators in a local call that takes at least two of them by reference
    roles = {}
    mixers = []
    for c in b.calls:
        if c.bb not in b.live_blocks() or not c.local:
            continue
        bl = [base_local(b, op_local(a)) if op_local(a) is not None else None for a in c.args]
        hit = [x for x in bl if x in acc_locals]
        if len(hit) >= 2:
            if c.id not in mixers:
                mixers.append(c.id)
            for pos, x in enumerate(bl):
                if x in acc_locals:
                    if roles.setdefault(x, pos) != pos:
                        return {"error": "accumulator %s is passed at two different positions of the mixing calls" % b.local_name(x)}
    if len(roles) < len(acc_locals):
        return {"error": "cannot assign a role to every accumulator (no shared mixing call takes them)"}
    arms = {n: frozenset((roles[l], i, s) for l, ts in contrib.items() for (i, s) in ts) for n, contrib in raw.items()}
    # the block loop: a two-way switch whose taken edge comes back to it and passes a mixing call
    loop_tab = None
    for bb, blk in enumerate(b.blocks):
        t = blk["t"]
        if t["k"] != "Switch" or len(t["v"]) != 1 or bb not in b.live_blocks():
            continue
        for tg in (t["o"], t["v"][0][1]):
            env, calls, end = eval_path(b, tg, {bb} | (joins - {tg}))
            if not any(m in calls for m in mixers):
                continue
            # `end` must lead back to the switch block (through the loop header)
            if bb not in b.reachable(end if end is not None else tg):
                continue
            contrib = set()
            for l, e in env.items():
                fl = flatten(e) if isinstance(e, tuple) and e[0] == "add" else None
                if fl and fl[1] == [l] and fl[0] and l in roles:
                    contrib |= {(roles[l], i, s) for (i, s) in fl[0]}
            if contrib:
                loop_tab = frozenset(contrib)
    return {"arms": arms, "loop": loop_tab, "mix": sorted(mixers), "roles": {b.local_name(l) or str(l): r for l, r in roles.items()},
            "threshold": block_threshold(b, mixers)}


def block_threshold(b, mixers):
    """smallest number of remaining key bytes for which the function takes a block step: `while k.len() > 12` -> 13,
    `while k.len() >= 12` / `chunks_exact(12)` -> 12; None when not readable"""
    # iterator form
    for c in b.calls:
        if c.bb in b.live_blocks() and re.search(r"::chunks_exact$", c.name) and len(c.args) == 2 and op_const(c.args[1]) is not None:
            return int(op_const(c.args[1]))
    mix_bbs = {c.bb for c in b.calls if c.id in mixers and c.bb in b.live_blocks()}
    for bb, blk in enumerate(b.blocks):
        t = blk["t"]
        if t["k"] != "Switch" or len(t["v"]) != 1 or bb not in b.live_blocks() or op_local(t["d"]) is None:
            continue
        # a loop header: the switch is reachable from one of its own successors through a mixing call
        body_side = [tg for tg in (t["o"], t["v"][0][1]) if bb in b.reachable([tg]) and (b.reachable([tg], avoid={bb}) & mix_bbs)]
        if not body_side:
            continue
        taken_on_true = (body_side[0] == t["o"])
        defs = [st for (i, j, st) in b.stmts() if st["p"] == [op_local(t["d"])] and st["r"]["k"] == "Bin"]
        if len(defs) != 1:
            continue
        r = defs[0]["r"]
        op, (x, y) = r["op"], r["o"]
        cx, cy = op_const(x), op_const(y)
        if cy is not None and cx is None:
            c = int(cy)
            thr = {"Gt": c + 1, "Ge": c}.get(op) if taken_on_true else {"Le": c + 1, "Lt": c}.get(op)
        elif cx is not None and cy is None:
            c = int(cx)
            thr = {"Lt": c + 1, "Le": c}.get(op) if taken_on_true else {"Ge": c + 1, "Gt": c}.get(op)
        else:
            thr = None
        if thr is not None:
            return thr
    return None


def fmt_tab(t):
    return " ".join("%s+=k[%s]<<%s" % ("abc"[r] if r < 3 else r, i, s) for (r, i, s) in sorted(t))


def compare_tables(ctx, rule, named):
    """named: [(label, tables)] -> obligations"""
    ref_label, ref = named[0]
    for label, tabs in named[1:]:
        keys = sorted(set(ref["arms"]) | set(tabs["arms"]))
        for n in keys:
            a, c = ref["arms"].get(n), tabs["arms"].get(n)
            ctx.check(a == c, rule, [label, "tail", n],
                      "tail case %d of %s equals %s: %s" % (n, label, ref_label, fmt_tab(a or ())),
                      "tail case %d differs between the two hand-unrolled lookup3 functions: %s has {%s}, %s has {%s}; keys whose length leaves %d "
                      "trailing bytes hash differently in the two, so one of them does not compute lookup3" %
                      (n, ref_label, fmt_tab(a or ()), label, fmt_tab(c or ()), n),
                      None, sample={"case": n, ref_label: fmt_tab(a or ()), label: fmt_tab(c or ())})
        if ref["loop"] is None or tabs["loop"] is None:
            ctx.info("C09.R3: the block step of %s is not written as a straight-line loop body the extractor can read; block-step agreement with %s "
                     "is not decided" % (label if tabs["loop"] is None else ref_label, ref_label if tabs["loop"] is None else label))
        else:
            ctx.check(ref["loop"] == tabs["loop"], rule, [label, "block-loop"],
                      "12-byte block step of %s equals %s" % (label, ref_label),
                      "the 12-byte block step differs: %s has {%s}, %s has {%s}" % (ref_label, fmt_tab(ref["loop"] or ()), label, fmt_tab(tabs["loop"] or ())))
        if ref.get("threshold") is not None and tabs.get("threshold") is not None:
            ctx.check(ref["threshold"] == tabs["threshold"], rule, [label, "block-threshold"],
                      "both take a block step only while at least %d key bytes remain" % ref["threshold"],
                      "%s takes a block step while at least %d key bytes remain, %s while at least %d remain: for keys whose length is a multiple of the "
                      "block size one of them mixes the last full block in the loop and the other leaves it to the tail switch and the final mix - "
                      "the two hashes differ for those lengths" % (ref_label, ref["threshold"], label, tabs["threshold"]))
        else:
            ctx.info("C09.R3: block-loop threshold of %s / %s not readable; not decided" % (ref_label, label))
        ctx.check(ref["mix"] == tabs["mix"], rule, [label, "mixers"],
                  "same mixing functions (%s)" % ", ".join(m.split("::")[-1] for m in ref["mix"]),
                  "%s mixes with %s but %s with %s" % (ref_label, ref["mix"], label, tabs["mix"]))


def r3_lookup3(ctx, krate="cascette_crypto", file_pat=r"jenkins\.rs$", floor=2):
    rule = "C09.R3"
    ctx.rule(rule, "hand-unrolled lookup3 siblings agree byte for byte (tail cases, block step, mixing calls)")
    found = []
    for b in sorted(ctx.prog.bodies.values(), key=lambda x: x.id):
        if b.krate != krate or not re.search(file_pat, b.file) or b.root:
            continue
        t = lookup_tables(b)
        if t is None:
            continue
        ctx.saw(b)
        if "error" in t:
            ctx.bad(rule, [b.id, "table"], "anchor-missing: the tail switch of %s cannot be read as a table: %s" % (b.id, t["error"]), b.loc())
            continue
        found.append((b.item, t))
        # internal consistency: the full case is the block step; cases are nested (case n = case n+1 minus byte n)
        full = max(t["arms"]) if t["arms"] else None
        if t["loop"] is not None and full is not None:
            ctx.check(t["arms"][full] == t["loop"], rule, [b.id, "full-case-is-block-step"],
                      "case %d adds the same twelve bytes as the block step" % full,
                      "in %s the %d-byte tail case {%s} differs from the block step {%s}: a key of exactly that length and a longer key whose last "
                      "block has that length are absorbed differently" % (b.id, full, fmt_tab(t["arms"][full]), fmt_tab(t["loop"])), b.loc())
        for n in sorted(t["arms"]):
            if n + 1 in t["arms"]:
                lo, hi = t["arms"][n], t["arms"][n + 1]
                extra = hi - lo
                ctx.check(lo <= hi and {i for (_, i, _) in extra} == {n}, rule, [b.id, "nested", n],
                          "case %d = case %d without byte %d" % (n, n + 1, n),
                          "in %s tail case %d {%s} is not case %d {%s} minus key byte %d: the unrolled switch absorbs a byte at the wrong place "
                          "for keys with %d trailing bytes" % (b.id, n, fmt_tab(lo), n + 1, fmt_tab(hi), n, n), b.loc())
    ctx.floor(rule, len(found), floor, "functions with an unrolled key-length switch in jenkins.rs")
    if len(found) >= 2:
        compare_tables(ctx, rule, found)


# ---------------------------------------------------------------------------------------------------------------
def r4_cipher_symmetry(ctx, krate="cascette_crypto"):
    rule = "C09.R4"
    ctx.rule(rule, "encrypt / decrypt of a stream cipher are one keystream path with parameters forwarded unchanged")
    prog = ctx.prog
    by = {}
    for b in prog.bodies.values():
        if b.krate != krate or b.root or not b.item:
            continue
        m = re.match(r"^(encrypt|decrypt)(.*)$", b.item)
        if m:
            by.setdefault((b.rec.get("self_ty") or "", m.group(2)), {})[m.group(1)] = b
    n = 0
    for key, pair in sorted(by.items()):
        if set(pair) != {"encrypt", "decrypt"}:
            continue
        n += 1
        e, d = pair["encrypt"], pair["decrypt"]
        ctx.saw(e)
        ctx.saw(d)
        deleg = None
        for (src, dst) in ((e, d), (d, e)):
            for c in src.calls:
                if c.bb in src.live_blocks() and c.id == dst.id:
                    deleg = (src, dst, c)
        if deleg is None:
            common = {c.id for c in e.calls if c.local} == {c.id for c in d.calls if c.local}
            if common:
                ctx.ok(rule, [e.id, "same-callees"], "encrypt and decrypt call the same crate functions", e.loc())
            else:
                ctx.info("C09.R4: %s / %s neither delegate to each other nor share their callees; symmetry not decided" % (e.id, d.id))
            continue
        src, dst, c = deleg
        argc = src.argc
        fwd = []
        for pos, a in enumerate(c.args):
            l = op_local(a)
            origin = param_origin(src, l) if l is not None else None
            fwd.append(origin)
        good = fwd == list(range(1, argc + 1)) and len(c.args) == argc
        # result returned unchanged
        ret_ok = returns_call_result(src, c)
        ctx.check(good and ret_ok, rule, [src.id, "delegates", dst.item],
                  "%s forwards its %d parameter(s) in order and returns the result unchanged" % (src.item, argc),
                  "%s delegates to %s but %s: encrypting and then decrypting with the same parameters is then not the identity" %
                  (src.id, dst.item, "does not forward every parameter unchanged and in order (argument origins: %s)" % fwd if not good else "post-processes the result"),
                  c.loc(), sample={"from": src.id, "to": dst.id, "argument_origins": fwd})
    ctx.floor(rule, n, 2, "encrypt/decrypt pairs in cascette-crypto")


def param_origin(b, l, depth=0):
    """parameter index a local is an unmodified copy / reborrow of, else None"""
    if l is None or depth > 8:
        return None
    if 1 <= l <= b.argc:
        # a parameter that is reassigned is not 'unchanged'
        if any(st["p"] == [l] for (i, j, st) in b.stmts()):
            return None
        return l
    defs = [st for (i, j, st) in b.stmts() if st["p"] == [l]]
    if len(defs) != 1:
        return None
    r = defs[0]["r"]
    if r["k"] == "Use" and r["o"][0]["k"] in ("cp", "mv") and len(r["o"][0]["p"]) == 1:
        return param_origin(b, r["o"][0]["p"][0], depth + 1)
    if r["k"] == "Ref" and [e for e in r["p"][1:] if e != "*"] == []:
        return param_origin(b, r["p"][0], depth + 1)
    if r["k"] == "Use" and r["o"][0]["k"] in ("cp", "mv") and [e for e in r["o"][0]["p"][1:] if e != "*"] == []:
        return param_origin(b, r["o"][0]["p"][0], depth + 1)
    return None


def returns_call_result(b, c):
    d = c.dest[0] if c.dest else None
    if d == 0:
        return True
    # _0 assigned only from d
    defs = [st for (i, j, st) in b.stmts() if st["p"] == [0]]
    if not defs:
        return False
    for st in defs:
        r = st["r"]
        if not (r["k"] == "Use" and op_local(r["o"][0]) == d):
            return False
    # and nothing else is called on the way
    return True


def unrebased_positions(b, prog=None):
    """[(call, start description)]: results of position()/find() over an iterator that comes from `slice[start..]` (start not the constant 0)
    of a slice PARAMETER, that reach the function's return value without an addition - an index into the tail handed out as an index
    into the whole"""
    from .lib import return_holders
    out = []
    hs = return_holders(b)
    ret_sl = Slice(b, list(hs), transparent=True)
    for c in b.calls:
        if c.bb not in b.live_blocks() or not re.search(r"\bIterator>?::(position|rposition)$|core::slice::<impl \[T\]>::iter$.*position", c.orig_name or c.name):
            continue
        if not c.args or op_local(c.args[0]) is None:
            continue
        sl = Slice(b, [op_local(c.args[0])], transparent=True)
        sub = [x for x in sl.calls if (re.search(r"\bIndex<.*>>?::index$", x.name) or re.search(r"\bIndex::index$", x.orig_name or "")) and len(x.args) == 2 and "RangeFrom" in (b.local_ty(op_local(x.args[1])) or "")]
        if not sub or not (sl.args & {i for i in range(1, b.argc + 1) if re.search(r"\[u8\]|str", b.local_ty(i) or "")}):
            continue
        # the range start: constant 0 is harmless
        x = sub[0]
        rsl = Slice(b, [op_local(x.args[1])], transparent=True)
        if not (rsl.locals - {op_local(x.args[1])}) and all(str(op_const(k)) in ("0", "None") for k in rsl.consts):
            continue
        # does the result reach the return without an Add?
        if c.dest[0] not in ret_sl.locals:
            continue
        fwd = {c.dest[0]}
        added = False
        changed = True
        while changed:
            changed = False
            for (i, j, st) in b.stmts():
                r = st["r"]
                ops = [op_local(o) for o in r.get("o", [])]
                if any(o in fwd for o in ops) and st["p"][0] not in fwd:
                    if r["k"] == "Bin" and r["op"] in ("Add", "AddWithOverflow", "AddUnchecked"):
                        added = True
                        continue
                    fwd.add(st["p"][0])
                    changed = True
            for k in b.calls:
                if any(op_local(a) in fwd for a in k.args) and k.dest and k.dest[0] not in fwd:
                    if re.search(r"::(checked_add|wrapping_add|saturating_add)$|\bAdd>?::add$", k.name):
                        added = True
                        continue
                    # a closure given to map() / and_then(): an addition inside it re-bases the value
                    if prog is not None and re.search(r"::(map|and_then|map_or|map_or_else)$", k.name):
                        for ch in prog.children.get(b.id, []):
                            cb = prog.bodies[ch]
                            if any(st["r"]["k"] == "Bin" and st["r"]["op"] in ("Add", "AddWithOverflow", "AddUnchecked") for (_i, _j, st) in cb.stmts()):
                                added = True
                    fwd.add(k.dest[0])
                    changed = True
        if (fwd & hs) and not added:
            out.append((c, x))
    return out


def r5_rebased_positions(ctx, prefix="cascette_"):
    rule = "C09.R5"
    ctx.rule(rule, "in the accelerated search kernels a position found in a tail sub-slice is added to the tail's start before it is returned")
    n = 0
    for b in ctx.prog.bodies.values():
        if not b.krate.startswith(prefix) or b.root or not b.rec.get("tf") or "Option<usize>" not in (b.local_ty(0) or ""):
            continue
        n += 1
        ctx.saw(b)
        bad = unrebased_positions(b, ctx.prog)
        # nested closures are part of the kernel
        ctx.check(not bad, rule, [b.id, "rebased"], "every position returned is relative to the whole haystack",
                  "%s returns the result of position() over `haystack[start..]` as it is: that is an offset into the tail, not into the haystack, so for a "
                  "match behind the last full vector block the accelerated search returns a different index than the portable fallback" % b.id,
                  bad[0][0].loc() if bad else b.loc(), sample={"kernel": b.id})
    ctx.floor(rule, n, 2, "accelerated kernels that return a position")


SIGNED8 = re.compile(r"core::core_arch::x86(_64)?::\w+::_mm\d*_(cmpgt|cmplt|max|min)_epi8$")


def signed_byte_compares(b):
    """calls of intrinsics that ORDER bytes as signed (`pcmpgtb`, `pmaxsb` ...) whose operands were not biased by 0x80 first"""
    out = []
    for c in b.calls:
        if c.bb not in b.live_blocks() or not SIGNED8.search(c.name):
            continue
        biased = True
        for a in c.args:
            l = op_local(a)
            if l is None:
                biased = False
                continue
            sl = Slice(b, [l], transparent=True)
            if not any(re.search(r"_mm\d*_xor_si\d+$|_mm\d*_(add|sub)_epi8$", x.name) for x in sl.calls):
                biased = False
        if not biased:
            out.append(c)
    return out


def r6_unsigned_order(ctx, prefix="cascette_"):
    """the portable fallbacks order `u8` slices (Ord for [u8] is unsigned, lexicographic). x86 has no unsigned byte compare before AVX-512: `pcmpgtb` /
    `pmaxsb` order bytes as SIGNED, so a kernel that takes an ordering from them answers the opposite of the fallback whenever exactly one of the two
    bytes is >= 0x80 - unless both operands were first XORed with 0x80 (the usual bias)"""
    rule = "C09.R6"
    ctx.rule(rule, "no accelerated kernel over byte slices orders bytes with a signed compare / max / min intrinsic on unbiased operands")
    n = 0
    for b in sorted(ctx.prog.bodies.values(), key=lambda x: x.id):
        if not b.krate.startswith(prefix) or not (b.rec.get("tf") or (b.root and (ctx.prog.bodies.get(b.root) and ctx.prog.bodies[b.root].rec.get("tf")))):
            continue
        if not any("[u8]" in (b.local_ty(k) or "") for k in range(1, b.argc + 1)):
            continue
        n += 1
        ctx.saw(b)
        bad = signed_byte_compares(b)
        ctx.check(not bad, rule, [b.id, "unsigned-order"], "no signed byte ordering on unbiased operands",
                  "%s takes an ordering of bytes from %s, which compares them as SIGNED: for two bytes on different sides of 0x80 the kernel answers the "
                  "opposite of the portable fallback (which orders u8), so binary keys sort and compare differently on accelerated hosts" %
                  (ctx._stable(b.id), bad[0].name.split("::")[-1] if bad else "?"), bad[0].loc() if bad else b.loc())
    ctx.floor(rule, n, 10, "accelerated kernels over byte slices")


def run(ctx):
    r6_unsigned_order(ctx)
    r5_rebased_positions(ctx)
    r1_dispatch(ctx)
    r2_vector_bounds(ctx)
    r3_lookup3(ctx)
    r4_cipher_symmetry(ctx)


def selftest(ctx):
    r1_dispatch_selftest(ctx)
    r2_selftest(ctx)
    r3_selftest(ctx)
    from .selftest import body
    for i in ("tail_pos_rebased_ok", "tail_pos_range_ok", "tail_pos_relative_bad"):
        b_ = body(ctx, i)
        hit = bool(unrebased_positions(b_, ctx.prog))
        (ctx.bad if hit else ctx.ok)("ST.rebase", [i], "reported" if hit else "silent", b_.loc())
    return {"must_report": ["ST.rebase|tail_pos_relative_bad", "ST.simdgate|dispatch_gate_bad", "ST.simdgate|dispatch_ungated_bad", "ST.simdgate|detect_swapped_bad",
                            "ST.vecmem|vec_load_bad", "ST.vecmem|vec_store_other_len_bad", "ST.tailtab|tail_sibling_bad"],
            "must_not_report": ["ST.rebase|tail_pos_rebased_ok", "ST.rebase|tail_pos_range_ok", "ST.simdgate|dispatch_gate_ok", "ST.simdgate|detect_ok", "ST.vecmem|vec_load_ok", "ST.vecmem|vec_store_min_ok",
                                "ST.tailtab|tail_sibling_ok"]}


def _sub_ctx(ctx):
    from .engine import Ctx
    return Ctx(ctx.prog, ctx.prop, ctx.tier, selftest=True)


def r1_dispatch_selftest(ctx):
    from .selftest import body
    sub = _sub_ctx(ctx)
    r1_dispatch(sub, prefix="verif_selftest")
    bad_in = {v.key.split("|")[1].split("::")[-1] for v in sub.violations}
    for i in ("dispatch_gate_ok", "dispatch_gate_bad", "dispatch_ungated_bad", "detect_ok", "detect_swapped_bad"):
        b = body(ctx, i)
        (ctx.bad if i in bad_in else ctx.ok)("ST.simdgate", [i], "reported" if i in bad_in else "silent", b.loc())


def r2_selftest(ctx):
    from .selftest import body
    sub = _sub_ctx(ctx)
    r2_vector_bounds(sub, prefix="verif_selftest", floor=0)
    bad_in = {v.key.split("|")[1].split("::")[-1] for v in sub.violations}
    for i in ("vec_load_ok", "vec_load_bad", "vec_store_other_len_bad", "vec_store_min_ok"):
        b = body(ctx, i)
        (ctx.bad if i in bad_in else ctx.ok)("ST.vecmem", [i], "reported" if i in bad_in else "silent", b.loc())


def r3_selftest(ctx):
    from .selftest import body
    ref = lookup_tables_small(body(ctx, "tail_ref"))
    for i in ("tail_sibling_ok", "tail_sibling_bad"):
        b = body(ctx, i)
        t = lookup_tables_small(b)
        same = t is not None and ref is not None and "error" not in t and "error" not in ref and t["arms"] == ref["arms"]
        (ctx.ok if same else ctx.bad)("ST.tailtab", [i], "tables equal" if same else "tables differ", b.loc())


def lookup_tables_small(b):
    """lookup_tables with the arm-count threshold lowered for the witnesses"""
    return lookup_tables(b, min_arms=3)
