"""E-dirty - dirty-flag discipline, by discovery.

A *dirty flag* is a `bool` / `AtomicBool` field F of a workspace struct T that some body sets to true, some body (a *saver*) sets to false, and
some body branches on. It exists so that a saver can skip work: whatever the saver would have written is only written when F is true. Hence the
necessary condition decided here, on every CFG path of every body that touches T's persisted state:

    when a body returns after mutating a persisted field of T, the flag is known to be true - it was set after the mutation, or it was set
    before it and nothing on the way (a flush, a save) cleared it in between.

Persisted fields = the fields of T read by the savers (the bodies that clear F), transitively through local callees. Events are recognised by the
(ADT, field) attributes the driver attaches to every field projection, so `&mut self` methods, free functions, async bodies (self is an upvar) and
manager types that mutate another struct's fields through lock guards are all covered by the same definition; objects are identified by type.

Forward dataflow over the CFG (unwind edges ignored), state = (known_true, pending):
    SET    F := true                         -> known_true = T, pending = F
    CLEAR  F := false                        -> known_true = ?, pending = F        (state was persisted here)
    MUT    write / &mut borrow / write-lock  -> pending |= not known_true
    call   of a local body with a summary    -> (known_out, pending_out, may_clear, mutates) applied as above
join: known_true by AND, pending by OR. Violation: a normal return with pending = T.
"""
import re
from .facts import op_local, op_const, place_fields

ATOMIC_STORE = re.compile(r"\bAtomicBool::(store|swap)$|\bAtomic::<bool>::(store|swap)$")
ATOMIC_LOAD = re.compile(r"\bAtomicBool::load$|\bAtomic::<bool>::load$")
LOCK_WRITE = re.compile(r"\bRwLock<R, T>::(write|try_write|upgradable_read)$|\bRwLock::<T>::(write|try_write)$|\bMutex<R, T>::(lock|try_lock)$|\bMutex::<T>::(lock|try_lock)$|\bRefCell::<T>::(borrow_mut|try_borrow_mut)$")


def _fields_of(place, adt):
    """names of the fields of `adt` projected in a place (outermost first)"""
    return [e["n"] for e in place[1:] if isinstance(e, dict) and "f" in e and e.get("a") == adt]


def _behind_ref(place, adt):
    """the ADT's field is reached through a dereference (a shared object), not on a by-value local that the body is still building"""
    for k, e in enumerate(place[1:], 1):
        if isinstance(e, dict) and "f" in e and e.get("a") == adt:
            return "*" in place[1:k]
    return False


def _ref_source(b, l, depth=0):
    """place a reference local was created from: follows `x = &p`, `x = copy y`, Deref::deref(x)"""
    if l is None or depth > 6:
        return None
    for (kind, payload) in [(d[2], d[3]) for d in b.defs.get(l, [])]:
        if kind == "assign":
            r = payload["r"]
            if r["k"] in ("Ref", "RawPtr"):
                return r["p"]
            if r["k"] in ("Use", "Cast") and r["o"][0]["k"] in ("cp", "mv"):
                p = r["o"][0]["p"]
                if len(p) == 1:
                    return _ref_source(b, p[0], depth + 1)
                return p
        elif kind == "call":
            c = payload
            if re.search(r"\bDeref(Mut)?>?::deref(_mut)?$|\bArc<T, A>.*deref|\bAsRef<.*>>?::as_ref$", c.name + " " + (c.orig_name or "")) and c.args:
                return _ref_source(b, op_local(c.args[0]), depth + 1)
    return None


def discover(prog, krates):
    """-> {(adt, field): {"set": [...], "clear": [...], "test": [...], "atomic": bool}} for bool-like fields that are set, cleared and tested"""
    cand = {}
    for adt_id, adt in prog.adts.items():
        if not any(adt_id.startswith(k + "::") for k in krates) or adt.get("kind") != "Struct":
            continue
        for v in adt.get("variants", []):
            for f in v.get("fields", []):
                if f["ty"] == "bool" or f["ty"].endswith("atomic::AtomicBool") or f["ty"].endswith("atomic::Atomic<bool>"):
                    cand[(adt_id, f["n"])] = {"set": [], "clear": [], "test": [], "atomic": f["ty"] != "bool"}
    if not cand:
        return {}
    for b in prog.bodies.values():
        if b.krate not in krates:
            continue
        live = b.live_blocks()
        for (i, j, st) in b.stmts():
            if i not in live:
                continue
            p = st["p"]
            for e in p[1:]:
                if isinstance(e, dict) and "f" in e and (e.get("a"), e["n"]) in cand and e.get("t") == "bool" and p[-1] is e:
                    r = st["r"]
                    if r["k"] == "Use" and r["o"][0]["k"] == "c":
                        v = op_const(r["o"][0])
                        cand[(e["a"], e["n"])]["set" if str(v) in ("1", "True", "true") else "clear"].append((b.id, i))
        for bb, blk in enumerate(b.blocks):
            if bb not in live:
                continue
            t = blk["t"]
            if t["k"] == "Switch" and t["d"]["k"] in ("cp", "mv"):
                src = t["d"]["p"]
                if len(src) == 1:
                    src = _ref_source(b, src[0]) or src
                for e in src[1:]:
                    if isinstance(e, dict) and "f" in e and (e.get("a"), e["n"]) in cand:
                        cand[(e["a"], e["n"])]["test"].append((b.id, bb))
        for c in b.calls:
            if c.bb not in live or not c.args:
                continue
            if ATOMIC_STORE.search(c.name) and len(c.args) >= 2:
                src = _ref_source(b, op_local(c.args[0])) or []
                v = op_const(c.args[1])
                for e in src[1:]:
                    if isinstance(e, dict) and "f" in e and (e.get("a"), e["n"]) in cand and v is not None:
                        cand[(e["a"], e["n"])]["set" if str(v) in ("1", "True", "true") else "clear"].append((b.id, c.bb))
            elif ATOMIC_LOAD.search(c.name):
                src = _ref_source(b, op_local(c.args[0])) or []
                for e in src[1:]:
                    if isinstance(e, dict) and "f" in e and (e.get("a"), e["n"]) in cand:
                        cand[(e["a"], e["n"])]["test"].append((b.id, c.bb))
    return {k: v for k, v in cand.items() if v["set"] and v["clear"] and v["test"]}


class FlagAnalysis:
    def __init__(self, prog, adt, flag, info, krates):
        self.prog = prog
        self.adt = adt
        self.flag = flag
        self.info = info
        self.krates = krates
        self.savers = sorted({bid for (bid, _) in info["clear"]})
        self.persisted = self._persisted_fields()
        self.memo = {}
        self._ev = {}
        self.by_variant = {}

    def _persisted_fields(self):
        """fields of the ADT read by the savers, transitively through local callees (bounded)"""
        out = set()
        seen = set()
        work = [(s, 0) for s in self.savers]
        while work:
            bid, depth = work.pop()
            if bid in seen or bid not in self.prog.bodies:
                continue
            seen.add(bid)
            b = self.prog.bodies[bid]
            for blk in b.blocks:
                for st in blk.get("s", []):
                    r = st["r"]
                    places = [o["p"] for o in r.get("o", []) if o["k"] in ("cp", "mv")]
                    if "p" in r:
                        places.append(r["p"])
                    for p in places:
                        for n in _fields_of(p, self.adt):
                            out.add(n)
                t = blk["t"]
                if t["k"] == "Call":
                    for o in t["a"]:
                        if o["k"] in ("cp", "mv"):
                            for n in _fields_of(o["p"], self.adt):
                                out.add(n)
            if depth < 3:
                for c in b.calls:
                    if c.local and c.id in self.prog.bodies:
                        work.append((c.id, depth + 1))
                for ch in self.prog.children.get(bid, []):
                    work.append((ch, depth + 1))
        out.discard(self.flag)
        return out

    def savers_write_files(self):
        """a dirty flag is cleared by something that writes files (directly or through local callees)"""
        FS = re.compile(r"^std::fs::(write|rename|File::create|OpenOptions::open)$|^tokio::fs::(write|rename)|\bWrite>?::write_all$|\bFile::sync_(all|data)$")
        seen, work = set(), [(s, 0) for s in self.savers]
        while work:
            bid, depth = work.pop()
            if bid in seen or bid not in self.prog.bodies:
                continue
            seen.add(bid)
            b = self.prog.bodies[bid]
            if any(FS.search(c.name) or FS.search(c.orig_name or "") for c in b.calls):
                return True
            if depth < 3:
                work += [(c.id, depth + 1) for c in b.calls if c.local and c.id in self.prog.bodies]
                work += [(ch, depth + 1) for ch in self.prog.children.get(bid, [])]
        return False

    # ---- events ------------------------------------------------------------------------------------------------
    def block_events(self, b):
        """{bb: [event, ...]} in program order; event = ("SET"|"CLEAR"|"MUT", line) or ("CALL", callee id, line, dest local).
        Events keyed ("start", bb) happen on entry to bb (edge-sensitive refinements)."""
        if b.id in self._ev:
            return self._ev[b.id]
        from .cachebooks import option_edges
        ev = {}
        adt, flag = self.adt, self.flag
        for bb, blk in enumerate(b.blocks):
            lst = []
            t_ = blk["t"]
            # a conditional container operation (`map.remove(k)`, `vec.pop()`, `get_mut`): nothing changed on its None edge
            cond_some = None
            if t_["k"] == "Call" and t_["f"].get("k") == "fn" and not t_["f"]["fn"].get("local") and t_.get("d") and len(t_["d"]) == 1 and \
                    re.search(r"::(remove|pop|take|pop_front|pop_back|remove_entry|swap_remove|get_mut|first_mut|last_mut|iter_mut)$", t_["f"]["fn"]["name"]):
                edges = option_edges(b, t_["d"][0])
                if len(edges) == 1 and not (set(b.pred[edges[0][0]]) - {x for x in range(len(b.blocks)) if edges[0][0] in b.succ[x] and b.blocks[x]["t"]["k"] == "Switch"}):
                    cond_some = edges[0][0]
            for st in blk.get("s", []):
                p, r = st["p"], st["r"]
                fs = _fields_of(p, adt)
                if fs:
                    if fs[-1] == flag and isinstance(p[-1], dict) and p[-1].get("n") == flag:
                        if r["k"] == "Use" and r["o"][0]["k"] == "c":
                            lst.append(("SET" if str(op_const(r["o"][0])) in ("1", "True", "true") else "CLEAR", st.get("l", 0)))
                        else:
                            lst.append(("CLEAR", st.get("l", 0)))     # a computed value: not known to be true
                    elif fs[0] in self.persisted and fs[0] != flag and _behind_ref(p, adt):
                        lst.append(("MUT", st.get("l", 0), fs[0]))
                if r["k"] in ("Ref", "RawPtr") and r.get("mut"):
                    rf = _fields_of(r["p"], adt)
                    # a loader / constructor fills a by-value local (`let mut db = Self::new(); db.buckets.push(..)`): that object IS the disk state
                    if rf and rf[0] in self.persisted and rf[0] != flag and _behind_ref(r["p"], adt):
                        uses = [op_local(a) for a in t_.get("a", [])] if t_["k"] == "Call" else []
                        if cond_some is not None and (st["p"][0] in uses or any(_ref_source(b, u) == [st["p"][0], "*"] for u in uses if u is not None)):
                            ev.setdefault(("start", cond_some), []).append(("MUT", st.get("l", 0), rf[0]))
                        else:
                            lst.append(("MUT", st.get("l", 0), rf[0]))
            t = blk["t"]
            if t["k"] == "Call":
                f = t["f"]
                name = f["fn"]["name"] if f.get("k") == "fn" else ""
                cid = f["fn"]["id"] if f.get("k") == "fn" else None
                args = t["a"]
                if ATOMIC_STORE.search(name) and len(args) >= 2:
                    src = _ref_source(b, op_local(args[0])) or []
                    if flag in _fields_of(src, adt):
                        v = op_const(args[1])
                        lst.append(("SET" if str(v) in ("1", "True", "true") else "CLEAR", t.get("l", 0)))
                elif LOCK_WRITE.search(name) and args:
                    src = _ref_source(b, op_local(args[0])) or []
                    fs = _fields_of(src, adt)
                    if fs and fs[0] in self.persisted:
                        lst.append(("MUT", t.get("l", 0), fs[0]))
                elif cid and f["fn"].get("local") and cid in self.prog.bodies:
                    lst.append(("CALL", cid, t.get("l", 0), t["d"][0] if t.get("d") and len(t["d"]) == 1 else None))
            if lst:
                ev[bb] = lst
        self._ev[b.id] = ev
        return ev

    def positive_edge(self, b, dest):
        """(target block, variant name) of the Some / Ok edge of a branch on the call result in `dest` (incl. through `?`), when that block is
        entered from the branch only"""
        from .lib import enum_switches
        if dest is None:
            return None
        ty = b.local_ty(dest) or ""
        var = "Some" if ty.startswith("core::option::Option<") else "Ok" if ty.startswith("core::result::Result<") else None
        if var is None:
            return None
        for (sbb, m, other, via) in enum_switches(b, dest):
            tgt = m.get(0) if (via or var == "Ok") else m.get(1, other)
            if via:
                tgt = m.get(0)
            if tgt is not None and not (set(b.pred[tgt]) - {sbb}):
                return (tgt, var)
        return None


    def summary(self, bid, stack=()):
        """(known_out, pending_out, may_clear, mutates, first offending line)"""
        if bid in self.memo:
            return self.memo[bid]
        if bid in stack or len(stack) > 6:
            return (False, False, False, False, None)
        b = self.prog.bodies[bid]
        ev = self.block_events(b)
        # closures / coroutine of an async fn: calling the fn is running its closure
        kids = [ch for ch in self.prog.children.get(bid, []) if self.prog.bodies[ch].coroutine] if not b.coroutine else []
        if not ev and not kids:
            self.memo[bid] = (False, False, False, False, None)
            return self.memo[bid]
        if kids and not any(e[0] != "CALL" for l in ev.values() for e in l):
            # an async fn: its body is the coroutine
            s = self.summary(kids[0], stack + (bid,))
            self.memo[bid] = s
            self.by_variant[bid] = self.by_variant.get(kids[0], {})
            return s
        n = len(b.blocks)
        live = b.live_blocks()
        IN = {0: (False, False)}
        may_clear = False
        mutates = False
        where = {}
        work = [0]
        OUT = {}

        refine = {}
        for bb_, l_ in list(ev.items()):
            if isinstance(bb_, tuple):
                continue
            for e in l_:
                if e[0] == "CALL" and e[3] is not None:
                    self.summary(e[1], stack + (bid,))
                    pe = self.positive_edge(b, e[3])
                    bv = self.by_variant.get(e[1], {})
                    if pe and bv.get(pe[1], (False, True))[0]:
                        refine[pe[0]] = True

        def transfer(bb, state):
            nonlocal may_clear, mutates
            known, pending = state
            if refine.get(bb):
                known, pending = True, False      # entered through the Some / Ok edge of a callee that leaves the flag set on that outcome
            for e in ev.get(("start", bb), []) + ev.get(bb, []):
                if e[0] == "SET":
                    known, pending = True, False
                elif e[0] == "CLEAR":
                    known, pending = False, False
                    may_clear = True
                elif e[0] == "MUT":
                    mutates = True
                    if not known and not pending:
                        where.setdefault(bb, (e[1], e[2]))
                    pending = pending or not known
                elif e[0] == "CALL":
                    (ko, po, mc, mu, _w) = self.summary(e[1], stack + (bid,))
                    mutates = mutates or mu
                    if ko:
                        known, pending = True, False
                    elif mc:
                        known, pending = False, po
                        may_clear = True
                    elif mu:
                        mutates = True
                        if po and not known:
                            if not pending:
                                where.setdefault(bb, (e[2], "via " + e[1].split("::")[-1]))
                            pending = True
            return (known, pending)
        it = 0
        while work and it < 20000:
            it += 1
            bb = work.pop()
            out = transfer(bb, IN[bb])
            if OUT.get(bb) == out:
                continue
            OUT[bb] = out
            for s in b.succ[bb]:
                if s not in live:
                    continue
                if s in IN:
                    k0, p0 = IN[s]
                    new = (k0 and out[0], p0 or out[1])
                else:
                    new = out
                if IN.get(s) != new:
                    IN[s] = new
                    work.append(s)
                elif s not in OUT:
                    work.append(s)
        rets = [r for r in b.return_blocks() if r in OUT]
        known_out = bool(rets) and all(OUT[r][0] for r in rets)
        pending_out = any(OUT[r][1] for r in rets)
        first = None
        if pending_out:
            # the earliest mutation that started a pending stretch
            cands = sorted(where.values(), key=lambda x: x[0])
            first = cands[0] if cands else None
        from .lib import assigns_variant
        bv = {}
        for var in ("Some", "None", "Ok", "Err"):
            blks = [i for i in assigns_variant(b, var) if i in OUT]
            if blks:
                bv[var] = (all(OUT[i][0] for i in blks), any(OUT[i][1] for i in blks))
        self.by_variant[bid] = bv
        self.memo[bid] = (known_out, pending_out, may_clear, mutates, first)
        return self.memo[bid]


def rule_dirty(ctx, rule, krates, file_pat=None, floor=0):
    """obligations: every top-level entry (a body with no analysed caller inside the crate set that covers it) of every discovered flag"""
    prog = ctx.prog
    ctx.rule(rule, "dirty-flag discipline (by discovery): a body that returns after mutating a field the saver persists leaves the flag set - set after the "
                   "mutation, or before it with no clearing save / flush in between")
    flags = discover(prog, krates)
    n = 0
    pending_reports = []
    for (adt, flag), info in sorted(flags.items()):
        if file_pat and not any(re.search(file_pat, prog.bodies[bid].file or "") for (bid, _) in info["clear"] if bid in prog.bodies):
            continue
        fa = FlagAnalysis(prog, adt, flag, info, krates)
        if not fa.persisted or not fa.savers_write_files():
            continue
        short = adt.split("::")[-1]
        for b in sorted(prog.bodies.values(), key=lambda x: x.id):
            if b.krate not in krates or b.root and not b.coroutine:
                continue
            if b.coroutine and b.root and not (prog.bodies.get(b.parent) and prog.bodies[b.parent].id == b.root):
                continue
            ev = fa.block_events(b)
            if not ev:
                continue
            (ko, po, mc, mu, first) = fa.summary(b.id)
            if not mu:
                continue
            # private helpers that leave the marking to their callers are judged at the callers: report only bodies that are
            # public API or have no caller with events of their own
            root = prog.bodies.get(b.root) if b.root else b
            callers = [s for (s, how, c) in prog.callers.get(root.id if root else b.id, []) if s in prog.bodies and prog.bodies[s].krate in krates]
            is_pub = bool(root is not None and root.rec.get("pub"))
            if not is_pub and callers:
                continue
            n += 1
            ctx.saw(b)
            pending_reports.append((short, flag, b, po, first, adt, fa))
    bad_items = {(short, b.id.split("::")[-1].replace("{closure#0}", "")) for (short, flag, b, po, first, adt, fa) in pending_reports if po} | \
                {(short, (prog.bodies[b.root].item if b.root and b.root in prog.bodies else b.item)) for (short, flag, b, po, first, adt, fa) in pending_reports if po}
    for (short, flag, b, po, first, adt, fa) in pending_reports:
        if True:
            callee_items = {prog.bodies[e[1]].item for l_ in fa.block_events(b).values() for e in l_ if e[0] == "CALL" and e[1] in prog.bodies}
            if po and first is None and any((short, it) in bad_items for it in callee_items if it != b.item):
                ctx.ok(rule, [short, flag, b.id], "inherits the report of a callee", b.loc(), nontrivial=False)
                continue
            if po and first and str(first[1]).startswith("via ") and (short, str(first[1])[4:]) in bad_items and (b.item != str(first[1])[4:]):
                # the unmarked mutation is inside a callee that is reported itself: one report per defect
                ctx.ok(rule, [short, flag, b.id], "inherits the report of %s" % first[1], b.loc(), nontrivial=False)
                continue
            ctx.check(not po, rule, [short, flag, b.id], "%s leaves %s.%s set whenever it changed persisted state" % (b.id.split("::")[-1], short, flag),
                      "%s can return after changing %s.%s (line %s) while the dirty flag `%s` is not known to be set - it was never set on that path, or a flush / "
                      "save cleared it before the mutation: the saver skips clean objects, so the change is never written and is gone after a reload" %
                      (ctx._stable(b.id), short, first[1] if first else "?", first[0] if first else "?", flag),
                      "%s:%s" % (b.file, first[0] if first else b.lines[0]), sample={"type": adt, "flag": flag, "persisted": sorted(fa.persisted)[:8], "savers": fa.savers[:3]})
    if floor:
        ctx.floor(rule, n, floor, "mutating entry points of types with a dirty flag")
    return n
