"""E-names - a local named after one field of a struct is computed from that field, not from its sibling.

`let ekey_page_size = self.ckey_page_size_kb as usize * 1024;` - the names say what the author believes the value is (Engler et al.: beliefs). When a struct has
two fields whose names differ in exactly one token (`ckey_page_size_kb` / `ekey_page_size_kb`) and a local whose name carries the OTHER field's token is
computed from this one - while the field it is named after is not in its slice at all - the two were mixed up (a copy-pasted line with one identifier left
unchanged). By discovery over all user-named locals with a single definition; exact on today's tree (0 sites in six crates)."""
import re
from .facts import Slice


def toks(n):
    return [t for t in re.split(r"_+", n) if t]


def mixups(prog, b):
    out = []
    fieldsets = []
    for a, adt in prog.adts.items():
        for v in adt.get("variants", []):
            names = {x["n"] for x in v.get("fields", [])}
            if len(names) > 1:
                fieldsets.append(names)
    for l, d in enumerate(b.locals):
        name = d.get("n") or ""
        if not d.get("u") or not name or l <= b.argc or len(b.defs.get(l, [])) != 1:
            continue
        tl = toks(name)
        if len(tl) < 2:
            continue
        sl = Slice(b, [l], transparent=True)
        flds = {str(f[-1]) for f in sl.fields if f and not str(f[-1]).startswith("upvar:") and not str(f[-1]).isdigit()}
        for f in sorted(flds):
            tf = toks(f)
            common = [t for t in tl if t in tf]
            diff_l = [t for t in tl if t not in tf]
            diff_f = [t for t in tf if t not in tl]
            if len(common) < 2 or len(diff_l) != 1 or not diff_f:
                continue
            for df in diff_f:
                sib = "_".join(diff_l[0] if t == df else t for t in tf)
                if sib in flds or sib == f:
                    continue
                if any(f in names and sib in names for names in fieldsets):
                    out.append((name, f, sib))
    return sorted(set(out))


def rule_names(ctx, rule, krates):
    ctx.rule(rule, "a local named after field X of a struct (names differ from a sibling field's in one token) is computed from X, not from the sibling alone")
    n = 0
    for b in sorted(ctx.prog.bodies.values(), key=lambda x: x.id):
        if b.krate not in krates or b.expn:
            continue
        for (name, f, sib) in mixups(ctx.prog, b):
            n += 1
            ctx.saw(b)
            ctx.bad(rule, [b.id, "local", name, "from", f],
                    "%s computes `%s` from the field `%s` while the struct also has `%s`, which it is named after and which does not reach it at all: the two "
                    "siblings were mixed up (a copied line with one identifier left unchanged) - everything laid out with `%s` uses the other field's value, "
                    "and what is announced elsewhere from `%s` no longer matches" % (ctx._stable(b.id), name, f, sib, name, sib), b.loc())
    if n == 0:
        ctx.ok(rule, ["no-mixups", "+".join(krates)], "no local is computed from the sibling of the field it is named after", None, nontrivial=False)
    return n
