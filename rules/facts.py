"""Fact loader and generic program-analysis helpers over the MIR facts dumped by driver/.

Everything here is static: it reads JSON produced by the rustc driver from /repo's current
source; nothing of the repository is executed.
"""
import json, glob, os, re, collections

WORKSPACE_CRATES = [
    "cascette_cache", "cascette_client_storage", "cascette_crypto",
    "cascette_formats", "cascette_protocol", "cascette_ribbit",
]


class Call:
    __slots__ = ("body", "bb", "t", "fn", "name", "id", "orig", "orig_name", "args", "dest",
                 "line", "expn", "target", "unwind", "kind", "local", "full", "res", "file")

    def __init__(self, body, bb, t):
        self.body = body
        self.bb = bb
        self.t = t
        f = t["f"]
        if f["k"] == "fn":
            fn = f["fn"]
            self.fn = fn
            self.name = fn["name"]
            self.id = fn["id"]
            self.orig = fn.get("orig", fn["id"])
            self.orig_name = fn.get("orig_name", fn["name"])
            self.kind = fn["kind"]
            self.local = fn["local"]
            self.full = fn["full"]
            self.res = fn["res"]
        else:
            self.fn = None
            self.name = "<indirect>"
            self.id = None
            self.orig = None
            self.orig_name = "<indirect>"
            self.kind = "indirect"
            self.local = False
            self.full = "<indirect>"
            self.res = False
        self.args = t["a"]
        self.dest = t["d"]
        self.line = t.get("l", 0)
        self.expn = bool(t.get("x", 0))
        self.target = t.get("t")
        self.unwind = t.get("u")
        self.file = t.get("file", body.file)

    def loc(self):
        return "%s:%d" % (self.file, self.line)

    def __repr__(self):
        return "<Call %s @%s bb%d>" % (self.name, self.loc(), self.bb)


def op_local(op):
    """local index of a copy/move operand, else None"""
    if op["k"] in ("cp", "mv"):
        return op["p"][0]
    return None


def op_place(op):
    if op["k"] in ("cp", "mv"):
        return op["p"]
    return None


def op_const(op):
    """python int for an integer constant operand, else None"""
    if op["k"] == "c" and "v" in op:
        return int(op["v"])
    return None


def op_fconst(op):
    if op["k"] == "c" and "fv" in op:
        try:
            return float(op["fv"])
        except ValueError:
            return None
    return None


def place_fields(place):
    """names of the field projections of a place, outermost first"""
    return [e["n"] for e in place[1:] if isinstance(e, dict) and "f" in e]


def place_str(body, place):
    l = place[0]
    s = body.local_name(l)
    for e in place[1:]:
        if e == "*":
            s = "(*%s)" % s
        elif isinstance(e, dict):
            if "f" in e:
                s += "." + (e["n"] or str(e["f"]))
            elif "i" in e:
                s += "[%s]" % body.local_name(e["i"])
            elif "ci" in e:
                s += "[%d]" % e["ci"]
            elif "ss" in e:
                s += "[%d..%d]" % tuple(e["ss"])
            elif "d" in e:
                s += " as %s" % e["d"]
    return s


_REGION = re.compile(r"'(\{erased\}|\w+) ")


def strip_regions(ty):
    return _REGION.sub("", ty)


class Body:
    def __init__(self, rec):
        self.rec = rec
        self.id = rec["id"]
        self.name = rec["name"]
        self.krate = rec["krate"]
        self.file = rec["file"]
        self.lines = rec["lines"]
        self.blocks = rec["blocks"]
        self.locals = rec["locals"]
        self.argc = rec["argc"]
        self.item = rec.get("item")
        self.self_ty = rec.get("self_ty")
        self.self_adt = rec.get("self_adt")
        self.trait = rec.get("trait")
        self.trait_item = rec.get("trait_item")
        self.parent = rec.get("parent")
        self.root = rec.get("root")
        self.coroutine = rec.get("coroutine", False)
        self.kind = rec["kind"]
        self.pub = rec.get("pub", False)
        self.expn = rec.get("expn", False)
        self._calls = None
        self._succ = None
        self._pred = None
        self._dom = None
        self._pdom = None
        self._defs = None
        self.promoted = rec.get("promoted", [])
        self._pconsts = {}

    def __repr__(self):
        return "<Body %s>" % self.id

    def promoted_consts(self, idx):
        """constants (and constructed enum variants, as pseudo constants) inside promoted body #idx"""
        if idx in self._pconsts:
            return self._pconsts[idx]
        out = []
        if idx < len(self.promoted):
            for b in self.promoted[idx]["blocks"]:
                for s in b["s"]:
                    r = s["r"]
                    if r["k"] == "Agg" and r.get("ak") == "adt":
                        out.append({"k": "c", "ty": r["adt"], "s": r["adt"] + "::" + r["variant"], "variant": r["variant"]})
                    for o in r.get("o", []):
                        if o["k"] in ("c", "fn"):
                            out.append(o)
        self._pconsts[idx] = out
        return out

    def loc(self):
        return "%s:%d" % (self.file, self.lines[0])

    def local_name(self, l):
        d = self.locals[l]
        return d.get("n") or ("_%d" % l)

    def local_ty(self, l):
        return strip_regions(self.locals[l]["ty"])

    # ---- CFG -------------------------------------------------------------
    def term_succ(self, bb, unwind=False):
        t = self.blocks[bb]["t"]
        k = t["k"]
        out = []
        if k == "Goto":
            out = [t["t"]]
        elif k == "Switch":
            out = [x[1] for x in t["v"]] + [t["o"]]
        elif k in ("Call", "Drop", "Assert"):
            if t.get("t") is not None:
                out = [t["t"]]
            if unwind and t.get("u") is not None:
                out = out + [t["u"]]
        elif k == "Yield":
            out = [t["t"]]
            # the drop edge models cancellation of the future; it is not a normal-completion path
            if unwind and t.get("drop") is not None:
                out = out + [t["drop"]]
        elif k == "Asm":
            out = list(t.get("ts", []))
        return out

    @property
    def succ(self):
        if self._succ is None:
            self._succ = [list(dict.fromkeys(self.term_succ(i))) for i in range(len(self.blocks))]
        return self._succ

    @property
    def pred(self):
        if self._pred is None:
            p = [[] for _ in self.blocks]
            for i, ss in enumerate(self.succ):
                for s in ss:
                    p[s].append(i)
            self._pred = p
        return self._pred

    def reachable(self, start=0, avoid=(), succ=None):
        """set of blocks reachable from `start` (inclusive) without entering a block in avoid"""
        succ = succ or self.succ
        avoid = set(avoid)
        starts = [start] if isinstance(start, int) else list(start)
        seen = set()
        stack = [s for s in starts if s not in avoid]
        while stack:
            b = stack.pop()
            if b in seen:
                continue
            seen.add(b)
            for s in succ[b]:
                if s not in seen and s not in avoid:
                    stack.append(s)
        return seen

    def reachable_after(self, bb, avoid=()):
        """blocks reachable from the successors of bb (bb itself only if on a cycle)"""
        return self.reachable(self.succ[bb], avoid=avoid)

    def return_blocks(self):
        return [i for i, b in enumerate(self.blocks) if b["t"]["k"] == "Return"]

    def live_blocks(self):
        return self.reachable(0)

    @property
    def dom(self):
        """dominator sets (normal edges only): dom[b] = set of blocks dominating b"""
        if self._dom is None:
            self._dom = _dominators(len(self.blocks), 0, self.succ, self.pred)
        return self._dom

    def dominates(self, a, b):
        return a in self.dom.get(b, ())

    # ---- statements / calls ---------------------------------------------
    @property
    def calls(self):
        if self._calls is None:
            cs = []
            for i, b in enumerate(self.blocks):
                t = b["t"]
                if t["k"] == "Call":
                    cs.append(Call(self, i, t))
            self._calls = cs
        return self._calls

    def calls_matching(self, pat, live_only=True, field="name"):
        rx = re.compile(pat) if isinstance(pat, str) else pat
        live = self.live_blocks() if live_only else None
        out = []
        for c in self.calls:
            if live is not None and c.bb not in live:
                continue
            if rx.search(getattr(c, field) or "") or (field == "name" and (rx.search(c.orig_name or "") or rx.search(c.full or ""))):
                out.append(c)
        return out

    def call_at(self, bb):
        t = self.blocks[bb]["t"]
        if t["k"] == "Call":
            for c in self.calls:
                if c.bb == bb:
                    return c
        return None

    @property
    def defs(self):
        """local -> list of (bb, idx, kind, payload); kind 'assign' (payload stmt) or 'call' (payload Call)
        or 'yield'. idx is the statement index, or len(stmts) for the terminator."""
        if self._defs is None:
            d = collections.defaultdict(list)
            for i, b in enumerate(self.blocks):
                for j, s in enumerate(b["s"]):
                    d[s["p"][0]].append((i, j, "assign", s))
                t = b["t"]
                if t["k"] == "Call":
                    d[t["d"][0]].append((i, len(b["s"]), "call", self.call_at(i)))
            self._defs = d
        return self._defs

    def stmts(self):
        for i, b in enumerate(self.blocks):
            for j, s in enumerate(b["s"]):
                yield i, j, s

    def switch_edges(self, bb):
        """for a Switch terminator: list of (value or None for otherwise, target)"""
        t = self.blocks[bb]["t"]
        if t["k"] != "Switch":
            return []
        return [(int(v), tgt) for v, tgt in t["v"]] + [(None, t["o"])]


def _dominators(n, entry, succ, pred):
    # iterative dataflow on reachable blocks (bodies are small)
    reach = []
    seen = set()
    stack = [entry]
    while stack:
        b = stack.pop()
        if b in seen:
            continue
        seen.add(b)
        reach.append(b)
        stack.extend(succ[b])
    # reverse postorder
    order = []
    visited = set()

    def dfs(start):
        st = [(start, iter(succ[start]))]
        visited.add(start)
        while st:
            node, it = st[-1]
            adv = False
            for s in it:
                if s not in visited:
                    visited.add(s)
                    st.append((s, iter(succ[s])))
                    adv = True
                    break
            if not adv:
                order.append(node)
                st.pop()

    dfs(entry)
    rpo = list(reversed(order))
    idx = {b: i for i, b in enumerate(rpo)}
    idom = {entry: entry}
    changed = True
    while changed:
        changed = False
        for b in rpo[1:]:
            new = None
            for p in pred[b]:
                if p in idom:
                    if new is None:
                        new = p
                    else:
                        a, c = p, new
                        while a != c:
                            while idx[a] > idx[c]:
                                a = idom[a]
                            while idx[c] > idx[a]:
                                c = idom[c]
                        new = a
            if new is not None and idom.get(b) != new:
                idom[b] = new
                changed = True
    dom = {}
    for b in rpo:
        s = {b}
        x = b
        while idom[x] != x:
            x = idom[x]
            s.add(x)
        dom[b] = s
    return dom


class Program:
    def __init__(self, facts_dir, crates=None, include_selftest=False, extra_glob=None):
        self.facts_dir = facts_dir
        self.bodies = {}
        self.adts = {}
        self.impls = []
        self.traits = {}
        self.crate_recs = []
        files = sorted(glob.glob(os.path.join(facts_dir, "*.jsonl")))
        for f in files:
            base = os.path.basename(f)
            kr = base.split(".")[0]
            if crates is not None and kr not in crates:
                continue
            if kr == "verif_selftest" and not include_selftest:
                continue
            with open(f) as fh:
                for line in fh:
                    r = json.loads(line)
                    k = r["rec"]
                    if k == "body":
                        # the same lib can be dumped by several targets; first one wins
                        if r["id"] not in self.bodies:
                            self.bodies[r["id"]] = Body(r)
                    elif k == "adt":
                        self.adts[r["id"]] = r
                    elif k == "impl":
                        self.impls.append(r)
                    elif k == "trait":
                        self.traits[r["id"]] = r
                    elif k == "crate":
                        self.crate_recs.append(r)
                    elif k == "stolen":
                        raise RuntimeError("stolen MIR body in facts: %s" % r["id"])
        # trait method id -> implementing method ids (workspace impls only)
        self.trait_impls = collections.defaultdict(list)
        for im in self.impls:
            for it in im["items"]:
                ti = it.get("trait_item")
                if ti:
                    self.trait_impls[ti].append(it["id"])
        self._callers = None
        self._edges = None
        self._children = None
        self._deps = None

    @property
    def crate_deps(self):
        """workspace crate -> set of workspace crates it (transitively) uses, derived from resolved callee ids"""
        if self._deps is None:
            ws = set(WORKSPACE_CRATES) | {"verif_selftest"}
            d = collections.defaultdict(set)
            for b in self.bodies.values():
                for c in b.calls:
                    if c.id:
                        k = c.id.split("::")[0]
                        if k in ws and k != b.krate:
                            d[b.krate].add(k)
                    if c.orig:
                        k = c.orig.split("::")[0]
                        if k in ws and k != b.krate:
                            d[b.krate].add(k)
            changed = True
            while changed:
                changed = False
                for a in list(d):
                    for x in list(d[a]):
                        new = d.get(x, set()) - d[a] - {a}
                        if new:
                            d[a] |= new
                            changed = True
            for k in ws:
                d[k].add(k)
            self._deps = d
        return self._deps

    # ---- lookup ----------------------------------------------------------
    def find(self, self_ty=None, item=None, krate=None, closure=None, file=None, trait=None):
        """bodies by (impl self type regex, item name, crate). closure=None: any; False: only the
        fn item itself; True: only nested closure/coroutine bodies."""
        out = []
        for b in self.bodies.values():
            if krate and b.krate != krate:
                continue
            if item is not None and b.item != item:
                continue
            if self_ty is not None:
                if not b.self_ty or not re.search(self_ty, b.self_ty):
                    continue
            if trait is not None:
                if trait is False and b.trait:
                    continue
                if trait is not False and (not b.trait or not re.search(trait, b.trait)):
                    continue
            if file is not None and not re.search(file, b.file):
                continue
            if closure is True and not b.root:
                continue
            if closure is False and b.root:
                continue
            out.append(b)
        return sorted(out, key=lambda b: b.id)

    @property
    def children(self):
        if self._children is None:
            ch = collections.defaultdict(list)
            for b in self.bodies.values():
                if b.root:
                    ch[b.root].append(b.id)
            self._children = ch
        return self._children

    def family(self, body):
        """the fn item plus all of its nested closure/coroutine bodies"""
        root = body.root or body.id
        ids = [root] + self.children.get(root, [])
        return [self.bodies[i] for i in ids if i in self.bodies]

    # ---- call graph --------------------------------------------------------
    def call_targets(self, c):
        """workspace body ids a call may execute (over-approximate for unresolved trait calls: every impl of the trait
        method in a crate the calling crate depends on)"""
        out = []
        if c.id is None:
            return out
        if c.id in self.bodies:
            out.append(c.id)
        visible = self.crate_deps.get(c.body.krate, {c.body.krate})
        if (c.kind == "virtual" or not c.res) and c.orig in self.trait_impls:
            for i in self.trait_impls[c.orig]:
                if i in self.bodies and i not in out and self.bodies[i].krate in visible:
                    out.append(i)
        if c.id in self.trait_impls and (c.kind == "virtual" or not c.res):
            for i in self.trait_impls[c.id]:
                if i in self.bodies and i not in out and self.bodies[i].krate in visible:
                    out.append(i)
        return out

    @property
    def edges(self):
        """body id -> list of (callee body id, how, Call or None)"""
        if self._edges is None:
            e = collections.defaultdict(list)
            for b in self.bodies.values():
                live = b.live_blocks()
                for c in b.calls:
                    if c.bb not in live:
                        continue
                    for tgt in self.call_targets(c):
                        e[b.id].append((tgt, "call", c))
                # closure / coroutine construction
                for i, j, s in b.stmts():
                    r = s["r"]
                    if r["k"] == "Agg" and r.get("ak") in ("closure", "coroutine", "coroutine_closure"):
                        if r["body"] in self.bodies:
                            e[b.id].append((r["body"], "closure", None))
                # fn items passed as values (function pointers / map(f))
                for i, j, s in b.stmts():
                    for o in s["r"].get("o", []):
                        if o["k"] == "fn" and o["fn"]["id"] in self.bodies:
                            e[b.id].append((o["fn"]["id"], "fnref", None))
                for c in b.calls:
                    for o in c.args:
                        if o["k"] == "fn" and o["fn"]["id"] in self.bodies:
                            e[b.id].append((o["fn"]["id"], "fnref", None))
            self._edges = e
        return self._edges

    @property
    def callers(self):
        if self._callers is None:
            cs = collections.defaultdict(list)
            for src, lst in self.edges.items():
                for tgt, how, c in lst:
                    cs[tgt].append((src, how, c))
            self._callers = cs
        return self._callers

    def closure_of(self, entries):
        """reachability closure over the call graph; returns dict id -> (parent id, Call or None)"""
        seen = {}
        queue = collections.deque()
        for e in entries:
            if e in self.bodies and e not in seen:
                seen[e] = (None, None)
                queue.append(e)
        while queue:
            cur = queue.popleft()
            for tgt, how, c in self.edges.get(cur, []):
                if tgt not in seen:
                    seen[tgt] = (cur, c)
                    queue.append(tgt)
        return seen

    def chain(self, closure, bid):
        """call chain entry -> ... -> bid as list of strings"""
        out = []
        cur = bid
        while cur is not None:
            par, c = closure[cur]
            if c is not None:
                out.append("%s (called at %s)" % (cur, c.loc()))
            else:
                out.append(cur)
            cur = par
        return list(reversed(out))

    def all_calls(self, pat, krates=None, field="name", live_only=True):
        rx = re.compile(pat)
        out = []
        for b in self.bodies.values():
            if krates and b.krate not in krates:
                continue
            out.extend(b.calls_matching(rx, live_only=live_only, field=field))
        return sorted(out, key=lambda c: (c.body.id, c.bb))


# ---------------------------------------------------------------------------
# backward slicing (flow-insensitive over locals; sound over-approximation of "may derive from")
# ---------------------------------------------------------------------------

TRANSPARENT_CALLS = re.compile(
    r"(\bClone>?::clone$|\bInto<U>>::into$|\bFrom<.*>>::from$|"
    r"\bDeref>::deref$|\bDerefMut>::deref_mut$|\bAsRef<.*>>::as_ref$|\bBorrow<.*>>::borrow$|"
    r"\bTryFrom<.*>>::try_from$|\bTryInto<.*>>::try_into$|"
    r"\bOption::<T>::(unwrap|expect|unwrap_or|unwrap_or_default|unwrap_or_else|as_ref|as_mut|cloned|copied|ok_or|ok_or_else|map_err|take)$|"
    r"\bResult::<T, E>::(unwrap|expect|unwrap_or|unwrap_or_default|unwrap_or_else|as_ref|as_mut|ok|map_err)$|"
    r"\bTry>::branch$|\bFromResidual<.*>>::from_residual$|"
    r"\bnum::<impl \w+>::(wrapping_\w+|saturating_\w+|checked_\w+|overflowing_\w+|min|max|pow|div_ceil|next_power_of_two|to_[lb]e|from_[lb]e|swap_bytes|abs|unsigned_abs|abs_diff|clamp)$|"
    r"\bcmp::(min|max)$|\bOrd::(min|max|clamp)$|"
    r"::to_owned$|::to_vec$|::to_string$|"
    r"\bconvert::identity$|\bhint::must_use$|\bmem::(take|replace)$|"
    r"\bPin::<Ptr>::(new|new_unchecked|get_mut|as_mut)$|\bIntoFuture>::into_future$|"
    r"\bBox::<T>::(new|pin)$|\bArc::<T>::new$)"
)


class Slice:
    """Backward may-derive-from slice of a set of locals inside one body.

    Result: .locals (all locals in the slice), .consts (constant operands), .calls (Call objects whose
    result flows in), .args (argument locals reached), .fields (field-name chains read), .ops (binary /
    unary ops met), .stmts (assign statements visited)."""

    def __init__(self, body, roots, transparent=TRANSPARENT_CALLS, through_calls=True, max_nodes=4000,
                 stop_at=None):
        self.body = body
        self.locals = set()
        self.consts = []
        self.calls = []
        self.args = set()
        self.fields = set()
        self.ops = []
        self.stmts = []
        self.places = []
        self.opaque_calls = []
        self.partial = set()
        work = list(roots)
        defs = body.defs
        while work and len(self.locals) < max_nodes:
            l = work.pop()
            if l in self.locals:
                continue
            self.locals.add(l)
            if 1 <= l <= body.argc:
                self.args.add(l)
            if stop_at and l in stop_at:
                continue
            for (bb, idx, kind, payload) in defs.get(l, []):
                if kind == "assign":
                    s = payload
                    self.stmts.append((bb, idx, s))
                    r = s["r"]
                    k = r["k"]
                    if k in ("Ref", "RawPtr", "Discr"):
                        self._place(r["p"], work)
                    elif k == "Bin":
                        self.ops.append((r["op"], r["o"], bb, idx))
                        for o in r["o"]:
                            self._operand(o, work)
                    elif k == "Un":
                        self.ops.append((r["op"], r["o"], bb, idx))
                        for o in r["o"]:
                            self._operand(o, work)
                    else:
                        if k == "Agg" and r.get("ak") == "adt":
                            self.consts.append({"k": "c", "ty": r["adt"], "s": r["adt"] + "::" + r["variant"], "variant": r["variant"]})
                        for o in r.get("o", []):
                            self._operand(o, work)
                elif kind == "call":
                    c = payload
                    self.calls.append(c)
                    if through_calls and (transparent is True or (transparent and (transparent.search(c.name) or transparent.search(c.orig_name)))):
                        for o in c.args:
                            self._operand(o, work)
                    else:
                        self.opaque_calls.append(c)

    def _place(self, p, work):
        self.places.append(p)
        # field-sensitive step through struct literals: `s.f` where every definition of `s` is an aggregate with named
        # fields follows only the operand of field f
        if len(p) > 1 and isinstance(p[1], dict) and "f" in p[1] and p[0] not in self.locals:
            defs = self.body.defs.get(p[0], [])
            aggs = [d for d in defs if d[2] == "assign" and len(d[3]["p"]) == 1 and d[3]["r"]["k"] == "Agg" and d[3]["r"].get("ak") in ("adt", "tuple")]
            if defs and len(aggs) == len([d for d in defs if d[2] != "assign" or len(d[3]["p"]) == 1]) and aggs and not (1 <= p[0] <= self.body.argc):
                fname = p[1].get("n")
                ok = True
                ops = []
                for d in aggs:
                    r = d[3]["r"]
                    if r.get("ak") == "tuple":
                        # `(a, b).1`: follow only the operand at that position
                        idx = p[1].get("f")
                        if isinstance(idx, int) and idx < len(r["o"]):
                            ops.append(r["o"][idx])
                        else:
                            ok = False
                    elif fname in r.get("fields", []):
                        idx = r["fields"].index(fname)
                        if idx < len(r["o"]):
                            ops.append(r["o"][idx])
                        else:
                            ok = False
                    else:
                        ok = False
                # partial writes `s.g = ..` to other fields do not matter; writes to this field do
                for d in defs:
                    if d[2] == "assign" and len(d[3]["p"]) > 1:
                        e = d[3]["p"][1]
                        if isinstance(e, dict) and e.get("n") == fname:
                            for o in d[3]["r"].get("o", []):
                                ops.append(o)
                if ok:
                    fs = place_fields(p)
                    if fs:
                        self.fields.add(tuple(fs))
                    self.partial.add(p[0])
                    for o in ops:
                        self._operand(o, work)
                    for e in p[1:]:
                        if isinstance(e, dict) and "i" in e:
                            work.append(e["i"])
                    return
        work.append(p[0])
        fs = place_fields(p)
        if fs:
            self.fields.add(tuple(fs))
        for e in p[1:]:
            if isinstance(e, dict) and "i" in e:
                work.append(e["i"])

    def _operand(self, o, work):
        if o["k"] in ("cp", "mv"):
            self._place(o["p"], work)
        elif o["k"] == "c":
            self.consts.append(o)
            if "promoted" in o:
                self.consts.extend(self.body.promoted_consts(o["promoted"]))
        elif o["k"] == "fn":
            self.consts.append(o)

    def call_names(self):
        return [c.name for c in self.calls]

    def has_call(self, pat):
        rx = re.compile(pat)
        return any(rx.search(c.name) or rx.search(c.orig_name) for c in self.calls)

    def has_field(self, name):
        return any(name in f for f in self.fields)

    def int_consts(self):
        return [int(o["v"]) for o in self.consts if "v" in o]


def operand_slice(body, op, **kw):
    l = op_local(op)
    if l is None:
        s = Slice(body, [], **kw)
        if op["k"] in ("c", "fn"):
            s.consts.append(op)
        return s
    s = Slice(body, [l], **kw)
    fs = place_fields(op["p"])
    if fs:
        s.fields.add(tuple(fs))
    return s


# ---------------------------------------------------------------------------
# Result / Option / bool gating helpers
# ---------------------------------------------------------------------------

def discr_switches(body, local):
    """Find Switch terminators whose discriminant derives (via Discr / copies / Try::branch /
    is_ok / is_some ...) from `local`. Returns list of (bb, how) - coarse helper."""
    out = []
    for i, b in enumerate(body.blocks):
        t = b["t"]
        if t["k"] != "Switch":
            continue
        l = op_local(t["d"])
        if l is None:
            continue
        s = Slice(body, [l])
        if local in s.locals:
            out.append(i)
    return out


def uses_of_local(body, local):
    """(bb, idx, kind) where `local` is read: kind in assign/call-arg/switch/drop/yield/return"""
    out = []
    for i, b in enumerate(body.blocks):
        for j, s in enumerate(b["s"]):
            r = s["r"]
            hit = False
            if "p" in r and r["p"][0] == local:
                hit = True
            for o in r.get("o", []):
                if op_local(o) == local:
                    hit = True
            if any(isinstance(e, dict) and e.get("i") == local for e in s["p"][1:]):
                hit = True
            # writes through a projection of local (e.g. (*_1).f = ..) read the base too
            if s["p"][0] == local and len(s["p"]) > 1:
                hit = True
            if hit:
                out.append((i, j, "assign"))
        t = b["t"]
        k = t["k"]
        if k == "Call":
            for o in t["a"]:
                if op_local(o) == local:
                    out.append((i, len(b["s"]), "arg"))
            if op_local(t["f"]) == local:
                out.append((i, len(b["s"]), "callee"))
        elif k == "Switch":
            if op_local(t["d"]) == local:
                out.append((i, len(b["s"]), "switch"))
        elif k == "Drop":
            if t["p"][0] == local:
                out.append((i, len(b["s"]), "drop"))
        elif k == "Yield":
            if op_local(t["v"]) == local:
                out.append((i, len(b["s"]), "yield"))
        elif k == "Assert":
            if op_local(t["c"]) == local:
                out.append((i, len(b["s"]), "assert"))
    if local == 0:
        for r in body.return_blocks():
            out.append((r, len(body.blocks[r]["s"]), "return"))
    return out


def forward_taint(body, roots, through_calls=None):
    """locals that may hold a value derived from any local in roots (flow-insensitive forward closure).
    through_calls: regex of callee names whose result derives from their arguments (default: all)."""
    tainted = set(roots)
    changed = True
    while changed:
        changed = False
        for i, b in enumerate(body.blocks):
            for s in b["s"]:
                r = s["r"]
                src = []
                if "p" in r:
                    src.append(r["p"][0])
                    src += [e["i"] for e in r["p"][1:] if isinstance(e, dict) and "i" in e]
                for o in r.get("o", []):
                    l = op_local(o)
                    if l is not None:
                        src.append(l)
                if any(x in tainted for x in src) and s["p"][0] not in tainted:
                    tainted.add(s["p"][0])
                    changed = True
            t = b["t"]
            if t["k"] == "Call":
                nm = t["f"]["fn"]["name"] if t["f"]["k"] == "fn" else ""
                if through_calls is None or through_calls.search(nm):
                    if any(op_local(o) in tainted for o in t["a"]) and t["d"][0] not in tainted:
                        tainted.add(t["d"][0])
                        changed = True
    return tainted
