"""C08 - serialisation is stable: the one clause that is visible in the shape of the writers.

"For every value produced by a format's builder, parsing its serialisation gives back the same logical content": a writer that stores a count or a
length in a field narrower than the value it holds (`entries.len() as u8`) writes a DIFFERENT number than the value has whenever the value does not
fit, and the parser reads back that other number - fewer keys, a shorter string, a record table that no longer lines up. R1 decides, for every
narrowing cast to u8 / u16 in the writer closure, that the value is established to fit on every path (E-bounds), or reports the site.

R2 (E-count): a stored count that mirrors the length of a sibling collection is re-written after every length-changing operation.

R3 (E-digest): a stored digest over the struct's own fields is computed last.

NOT decided: round-trip equality itself, canonical forms, accepted-but-non-canonical inputs, byte-exact rebuilds of CDN files."""
import re
import collections
from .facts import op_local, Slice
from . import bounds

CRATES = ["cascette_formats"]

EXPLANATION = (
    "Static rule over the MIR of cascette-formats. The writer closure is every body reachable from a serialising entry (impls of CascFormat::build "
    "and BinWrite::write_options, *Builder::build*, to_bytes / serialize* / write_to / write_* / encode*). R1 (E-bounds, relational abstract "
    "interpretation): every unsigned narrowing cast to u8 or u16 in that closure whose operand is not a byte being extracted (shift / mask / "
    "remainder, or the low byte of a multi-byte big-endian emission of one value) is a sink with goal `value <= 255 / 65535`; it is proven from the "
    "guards on the path (`if name.len() <= 255`), from the operand's type or a min / clamp, or reported: the writer then stores a different count / "
    "length than the value has and the parser reads back other content than the builder was given. Round-trip equality as such, canonical forms and "
    "byte-exact rebuilds are value-level and NOT decided.")

ASSUMPTIONS = [
    "round-trip equality over all accepted inputs and builder programs is value-level and not decided; only silent narrowing on the write side is",
    "narrowing to 24 / 32 / 40 bits is not judged (the values that overflow them are not reachable with realistic inputs); u8 and u16 are",
]

# sites whose bound the engine's domain does not express, one line of reason each (the code is right; these are not findings)
DISCHARGED = {
    "cascette_formats::tvfs::path_table::build_entry|usize as u8|chunk/iter/name.len":
        "`chunk` is an item of `name_bytes.chunks(255)`: core's Chunks yields slices of at most the chunk size, so chunk.len() <= 255 (iterator item lengths are not modelled)",
}

WRITER_ITEM = re.compile(r"^(write_options|build\w*|to_bytes|serialize\w*|write_to|write_\w+|encode\w*|to_compressed|into_bytes|finish)$")


def writer_entries(prog):
    out = []
    for b in prog.bodies.values():
        if b.krate != "cascette_formats" or b.root or b.expn:
            continue
        if re.search(r"/tests?/|tests?\.rs$|proptest", b.file or ""):
            continue
        if WRITER_ITEM.match(b.item or ""):
            out.append(b.id)
    return out


def byte_extraction(b, l):
    """the cast's operand is a byte being pulled out of a wider value: result of a shift / mask / remainder"""
    for (bb, idx, kind, payload) in b.defs.get(l, []):
        if kind == "assign" and payload["r"]["k"] == "Bin" and payload["r"]["op"] in ("Shr", "ShrUnchecked", "BitAnd", "Rem"):
            return True
    return False


def low_byte_of_emission(b, cast_dest, operand_local):
    """`[(x >> 16) as u8, (x >> 8) as u8, x as u8]`: the unshifted cast is the last byte of a multi-byte emission of x when the array it goes into
    also holds casts of shifted copies of the same x"""
    root = Slice(b, [operand_local], transparent=None).locals
    for (i, j, st) in b.stmts():
        r = st["r"]
        if r["k"] != "Agg" or r.get("ak") != "array" or not any(op_local(o) == cast_dest for o in r["o"]):
            continue
        for o in r["o"]:
            l = op_local(o)
            if l is None or l == cast_dest:
                continue
            sl = Slice(b, [l], transparent=None)
            if any(opn in ("Shr", "ShrUnchecked") for (opn, ops, bb_, idx_) in sl.ops) and (sl.locals & root):
                return True
    return False


def validated_afterwards(prog, b, cast_bb):
    """discharge idiom (enumerated from DownloadManifestBuilder / SizeManifestBuilder::build): the narrowed count goes into a header, and before the
    function can return Ok it calls a `validate*` function whose closure compares a value taken from a len() with another value and fails on a
    mismatch (TagCountMismatch) - a count that was truncated is then refused, not written"""
    from .lib import assigns_variant
    oks = set(assigns_variant(b, "Ok", adt_pat=r"result::Result"))
    if not oks:
        return False
    vals = set()
    for c in b.calls:
        if c.bb not in b.live_blocks() or not c.local or not re.search(r"::validate\w*$", c.name):
            continue
        seen, work, good = set(), [(c.id, 0)], False
        while work and not good:
            bid, d = work.pop()
            if bid in seen or bid not in prog.bodies:
                continue
            seen.add(bid)
            vb = prog.bodies[bid]
            for (i, j, st) in vb.stmts():
                r = st["r"]
                if r["k"] == "Bin" and r["op"] in ("Ne", "Eq"):
                    for o in r["o"]:
                        l = op_local(o)
                        if l is not None and any(x.name.endswith("::len") for x in Slice(vb, [l], transparent=True).calls):
                            good = True
            if d < 2:
                work += [(x.id, d + 1) for x in vb.calls if x.local and x.id in prog.bodies]
        if good:
            vals.add(c.bb)
    if not vals:
        return False
    return not (b.reachable(b.succ[cast_bb], avoid=vals) & oks) and not (cast_bb in oks)


def r1_no_silent_narrowing(ctx, prefix="cascette_formats", entries=None, floor=8):
    rule = "C08.R1"
    ctx.rule(rule, "every narrowing cast to u8 / u16 of a count, length or field in the writer closure is proven to fit (or is a byte extraction)")
    prog = ctx.prog
    ents = entries if entries is not None else writer_entries(prog)
    if not ents:
        ctx.floor(rule, 0, floor, "writer entries")
        return
    cl = {bid for bid in prog.closure_of(ents) if bid in prog.bodies and prog.bodies[bid].krate.startswith(prefix) and not prog.bodies[bid].expn}
    bounds.CAST_SINKS[0] = True
    try:
        res, _req = bounds.analyse_closure(prog, cl, krate_prefix=prefix)
    finally:
        bounds.CAST_SINKS[0] = False
    n = 0
    skipped = 0
    for bid in sorted(cl):
        b = prog.bodies[bid]
        a = res.get(bid)
        if a is None:
            continue
        # map sink block -> cast statements there
        for sk in a.sinks:
            if sk.kind != "narrowcast":
                continue
            # find the cast statement (same block, same line)
            cast = None
            for st in b.blocks[sk.bb].get("s", []):
                r = st["r"]
                if r["k"] == "Cast" and r.get("ck") == "IntToInt" and ("%s:%d" % (b.file, st.get("l", 0))) == sk.loc and op_local(r["o"][0]) is not None:
                    dty = b.local_ty(st["p"][0]) if len(st["p"]) == 1 else (st["p"][-1].get("t") if isinstance(st["p"][-1], dict) else None)
                    if dty in ("u8", "u16"):
                        cast = st
            what_of = "?"
            if cast is not None:
                ol = op_local(cast["r"]["o"][0])
                if byte_extraction(b, ol) or (len(cast["p"]) == 1 and low_byte_of_emission(b, cast["p"][0], ol)):
                    skipped += 1
                    continue
                # what is being narrowed, in the code's own names: the fields / user variables in the operand's slice
                sl_ = Slice(b, [ol], transparent=True)
                names = sorted({str(f[-1]) for f in sl_.fields if f and not str(f[-1]).startswith("upvar:") and not str(f[-1]).isdigit()} |
                               {b.local_name(x) for x in sl_.locals if b.locals[x].get("u") and b.local_name(x)})
                what_of = "/".join(names[:3]) + (".len" if any(c.name.endswith("::len") for c in sl_.calls) else "")
            n += 1
            ctx.saw(b)
            ctx.call_sites += 1
            key = [bid, sk.what, what_of]
            if not sk.proven and validated_afterwards(prog, b, sk.bb):
                ctx.ok(rule, key + ["validated-afterwards"], "every path from the cast to an Ok return passes a validator that compares a stored count with a len()",
                       sk.loc, sample={"in": bid, "cast": sk.what, "idiom": "count-mismatch validator behind the cast"})
                continue
            dk = ctx._stable("|".join(str(x) for x in key))
            if not sk.proven and dk in DISCHARGED:
                ctx.ok(rule, key + ["discharged"], "discharged by key: " + DISCHARGED[dk], sk.loc, sample={"in": bid, "cast": sk.what, "reason": DISCHARGED[dk]})
                continue
            ctx.check(sk.proven, rule, key,
                      "%s proven to fit (%s)" % (sk.what, "; ".join(str(d) for d in sk.detail)[:120]),
                      "%s stores a value `%s` without establishing that it fits: for a larger value the writer emits the value modulo %d, the parser reads back that "
                      "other number, and the parsed content differs from what the builder was given (fewer keys / a shorter string / misaligned records) although "
                      "build and parse both succeed" % (ctx._stable(bid), sk.what, 256 if sk.what.endswith("u8") else 65536), sk.loc,
                      sample={"in": bid, "cast": sk.what, "goal": [repr(g) for g in sk.goals], "proof": [str(d) for d in sk.detail]})
    ctx.info("C08.R1: %d writer entries, %d bodies in the writer closure, %d byte-extraction casts skipped" % (len(ents), len(cl), skipped))
    ctx.floor(rule, n, floor, "narrowing casts to u8 / u16 in the writer closure")


def arithmetic_families(b):
    fam = set()
    for c in b.calls:
        m = re.search(r"::(wrapping|saturating|checked|overflowing)_(add|sub)$", c.name)
        if m and c.bb in b.live_blocks():
            fam.add(m.group(1))
    return fam


def r4_codec_pairs(ctx, krate="cascette_formats", floor=2):
    """an encoder is the inverse of its decoder only if both work in the same arithmetic: a decoder that adds with wrap-around accepts every delta, so its
    encoder must subtract with wrap-around; saturating arithmetic is not invertible - `a.saturating_sub(b)` maps every a <= b to 0 - so it can appear on
    one side only if the other side saturates as well"""
    rule = "C08.R4"
    ctx.rule(rule, "encode_* / decode_* siblings of one module: saturating arithmetic appears on both sides or on neither")
    by = {}
    for b in ctx.prog.bodies.values():
        if b.krate != krate or b.root or b.expn:
            continue
        m = re.match(r"^(encode|decode)_(\w+)$", b.item or "")
        if m:
            by.setdefault((b.file, m.group(2)), {})[m.group(1)] = b
    n = 0
    for (f, suffix), pair in sorted(by.items()):
        if set(pair) != {"encode", "decode"}:
            continue
        n += 1
        e, d = pair["encode"], pair["decode"]
        ctx.saw(e)
        ctx.saw(d)
        fe, fd = arithmetic_families(e), arithmetic_families(d)
        ok = ("saturating" in fe) == ("saturating" in fd)
        ctx.check(ok, rule, [f.split("src/")[-1], suffix, "same-arithmetic"], "encode_%s / decode_%s: %s / %s" % (suffix, suffix, sorted(fe), sorted(fd)),
                  "encode_%s uses %s arithmetic and decode_%s uses %s: saturating arithmetic is not invertible (every input at or past the bound maps to the bound), so "
                  "values the decoder accepts - a repeated or descending id is a delta of 0xFFFF_FFFF - are re-encoded as a different delta and the rebuilt block "
                  "carries other content than the parsed one" % (suffix, sorted(fe), suffix, sorted(fd)), e.loc(),
                  sample={"encode": e.id, "decode": d.id, "encode_arith": sorted(fe), "decode_arith": sorted(fd)})
    ctx.floor(rule, n, floor, "encode_* / decode_* pairs")


def r6_partition_loops(ctx, krate="cascette_formats", floor=1):
    """a loop that distributes the items of its input over groups - it pushes the item into a current group, and pushes (or takes) that group into an outer
    collection when the group is full - must put EVERY item into some group: a path through the loop body that closes the full group and starts the next one
    without pushing the item loses one item at every group boundary, silently (build and parse both succeed)"""
    rule = "C08.R6"
    ctx.rule(rule, "partition loops (item pushed into a current group, groups pushed into an outer collection): the item is pushed on every iteration path")
    from .c12 import some_edge
    n = 0
    for b in sorted(ctx.prog.bodies.values(), key=lambda x: x.id):
        if b.krate != krate or b.expn:
            continue
        for nx in b.calls:
            if nx.bb not in b.live_blocks() or not re.search(r"\bIterator>?::next$", nx.orig_name or nx.name):
                continue
            se = some_edge(b, nx)
            if se is None:
                continue
            item = {st["p"][0] for (i, j, st) in b.stmts() if st["r"]["k"] == "Use" and st["r"]["o"][0]["k"] in ("cp", "mv") and
                    st["r"]["o"][0]["p"][0] == nx.dest[0] and len(st["r"]["o"][0]["p"]) > 1 and len(st["p"]) == 1}
            if not item:
                continue
            # a tokeniser walks bytes / chars and drops the separators on purpose: items of a partition are records
            if all(re.match(r"^&?(u8|char|u16|u32)$", b.local_ty(l) or "") for l in item):
                continue
            loop = b.reachable([se], avoid={nx.bb})
            item_push, group_locals = set(), set()
            pushes = [c for c in b.calls if c.bb in loop and re.search(r"\bVec::<T, A>::push$", c.name) and len(c.args) >= 2 and op_local(c.args[1]) is not None]
            for c in pushes:
                sl = Slice(b, [op_local(c.args[1])], transparent=True)
                if sl.locals & item:
                    item_push.add(c.bb)
                    rs = Slice(b, [op_local(c.args[0])], transparent=True)
                    group_locals |= {l for l in rs.locals if b.locals[l].get("u")}
            if not item_push or not group_locals:
                continue
            outer = False
            for c in pushes:
                if c.bb in item_push:
                    continue
                sl = Slice(b, [op_local(c.args[1])], transparent=True)
                if sl.locals & group_locals:
                    outer = True
            if not outer:
                continue
            n += 1
            ctx.saw(b)
            skipping = nx.bb in b.reachable([se], avoid=item_push)
            ctx.check(not skipping, rule, [b.id, "every-item-grouped"], "every item is pushed into a group on every iteration path",
                      "%s distributes its input over groups but has an iteration path that does not push the item into any group (the branch that closes a full "
                      "group and starts the next): one item disappears at every group boundary - the builder returns Ok, the output parses, and holds fewer "
                      "entries than the builder was given" % ctx._stable(b.id), nx.loc(), sample={"in": b.id, "item_push_blocks": sorted(item_push)})
    ctx.floor(rule, n, floor, "partition loops over records in cascette-formats")


def r8_presence_predicates(ctx, krate="cascette_formats", floor=2):
    """whether an optional array is on the wire is ONE predicate, evaluated by the reader and by the writer: every body that performs I/O and branches on a
    workspace `has_*` / `is_*` accessor of a flags value decides from that accessor alone, or all of them conjoin it with the same further inputs. A reader that
    also asks a parameter (`has_named_files && flags.has_name_hashes()`) while the writer does not (or the other way round) skips / invents the array for
    exactly the inputs where the extra condition is false."""
    rule = "C08.R8"
    ctx.rule(rule, "reader and writer siblings that branch on the same flags accessor (has_* / is_*) conjoin it with the same further parameters (sibling agreement)")
    IO = re.compile(r"::(read_le|read_be|write_le|write_be|read_exact|write_all|read_options|write_options|read_u\d+\w*|write_u\d+\w*)$|\bVec::<T, A>::(push|extend_from_slice)$")
    groups = {}
    for b in ctx.prog.bodies.values():
        if b.krate != krate or b.expn or b.root:
            continue
        if not any(IO.search(c.name) or IO.search(c.orig_name or "") for c in b.calls):
            continue
        for bb, blk in enumerate(b.blocks):
            t = blk["t"]
            if t["k"] != "Switch" or bb not in b.live_blocks() or op_local(t["d"]) is None:
                continue
            sl = Slice(b, [op_local(t["d"])], transparent=True)
            accs = [c for c in sl.calls if c.local and c.id in ctx.prog.bodies and (ctx.prog.bodies[c.id].local_ty(0) or "") == "bool" and
                    re.match(r"^(has|is)_", ctx.prog.bodies[c.id].item or "") and "Flags" in (ctx.prog.bodies[c.id].rec.get("self_ty") or "")]
            for a in accs:
                ex = {b.local_name(x) for x in sl.args if b.local_name(x) and (b.local_ty(x) or "") == "bool"}
                # control dependence: `p && flags.has_x()` evaluates the accessor only on the true edge of a test of p
                for sb, sblk in enumerate(b.blocks):
                    st_ = sblk["t"]
                    if st_["k"] != "Switch" or sb not in b.live_blocks() or op_local(st_["d"]) is None or sb == bb:
                        continue
                    succs = [x for x in b.succ[sb]]
                    reach = [a.bb in (b.reachable([x]) | {x}) for x in succs]
                    if any(reach) and not all(reach):
                        dsl = Slice(b, [op_local(st_["d"])], transparent=None)
                        ex |= {b.local_name(x) for x in (dsl.args | ({op_local(st_["d"])} & set(range(1, b.argc + 1)))) if b.local_name(x) and (b.local_ty(x) or "") == "bool"}
                extra = sorted(ex)
                groups.setdefault((b.file, a.id), []).append((b, tuple(extra), t.get("l", 0)))
    n = 0
    for (f, acc), uses in sorted(groups.items(), key=lambda kv: str(kv[0])):
        bodies = {u[0].id for u in uses}
        if len(bodies) < 2:
            continue
        ref = collections.Counter(u[1] for u in uses).most_common(1)[0][0]
        for (b, extra, line) in uses:
            n += 1
            ctx.saw(b)
            ctx.check(extra == ref, rule, [b.id, acc.split("::")[-1], "same-condition"], "branches on %s() %s" % (acc.split("::")[-1], ("and " + "/".join(extra)) if extra else "alone"),
                      "%s decides the presence of an optional part from %s() AND %s, while its sibling(s) in %s decide from %s: for inputs where the extra condition is "
                      "false one side reads / writes the part and the other does not - the stream is mis-framed (phantom blocks, lost records) although parse "
                      "returns Ok" % (ctx._stable(b.id), acc.split("::")[-1], "/".join(extra) or "nothing else", f.split("src/")[-1],
                                      (acc.split("::")[-1] + "() and " + "/".join(ref)) if ref else acc.split("::")[-1] + "() alone"),
                      "%s:%s" % (b.file, line), sample={"in": b.id, "accessor": acc, "extra_inputs": list(extra)})
    ctx.floor(rule, n, floor, "I/O bodies that branch on a shared flags accessor")


def run(ctx):
    r8_presence_predicates(ctx)
    # E-names (rules/siblingfield.py): a local named after one field of a struct is not computed from its sibling
    from . import siblingfield
    siblingfield.rule_names(ctx, "C08.R7", ["cascette_formats"])
    r6_partition_loops(ctx)
    # E-bitfield (rules/bitfield.py): the fields of a packed word partition it (mask == 2^shift - 1)
    from . import bitfield
    bitfield.rule_bitfields(ctx, "C08.R5", ["cascette_formats"], floor=3)
    r4_codec_pairs(ctx)
    r1_no_silent_narrowing(ctx)
    # R2 = E-count (rules/redundant.py): a stored count that some body assigns from the length of a sibling Vec is re-written after every operation
    # that changes that length - the serialiser writes the count in front of the records that are present, the parser believes the count
    from . import redundant
    redundant.rule_counts(ctx, "C08.R2", ["cascette_formats"], floor=3)
    # R3 = E-digest (rules/digestfield.py): a digest field that some body assigns from a hash over its own struct is re-assigned after every later write
    # to a covered field - the parser verifies the digest, so a field changed behind it makes the writer's own output unreadable
    from . import digestfield
    digestfield.rule_digest_last(ctx, "C08.R3", ["cascette_formats"], floor=4)


def selftest(ctx):
    from .selftest import body
    from .engine import Ctx
    sub = Ctx(ctx.prog, ctx.prop, ctx.tier, selftest=True)
    items = ["narrow_len_bad", "narrow_len_guarded_ok", "narrow_len_min_ok", "narrow_emit_bytes_ok"]
    ids = [body(ctx, i).id for i in items]
    r1_no_silent_narrowing(sub, prefix="verif_selftest", entries=ids, floor=0)
    bad = {v.key.split("|")[1].split("::")[-1] for v in sub.violations}
    for i in items:
        (ctx.bad if i in bad else ctx.ok)("ST.narrow", [i], "reported" if i in bad else "silent", body(ctx, i).loc())
    from . import redundant
    sub2 = Ctx(ctx.prog, ctx.prop, ctx.tier, selftest=True)
    n2 = redundant.rule_counts(sub2, "ST.count", ["verif_selftest"])
    if n2 < 3:
        raise RuntimeError("selftest: E-count found %d length-changing operations in the witness crate, expected at least 3" % n2)
    bad2 = {v.key.split("|")[1].split("::")[-1] for v in sub2.violations}
    for i in ("counted_add_ok", "counted_remove_bad", "counted_remove_ok"):
        (ctx.bad if i in bad2 else ctx.ok)("ST.count", [i], "reported" if i in bad2 else "silent", body(ctx, i).loc())
    from . import digestfield
    sub3 = Ctx(ctx.prog, ctx.prop, ctx.tier, selftest=True)
    n3 = digestfield.rule_digest_last(sub3, "ST.digest", ["verif_selftest"])
    if n3 < 2:
        raise RuntimeError("selftest: E-digest found %d writes to digest-covered fields in the witness crate, expected at least 2" % n3)
    bad3 = {v.key.split("|")[1].split("::")[-1] for v in sub3.violations}
    for i in ("sealed_reconfigure_ok", "sealed_reconfigure_bad"):
        (ctx.bad if i in bad3 else ctx.ok)("ST.digest", [i], "reported" if i in bad3 else "silent", body(ctx, i).loc())
    return {"must_report": ["ST.narrow|narrow_len_bad", "ST.count|counted_remove_bad", "ST.digest|sealed_reconfigure_bad"],
            "must_not_report": ["ST.narrow|narrow_len_guarded_ok", "ST.narrow|narrow_len_min_ok", "ST.narrow|narrow_emit_bytes_ok", "ST.count|counted_add_ok", "ST.count|counted_remove_ok", "ST.digest|sealed_reconfigure_ok"]}
