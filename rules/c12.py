"""C12 - layered caching is coherent, never serves content that fails validation, never self-deadlocks."""
import re
from .facts import op_local, op_const, Slice, place_fields
from .lib import (bool_switches, enum_switches, assigns_variant, awaited, result_local, must_pass, copies_of)
from .locks import held_analysis, LockSummaries, classify, SYNC_FAMILIES

CRATES = ["cascette_cache", "cascette_crypto", "cascette_formats"]

EXPLANATION = (
    "Static rules over the MIR of cascette-cache. R1 (E-lock): guard liveness is computed per body on pre-borrowck MIR "
    "(guards die at their explicit Drop / when moved into a call); at every call site the set of held locks is intersected "
    "with the callee's transitive may-acquire summary (lock identity = (struct, field)); a lock re-acquired while held with "
    "at least one exclusive side is a self-deadlock on every schedule. R2: in get_with_validation the failing and the error "
    "edge of validate_with_hooks cannot reach the Ok(Some(..)) return and pass remove(key) first; in put_with_validation* "
    "the layer put is unreachable from those edges. R3: get/get_with_validation walk self.layers forward, fall through to "
    "the next layer on Ok(None) and Err, and never loop back after a hit. R4: remove/clear call the per-layer operation "
    "inside a loop over all of self.layers whose only early exit is error propagation, and touch the promotion tracker "
    "afterwards. R5: no std/parking_lot/dashmap guard is live at a Yield in multi_layer.rs.")

ASSUMPTIONS = [
    "&self receivers inside one impl denote the same object (lock identity by (type, field))",
    "coherence over histories with eviction is not decided",
]

CFG = {
    "krates": ["cascette_cache"],
    "ml_type": "MultiLayerCacheImpl",
    "file": r"multi_layer\.rs$",
    "validate_pat": r"NgdpBytes::validate_with_hooks$",
    "remove_self_pat": r"MultiLayerCacheImpl<K> as .*AsyncCache<K>>::remove$|AsyncCache::remove$",
    "layer_get_pat": r"CacheLayer::<K>::get$",
    "layer_put_pat": r"CacheLayer::<K>::(put|put_with_ttl)$",
    "layer_remove_pat": r"CacheLayer::<K>::remove$",
    "layer_clear_pat": r"CacheLayer::<K>::clear$",
    "lock_floor": 10,
}


def short(name):
    return re.sub(r"<[^<>]*>", "", name).split("::")[-1] if name else name


def r1_reentrancy(ctx, cfg, rule="C12.R1"):
    ctx.rule(rule, "no lock is (re-)acquired, directly or in a callee, while its guard is live (one side exclusive)")
    LS = LockSummaries(ctx.prog, krates=cfg["krates"])
    n_held_calls = 0
    n_births = 0
    for b in sorted(ctx.prog.bodies.values(), key=lambda x: x.id):
        if b.krate not in cfg["krates"]:
            continue
        at, births = held_analysis(b)
        if not births:
            continue
        ctx.saw(b)
        n_births += len(births)
        live = b.live_blocks()
        for c in b.calls:
            if c.bb not in live:
                continue
            held = at.get(c.bb)
            if not held:
                continue
            n_held_calls += 1
            ctx.call_sites += 1
            acq = LS.call_acquires(c)
            hit = None
            for h in held:
                if h.lock[1] == "?":
                    continue
                for (lock, mode, fam), (site, chain) in acq.items():
                    if lock == h.lock and (mode == "excl" or h.mode == "excl"):
                        hit = (h, lock, mode, site, chain)
            if hit:
                h, lock, mode, site, chain = hit
                ctx.bad(rule, [b.id, "%s.%s" % (lock[0].split("::")[-1], lock[1]), short(c.name)],
                        "%s holds the %s guard of %s.%s (taken at %s) while calling %s, which acquires the same lock "
                        "(%s, at %s%s): self-deadlock" % (b.id, h.mode, lock[0].split("::")[-1], lock[1], h.site, c.name,
                                                          mode, site, (" via " + " -> ".join(chain)) if chain else ""),
                        c.loc(), {"held": repr(h), "callee": c.name, "chain": list(chain)})
            else:
                ctx.ok(rule, [b.id, short(c.name), c.bb], "no overlap", c.loc(),
                       sample={"in": b.id, "call": c.name, "held": [repr(h) for h in held], "callee_may_acquire": [
                           "%s.%s/%s" % (k[0][0].split("::")[-1], k[0][1], k[1]) for k in acq]},
                       nontrivial=bool(acq))
    ctx.floor(rule, n_births, cfg.get("lock_floor", 0), "lock acquisitions with a tracked guard in %s" % cfg["krates"])
    return n_held_calls


def ml_body(ctx, rule, cfg, item, trait=None):
    """the coroutine body of MultiLayerCacheImpl::<item>"""
    bs = [b for b in ctx.prog.find(self_ty=r"\b%s\b" % cfg["ml_type"], item=item, closure=True)
          if b.coroutine and (trait is None or (b.rec.get("trait") or "").endswith(trait))]
    if not ctx.anchor(rule, bs, "%s::%s (async body)" % (cfg["ml_type"], item)):
        return None
    return bs[0]


def ok_some_blocks(b):
    """blocks assigning the return value Ok(x) where x derives from a `Some(..)` aggregate"""
    out = []
    for (i, j, s) in assigns_variant(b, "Ok", with_stmt=True):
        ops = s["r"]["o"]
        if not ops or op_local(ops[0]) is None:
            continue
        sl = Slice(b, [op_local(ops[0])], transparent=None)
        if any(o.get("variant") == "Some" for o in sl.consts):
            out.append(i)
    return out


def r2_validated(ctx, cfg):
    rule = "C12.R2"
    ctx.rule(rule, "validation failure/error edges never reach a serving return or a layer put, and purge the key first")
    b = ml_body(ctx, rule, cfg, "get_with_validation")
    if b:
        ctx.saw(b)
        vals = b.calls_matching(cfg["validate_pat"])
        serve = ok_some_blocks(b)
        removes = b.calls_matching(cfg["remove_self_pat"])
        if ctx.anchor(rule, vals, "validate_with_hooks call in get_with_validation") and \
           ctx.anchor(rule, serve, "Ok(Some(..)) return in get_with_validation") and \
           ctx.anchor(rule, removes, "self.remove(key) in get_with_validation"):
            v = vals[0]
            rl, rbb = result_local(b, v)
            sws = enum_switches(b, rl)
            if ctx.anchor(rule, sws, "match on the validation result"):
                (sbb, m, other, via) = sws[0]
                rets = set(b.return_blocks())
                rem_blocks = {c.bb for c in removes}
                # error edge
                if 1 in m:
                    e = m[1]
                    leak = b.reachable([e]) & set(serve)
                    ctx.check(not leak, rule, [b.id, "err-edge-serves"], "validation error never serves",
                              "get_with_validation: the Err edge of validate_with_hooks reaches `Ok(Some(..))`", v.loc(),
                              sample={"validate": v.loc(), "err_edge": e})
                    ctx.check(must_pass(b, e, rets, rem_blocks), rule, [b.id, "err-edge-purges"],
                              "validation error purges the key from all layers before returning",
                              "get_with_validation: a validation error returns without removing the entry from the layers "
                              "(a corrupted entry stays and is served by a later plain get)", v.loc())
                # invalid edge
                if 0 in m:
                    okb = m[0]
                    iv = invalid_edges(b, okb)
                    if ctx.anchor(rule, iv, "`is_valid` test on the validation result in get_with_validation"):
                        for (tt, ft) in iv:
                            leak = b.reachable([ft]) & set(serve)
                            ctx.check(not leak, rule, [b.id, "invalid-edge-serves"], "invalid content never served",
                                      "get_with_validation: the `is_valid == false` edge reaches `Ok(Some(..))`: content whose hash "
                                      "differs from the requested key is returned", v.loc(), sample={"false_edge": ft, "serve_blocks": serve})
                            ctx.check(must_pass(b, ft, rets, rem_blocks), rule, [b.id, "invalid-edge-purges"],
                                      "invalid content is purged from all layers",
                                      "get_with_validation: invalid content is reported but not removed from the layers", v.loc())
            # the purge itself must be awaited (a future that is never polled removes nothing)
            for n, c in enumerate(removes):
                ctx.check(awaited(b, c) is not None, rule, [b.id, "remove-awaited#%d" % n], "remove future is awaited",
                          "get_with_validation constructs self.remove(key) but never awaits it", c.loc())
    for item in ("put_with_validation", "put_with_validation_and_ttl"):
        b = ml_body(ctx, rule, cfg, item)
        if not b:
            continue
        ctx.saw(b)
        vals = b.calls_matching(cfg["validate_pat"])
        puts = b.calls_matching(cfg["layer_put_pat"])
        if not (ctx.anchor(rule, vals, "validate_with_hooks call in %s" % item) and ctx.anchor(rule, puts, "layer put in %s" % item)):
            continue
        v = vals[0]
        rl, rbb = result_local(b, v)
        sws = enum_switches(b, rl)
        if not ctx.anchor(rule, sws, "match on the validation result in %s" % item):
            continue
        (sbb, m, other, via) = sws[0]
        put_blocks = {c.bb for c in puts}
        if 1 in m:
            ctx.check(not (b.reachable([m[1]]) & put_blocks), rule, [b.id, "err-edge-stores"], "validation error never stores",
                      "%s: the Err edge of validate_with_hooks reaches the layer put" % item, v.loc())
        if 0 in m:
            iv = invalid_edges(b, m[0])
            if ctx.anchor(rule, iv, "`is_valid` test in %s" % item):
                for (tt, ft) in iv:
                    ctx.check(not (b.reachable([ft]) & put_blocks), rule, [b.id, "invalid-edge-stores"],
                              "invalid content never stored",
                              "%s: the `is_valid == false` edge reaches the layer put: content that does not hash to its key is cached" % item,
                              v.loc(), sample={"false_edge": ft, "put_blocks": sorted(put_blocks)})


def invalid_edges(b, from_bb):
    """(true_target, false_target) of branches on a read of field `is_valid` reachable from from_bb"""
    out = []
    reach = b.reachable([from_bb])
    for i, j, s in b.stmts():
        if i not in reach:
            continue
        r = s["r"]
        for o in r.get("o", []):
            if o["k"] in ("cp", "mv") and "is_valid" in place_fields(o["p"]):
                if r["k"] == "Un" and r.get("op") == "Not":
                    # `!result.is_valid` -> the negated temp is branched on
                    for (sbb, tt, ft) in bool_switches(b, s["p"][0]):
                        out.append((ft, tt))
                else:
                    for (sbb, tt, ft) in bool_switches(b, s["p"][0]):
                        out.append((tt, ft))
    return out


def layer_loop(ctx, rule, b, what):
    """the `next` call that drives the iteration over self.layers in body b"""
    nexts = [c for c in b.calls_matching(r"\bIterator>?::next$") if "CacheLayer" in c.full or "CacheLayer" in b.local_ty(op_local(c.args[0]) or 0)]
    if not nexts:
        # receiver type is &mut Iter<'_, CacheLayer<K>> or Enumerate<..>
        nexts = [c for c in b.calls_matching(r"\bIterator>?::next$")
                 if any("CacheLayer" in b.local_ty(l) for l in Slice(b, [op_local(c.args[0])], transparent=ITER_TRANSPARENT).locals)]
    if not ctx.anchor(rule, nexts, "iteration over self.layers in %s" % what):
        return None
    return nexts[0]


ITER_TRANSPARENT = re.compile(r"\bIntoIterator>?::into_iter$|::iter$|::iter_mut$|\bIterator>?::(enumerate|rev|skip|take|step_by|filter|peekable|chain|zip|map)$|\bDeref>?::deref$|\bIndex<.*>>?::index$")


def iter_forward_full(b, nx):
    """iterator driving the loop is slice::Iter or Enumerate<slice::Iter> over the `layers` field"""
    full = nx.full
    sl = Slice(b, [op_local(nx.args[0])], transparent=ITER_TRANSPARENT)
    over_layers = sl.has_field("layers")
    adapters = [a for a in ("Rev<", "Skip<", "Take<", "StepBy<", "Filter<", "SkipWhile<", "TakeWhile<", "Chain<", "Peekable<") if a in full]
    plain = ("slice::iter::Iter<" in full)
    ranged = any(isinstance(e, dict) and ("ss" in e) for p in sl.places for e in p[1:]) or sl.has_call(r"\bIndex<.*>>::index$")
    return over_layers and plain and not adapters and not ranged, {"iterator": full, "over_layers": over_layers, "adapters": adapters, "subrange": ranged}


def r3_order(ctx, cfg):
    rule = "C12.R3"
    ctx.rule(rule, "layers searched first to last; miss and error fall through; a hit ends the search")
    for item, trait in (("get", "AsyncCache"), ("get_with_validation", None)):
        b = ml_body(ctx, rule, cfg, item, trait)
        if not b:
            continue
        ctx.saw(b)
        nx = layer_loop(ctx, rule, b, item)
        if not nx:
            continue
        okf, det = iter_forward_full(b, nx)
        ctx.check(okf, rule, [b.id, "forward"], "forward over all layers",
                  "%s does not iterate self.layers first-to-last over all layers (%s)" % (item, det), nx.loc(), sample=det)
        gets = b.calls_matching(cfg["layer_get_pat"])
        if not ctx.anchor(rule, gets, "layer.get in %s" % item):
            continue
        g = gets[0]
        rl, rbb = result_local(b, g)
        sws = enum_switches(b, rl, through_try=False)
        if not ctx.anchor(rule, sws, "match on layer.get result in %s" % item):
            continue
        (sbb, m, other, via) = sws[0]
        rets = set(b.return_blocks())
        # Err edge falls through to the next layer
        if 1 in m:
            e = m[1]
            back = nx.bb in b.reachable([e])
            early = bool(b.reachable([e], avoid={nx.bb}) & rets)
            ctx.check(back and not early, rule, [b.id, "err-falls-through"], "layer error falls through",
                      "%s: an error from one layer ends the search instead of trying the slower layers" % item, g.loc(),
                      sample={"err_edge": e, "loops_back": back, "returns_early": early})
        if 0 in m:
            # Ok(..): inner Option
            okb = m[0]
            inner = None
            holders = set(copies_of(b, rl))
            for i, j, s in b.stmts():
                if i in b.reachable([okb]) and s["r"]["k"] == "Discr":
                    p = s["r"]["p"]
                    if p[0] in holders and any(isinstance(e, dict) and e.get("d") == "Ok" for e in p[1:]):
                        inner = s["p"][0]
            sw2 = None
            if inner is not None:
                for i, blk in enumerate(b.blocks):
                    t = blk["t"]
                    if t["k"] == "Switch" and op_local(t["d"]) == inner:
                        sw2 = {int(v): tg for v, tg in t["v"]}
                        sw2[None] = t["o"]
            if ctx.anchor(rule, sw2, "match on the Option inside layer.get's Ok in %s" % item):
                none_e = sw2.get(0)
                some_e = sw2.get(1, sw2.get(None))
                if none_e is not None:
                    back = nx.bb in b.reachable([none_e])
                    early = bool(b.reachable([none_e], avoid={nx.bb}) & rets)
                    ctx.check(back and not early, rule, [b.id, "miss-falls-through"], "miss falls through",
                              "%s: a miss in one layer ends the search" % item, g.loc())
                if some_e is not None:
                    loops = nx.bb in b.reachable([some_e])
                    ctx.check(not loops, rule, [b.id, "hit-ends-search"], "a hit returns",
                              "%s: after a hit the search continues into slower layers (a stale lower-layer value may win)" % item, g.loc())


def some_edge(b, nx):
    """target of the `Some` edge of the switch following an Iterator::next call"""
    for sb in b.succ[nx.bb]:
        for (v, tg) in b.switch_edges(sb):
            if v == 1:
                return tg
    return None


def every_iteration(b, nx, call_bb, bad_targets=None):
    """every path from the loop body's entry back to the loop head or to a return (or, when given, to one of
    `bad_targets`) passes call_bb"""
    se = some_edge(b, nx)
    if se is None:
        return False
    r = b.reachable([se], avoid={call_bb})
    bad = set(b.return_blocks()) if bad_targets is None else set(bad_targets)
    return not (nx.bb in r or (r & bad))


def r4_fanout(ctx, cfg):
    rule = "C12.R4"
    ctx.rule(rule, "remove/clear reach every layer; only error propagation leaves the loop early; tracker updated")
    for item, pat, tracker_pat in (("remove", cfg["layer_remove_pat"], r"HashMap::<K, V, S, A>::remove$"),
                                   ("clear", cfg["layer_clear_pat"], r"HashMap::<K, V, S, A>::clear$")):
        b = ml_body(ctx, rule, cfg, item, "AsyncCache")
        if not b:
            continue
        ctx.saw(b)
        nx = layer_loop(ctx, rule, b, item)
        if not nx:
            continue
        okf, det = iter_forward_full(b, nx)
        ctx.check(okf, rule, [b.id, "all-layers"], "loop covers all layers",
                  "%s does not iterate over all of self.layers (%s)" % (item, det), nx.loc(), sample=det)
        ops = b.calls_matching(pat)
        if not ctx.anchor(rule, ops, "per-layer %s call" % item):
            continue
        o = ops[0]
        in_loop = o.bb in b.reachable(b.succ[nx.bb]) and nx.bb in b.reachable(b.succ[o.bb])
        ctx.check(in_loop and awaited(b, o) is not None, rule, [b.id, "in-loop"], "per-layer op is inside the loop and awaited",
                  "%s: the per-layer call is not (awaited) inside the loop over the layers" % item, o.loc())
        ctx.check(every_iteration(b, nx, o.bb), rule, [b.id, "every-layer"], "per-layer op runs for every layer",
                  "%s: some path through the loop body skips the per-layer call (e.g. a short-circuit once an earlier layer "
                  "reported a hit): a slower layer keeps the entry and answers for the key afterwards" % item, o.loc())
        rl, rbb = result_local(b, o)
        sws = enum_switches(b, rl)
        rets = set(b.return_blocks())
        if ctx.anchor(rule, sws, "result handling of the per-layer %s" % item):
            (sbb, m, other, via) = sws[0]
            if 0 in m:
                early = bool(b.reachable([m[0]], avoid={nx.bb}) & rets)
                ctx.check(not early, rule, [b.id, "no-early-success-exit"], "success continues with the next layer",
                          "%s: after one layer succeeded the function can return without visiting the remaining layers "
                          "(a lower layer keeps answering for the key)" % item, o.loc())
        # loop exit -> tracker maintenance reachable
        tr = b.calls_matching(tracker_pat)
        exit_edges = [tg for (v, tg) in b.switch_edges(b.succ[nx.bb][0]) if v == 0] if b.succ[nx.bb] else []
        ok = bool(tr) and bool(exit_edges) and all(b.reachable([e]) & {c.bb for c in tr} for e in exit_edges)
        ctx.check(ok, rule, [b.id, "tracker"], "promotion tracker updated after the loop",
                  "%s does not update the promotion tracker after visiting the layers" % item, nx.loc())


def r5_no_guard_across_await(ctx, cfg, rule="C12.R5", file_pat=None):
    ctx.rule(rule, "no synchronous lock guard is live across an .await (Yield)")
    n = 0
    file_rx = re.compile(file_pat or cfg["file"])
    for b in sorted(ctx.prog.bodies.values(), key=lambda x: x.id):
        if b.krate not in cfg["krates"] or not b.coroutine or not file_rx.search(b.file):
            continue
        at, births = held_analysis(b)
        ys = [i for i in b.live_blocks() if b.blocks[i]["t"]["k"] == "Yield"]
        if not ys:
            continue
        ctx.saw(b)
        for y in ys:
            n += 1
            held = [h for h in at.get(y, ()) if h.family in SYNC_FAMILIES]
            t = b.blocks[y]["t"]
            loc = "%s:%d" % (b.file, t.get("l", 0))
            if held:
                ctx.bad(rule, [b.id, "%s.%s" % (held[0].lock[0].split("::")[-1], held[0].lock[1])],
                        "%s awaits at %s while holding the synchronous %s guard taken at %s: blocks the executor thread and "
                        "can deadlock with the task that is awaited" % (b.id, loc, held[0].family, held[0].site), loc)
            else:
                ctx.ok(rule, [b.id, "yield", y], "no sync guard live", loc, nontrivial=bool(births),
                       sample={"in": b.id, "yield": loc, "guards_in_body": len(births)} if births else None)
    ctx.floor(rule, n, cfg.get("yield_floor", 20), "await points inspected")


def r6_batch(ctx, cfg):
    rule = "C12.R6"
    ctx.rule(rule, "batch_put/batch_get perform the single-key operation for every item, in order")
    for item, pat in (("batch_put", r"AsyncCache<K>>::put$|AsyncCache::put$"), ("batch_get", r"AsyncCache<K>>::get$|AsyncCache::get$|MultiLayerCacheImpl::<K>::get_with_validation$")):
        b = ml_body(ctx, rule, cfg, item)
        if not b:
            continue
        ctx.saw(b)
        ops = b.calls_matching(pat)
        if not ctx.anchor(rule, ops, "single-key call in %s" % item):
            continue
        o = ops[0]
        # the loop that contains the call
        nexts = [c for c in b.calls_matching(r"\bIterator>?::next$") if o.bb in b.reachable(b.succ[c.bb]) and c.bb in b.reachable(b.succ[o.bb])]
        if not ctx.anchor(rule, nexts, "loop around the single-key call in %s" % item):
            continue
        nx = nexts[-1]
        adapters = [a for a in ("Rev<", "Skip<", "Take<", "StepBy<", "Filter<", "SkipWhile<", "TakeWhile<") if a in nx.full]
        ctx.check(not adapters, rule, [b.id, "all-items"], "iterates over all items in order",
                  "%s iterates with %s: items are skipped or reordered" % (item, adapters), nx.loc(), sample={"iterator": nx.full})
        ctx.check(every_iteration(b, nx, o.bb) and awaited(b, o) is not None, rule, [b.id, "every-item"],
                  "single-key op runs (awaited) for every item",
                  "%s: some path through the loop body skips the single-key operation for an item while the batch still reports "
                  "success (e.g. de-duplication keeping the first value: a later value for the same key is lost)" % item, o.loc())


def r7_promotion_copies(ctx, cfg):
    """a promotion that reports success has copied: every `Ok(true)` of the promote* bodies lies behind the put into the target layer (an "already
    there" shortcut keeps an older copy in the faster layer, which then shadows the newer value below it)"""
    rule = "C12.R7"
    ctx.rule(rule, "MultiLayerCacheImpl::promote*: every Ok(true) return is behind the put into the target layer")
    bodies = [b for b in ctx.prog.bodies.values() if b.krate == "cascette_cache" and b.coroutine and re.search(r"multi_layer\.rs$", b.file or "") and
              re.search(r"::promote\w*::\{closure#0\}$", b.id)]
    n = 0
    for b in sorted(bodies, key=lambda x: x.id):
        puts = {c.bb for c in b.calls if c.bb in b.live_blocks() and re.search(r"(AsyncCache<K>>?|CacheLayer::<K>)::put(_with_ttl)?$|::put_to_layer$", c.name) or re.search(r"AsyncCache>?::put(_with_ttl)?$", c.orig_name or "")}
        oks = []
        for (i, j, st) in assigns_variant(b, "Ok", adt_pat=r"result::Result", with_stmt=True):
            o = st["r"]["o"][0] if st["r"].get("o") else None
            if o is not None and o["k"] == "c" and str(op_const(o)) in ("1", "True", "true"):
                oks.append(i)
        if not puts or not oks:
            continue        # delegating wrappers (promote -> promote_entry) return the delegate's result
        n += 1
        ctx.saw(b)
        leak = b.reachable([0], avoid=puts) & set(oks)
        ctx.check(not leak, rule, [b.id, "true-after-put"], "Ok(true) only after the value was put into the target layer",
                  "%s can report a successful promotion (Ok(true)) on a path that never puts the value into the target layer: an older copy already in the "
                  "faster layer is left in place and keeps shadowing the newer value of the slower layer, so get() returns a superseded value" % ctx._stable(b.id),
                  b.loc(), sample={"fn": b.id, "put_blocks": sorted(puts), "ok_true_blocks": sorted(oks)})
    ctx.floor(rule, n, 1, "promotion bodies with an own Ok(true)")


def run(ctx, cfg=CFG):
    r7_promotion_copies(ctx, cfg)
    r1_reentrancy(ctx, cfg)
    r2_validated(ctx, cfg)
    from .c07 import hooks_fast_path
    hooks_fast_path(ctx, "C12.R2")
    # validated reads rest on the hooks' skip decision being a pure function of the size (round 6: C12-r6m2)
    from . import c07
    c07.r6_skip_pure(ctx, c07.CFG)
    r3_order(ctx, cfg)
    r4_fanout(ctx, cfg)
    r5_no_guard_across_await(ctx, cfg)
    r6_batch(ctx, cfg)


from .selftest import for_families as _ff  # noqa: E402
selftest = _ff(['lock', 'loop'])
