"""E-lock: guard liveness, held-lock sets at call sites / yields, transitive acquire summaries,
lock-order edges. Works on pre-borrowck MIR where guard drops are explicit `Drop` terminators."""
import re, collections
from .facts import op_local, Slice, place_fields
from .lib import awaited

# callee name -> (kind, mode, family)
ACQ = [
    (re.compile(r"^std::sync::(poison::)?(rwlock::)?RwLock::<T>::(read|try_read)$"), ("guard", "shared", "std")),
    (re.compile(r"^std::sync::(poison::)?(rwlock::)?RwLock::<T>::(write|try_write)$"), ("guard", "excl", "std")),
    (re.compile(r"^std::sync::(poison::)?(mutex::)?Mutex::<T>::(lock|try_lock)$"), ("guard", "excl", "std")),
    (re.compile(r"^(verif_selftest::)?lock_api::rwlock::RwLock::<R, T>::(read|read_recursive|upgradable_read|try_read)$"), ("guard", "shared", "parking_lot")),
    (re.compile(r"^lock_api::rwlock::RwLock::<R, T>::(write|try_write)$"), ("guard", "excl", "parking_lot")),
    (re.compile(r"^lock_api::mutex::Mutex::<R, T>::(lock|try_lock)$"), ("guard", "excl", "parking_lot")),
    (re.compile(r"^tokio::sync::(rwlock::)?RwLock::<T>::(read|read_owned)$"), ("aguard", "shared", "tokio")),
    (re.compile(r"^tokio::sync::(rwlock::)?RwLock::<T>::(write|write_owned)$"), ("aguard", "excl", "tokio")),
    (re.compile(r"^tokio::sync::(mutex::)?Mutex::<T>::(lock|lock_owned)$"), ("aguard", "excl", "tokio")),
    (re.compile(r"^tokio::sync::(rwlock::)?RwLock::<T>::try_read$"), ("guard", "shared", "tokio")),
    (re.compile(r"^tokio::sync::(rwlock::)?RwLock::<T>::try_write$"), ("guard", "excl", "tokio")),
    (re.compile(r"^tokio::sync::(mutex::)?Mutex::<T>::try_lock$"), ("guard", "excl", "tokio")),
    # dashmap: guards (Ref / RefMut / Entry / iterators hold a shard lock)
    (re.compile(r"^dashmap::DashMap::<K, V, S>::(get|iter|try_get)$"), ("guard", "shared", "dashmap")),
    (re.compile(r"^dashmap::DashMap::<K, V, S>::(get_mut|entry|iter_mut|try_get_mut|try_entry)$"), ("guard", "excl", "dashmap")),
    # dashmap: transient (lock taken and released inside the call)
    (re.compile(r"^dashmap::DashMap::<K, V, S>::(remove|remove_if|remove_if_mut|insert|alter|alter_all|retain|clear|shrink_to_fit)$"), ("transient", "excl", "dashmap")),
    (re.compile(r"^dashmap::DashMap::<K, V, S>::(contains_key|len|is_empty|view)$"), ("transient", "shared", "dashmap")),
]

GUARD_TY = re.compile(r"Guard|dashmap::mapref::|dashmap::iter::|LockResult|TryLockResult")
SYNC_FAMILIES = ("std", "parking_lot", "dashmap")


def classify(call):
    for rx, v in ACQ:
        if rx.search(call.name):
            return v
    return None


def lock_id(body, call):
    """(owner adt id, field name) of the lock a call's receiver denotes, following refs, derefs and
    Arc::deref; falls back to the local's type for locks that are not struct fields."""
    op = call.args[0] if call.args else None
    if op is None or op_local(op) is None:
        return ("?", "?")
    sl = Slice(body, [op_local(op)], transparent=re.compile(r"\bDeref>::deref$|\bDerefMut>::deref_mut$|\bClone>?::clone$|\bAsRef<.*>>::as_ref$"))
    cands = []
    places = list(sl.places)
    if op["k"] in ("cp", "mv"):
        places.append(op["p"])
    for p in places:
        fl = [e for e in p[1:] if isinstance(e, dict) and "f" in e]
        if fl:
            last = fl[-1]
            if last.get("n", "").startswith("upvar:"):
                continue
            cands.append((len(fl), last.get("a") or "?", last.get("n") or str(last["f"])))
    if cands:
        cands.sort(reverse=True)
        return (cands[0][1], cands[0][2])
    # local lock (e.g. a parameter or a let-bound Arc<Mutex<..>>): identify by root local's name/type
    roots = sorted(sl.args) or sorted(sl.locals)
    if roots:
        r = roots[0]
        return ("local:" + body.id, body.local_name(r))
    return ("?", "?")


class Held:
    __slots__ = ("lock", "mode", "family", "site", "holders")

    def __init__(self, lock, mode, family, site, holders):
        self.lock = lock
        self.mode = mode
        self.family = family
        self.site = site
        self.holders = frozenset(holders)

    def key(self):
        return (self.lock, self.mode, self.family, self.site, self.holders)

    def __hash__(self):
        return hash(self.key())

    def __eq__(self, o):
        return self.key() == o.key()

    def __repr__(self):
        return "Held(%s.%s %s @%s holders=%s)" % (self.lock[0].split("::")[-1], self.lock[1], self.mode, self.site, sorted(self.holders))


def _births(body):
    """acquire sites: list of (bb, stmt_idx_or_None(term), Held-template pieces, guard local)"""
    births = []
    for c in body.calls:
        cl = classify(c)
        if not cl:
            continue
        kind, mode, fam = cl
        if kind == "guard":
            births.append((c.bb, None, lock_id(body, c), mode, fam, c.loc(), c.dest[0]))
        elif kind == "aguard":
            aw = awaited(body, c)
            if aw:
                bb, l = aw
                # find statement index of the landing assignment
                idx = None
                for j, s in enumerate(body.blocks[bb]["s"]):
                    if s["p"] == [l]:
                        idx = j
                births.append((bb, idx, lock_id(body, c), mode, fam, c.loc(), l))
    return births


def held_analysis(body):
    """forward may-analysis. Returns (at_term, births) where at_term[bb] = frozenset(Held) live when the
    terminator of bb executes (i.e. held *during* a call made by that terminator)."""
    births = _births(body)
    if not births:
        return {}, births
    birth_term = collections.defaultdict(list)
    birth_stmt = collections.defaultdict(list)
    for (bb, idx, lid, mode, fam, site, l) in births:
        if idx is None:
            birth_term[bb].append((lid, mode, fam, site, l))
        else:
            birth_stmt[(bb, idx)].append((lid, mode, fam, site, l))
    n = len(body.blocks)
    IN = [frozenset() for _ in range(n)]
    at_term = {}
    work = collections.deque([0])
    seen_once = set()
    succs = body.succ
    while work:
        b = work.popleft()
        state = set(IN[b])
        blk = body.blocks[b]
        for j, s in enumerate(blk["s"]):
            state = _move_stmt(state, s)
            for (lid, mode, fam, site, l) in birth_stmt.get((b, j), []):
                state.add(Held(lid, mode, fam, site, [l]))
        at_term[b] = frozenset(state)
        t = blk["t"]
        out = set(state)
        k = t["k"]
        if k == "Drop":
            dl = t["p"][0]
            if len(t["p"]) == 1:
                out = {h for h in out if dl not in h.holders}
        elif k == "Call":
            # moving a holder into a call consumes the guard (mem::drop, or handed to the callee)
            moved = {op_local(a) for a in t["a"] if a["k"] == "mv" and len(a["p"]) == 1}
            newout = set()
            for h in out:
                if h.holders & moved:
                    # guard-preserving adapters keep the lock alive in the destination
                    nm = t["f"]["fn"]["name"] if t["f"]["k"] == "fn" else ""
                    if re.search(r"Result::<T, E>::(unwrap|expect|unwrap_or_else|map_err|ok|unwrap_or_default)$|Option::<T>::(unwrap|expect|unwrap_or_else)$|\bTry>::branch$|Guard.*::map$|\bInto<U>>::into$", nm):
                        newout.add(Held(h.lock, h.mode, h.family, h.site, (h.holders - moved) | {t["d"][0]}))
                    # else: released / consumed
                else:
                    newout.add(h)
            out = newout
            for (lid, mode, fam, site, l) in birth_term.get(b, []):
                out.add(Held(lid, mode, fam, site, [l]))
        fo = frozenset(out)
        for s in succs[b]:
            new = IN[s] | fo
            if new != IN[s] or s not in seen_once:
                IN[s] = new
                seen_once.add(s)
                work.append(s)
    return at_term, births


def _move_stmt(state, s):
    """moving (part of) a holder local into another local transfers guard ownership"""
    r = s["r"]
    if r["k"] not in ("Use", "Agg", "Cast"):
        return state
    dst = s["p"][0]
    moved_from = set()
    for o in r.get("o", []):
        if o["k"] == "mv":
            moved_from.add(o["p"][0])
    if not moved_from:
        return state
    out = set()
    for h in state:
        if h.holders & moved_from:
            out.add(Held(h.lock, h.mode, h.family, h.site, (h.holders - moved_from) | {dst}))
        else:
            out.add(h)
    return out


class LockSummaries:
    """transitive 'may acquire' summary per body: {(lock, mode, family): (site, call chain)}"""

    def __init__(self, prog, krates=None):
        self.prog = prog
        self.krates = krates
        self.trans = {}
        bodies = [b for b in prog.bodies.values() if not krates or b.krate in krates]
        for b in bodies:
            acq = {}
            for c in b.calls:
                cl = classify(c)
                if cl:
                    acq.setdefault((lock_id(b, c), cl[1], cl[2]), (c.loc(), (b.id,)))
            self.trans[b.id] = acq
        # fixed point over the call graph (callee summaries flow to callers)
        callers = collections.defaultdict(set)
        for b in bodies:
            for tgt, how, c in prog.edges.get(b.id, []):
                if tgt in self.trans:
                    callers[tgt].add(b.id)
        work = collections.deque(b.id for b in bodies if self.trans[b.id])
        while work:
            cur = work.popleft()
            for par in callers.get(cur, ()):
                changed = False
                for k, (site, chain) in self.trans[cur].items():
                    if k not in self.trans[par] and len(chain) < 12:
                        self.trans[par][k] = (site, (par,) + chain)
                        changed = True
                if changed:
                    work.append(par)

    def acquires(self, bid):
        return self.trans.get(bid, {})

    def call_acquires(self, call):
        """locks a call may take: {(lock, mode, family): (site, chain)} - the modelled acquire itself, or
        the summaries of every workspace body the call may execute"""
        out = {}
        cl = classify(call)
        if cl:
            out[(lock_id(call.body, call), cl[1], cl[2])] = (call.loc(), ())
        for tgt in self.prog.call_targets(call):
            for k, v in self.acquires(tgt).items():
                out.setdefault(k, v)
        return out
