"""E-err: what happens to the Err of a fallible call. For a call whose value is a `Result`, classify the treatment of the
error at this call site:
  propagate  - `?` (Try::branch -> from_residual) or a match whose Err edge cannot reach an Ok return
  swallow    - the Err edge reaches a success return (logged / defaulted / ignored), the value is dropped unused, or it is
               fed to an adapter that forgets the error (`.ok()`, `.unwrap_or*()`, `.is_ok()`, `.is_err()`, `let _ =`)
  escapes    - the Result itself is returned / stored / passed on (the caller decides)
"""
import re
from .facts import op_local, uses_of_local
from .lib import result_local, copies_of, enum_switches, assigns_variant, return_holders, is_discarded

FORGET = re.compile(r"\bResult::<T, E>::(ok|unwrap_or|unwrap_or_default|unwrap_or_else|is_ok|is_err|is_ok_and|is_err_and|map_or|map_or_else|iter|into_iter)$")
KEEP = re.compile(r"\bResult::<T, E>::(map_err|map|and_then|or_else|inspect_err|inspect|as_ref|as_mut|context|with_context)$|\bInto>?::into$|\bFrom>?::from$")
PANIC = re.compile(r"\bResult::<T, E>::(unwrap|expect|unwrap_err|expect_err)$")


def is_result_ty(ty):
    return bool(re.match(r"(core::result::Result<|std::io::Result<|[\w:]*::Result<)", ty or ""))


def ok_returns(body):
    """blocks that assign a success value to the return place: Ok(..) aggregates; for bodies that do not return a Result,
    every return block"""
    oks = set(assigns_variant(body, "Ok", adt_pat=r"result::Result"))
    return oks


def classify(body, call, ok_blocks=None, depth=0):
    """-> (kind, detail)"""
    loc, at = result_local(body, call)
    seen = set()
    work = [loc]
    kinds = []
    oks = ok_blocks if ok_blocks is not None else ok_returns(body)
    rets_result = bool(oks) or bool(assigns_variant(body, "Err", adt_pat=r"result::Result"))
    holders = return_holders(body)
    while work:
        l = work.pop()
        for h in copies_of(body, l):
            if h in seen:
                continue
            seen.add(h)
            if h in holders:
                kinds.append(("escapes", "returned"))
            for (bb, m, other, via_try) in enum_switches(body, h):
                if via_try:
                    kinds.append(("propagate", "?"))
                    continue
                # Err edge: variant 1; `if let Ok(..)` puts Err on the otherwise edge
                tgt = m.get(1, other if 0 in m else None)
                if tgt is None:
                    continue
                reach = body.reachable([tgt])
                if not rets_result:
                    kinds.append(("swallow", "matched in a function that cannot report it"))
                elif reach & oks:
                    kinds.append(("swallow", "Err arm continues to a success return"))
                else:
                    kinds.append(("propagate", "Err arm returns an error"))
            for c in body.calls:
                if not c.args or op_local(c.args[0]) != h:
                    if any(op_local(a) == h for a in c.args[1:]):
                        kinds.append(("escapes", "argument of %s" % c.name.split("::")[-1]))
                    continue
                if FORGET.search(c.name):
                    kinds.append(("swallow", "." + c.name.split("::")[-1] + "()"))
                elif PANIC.search(c.name):
                    kinds.append(("propagate", "panics on Err"))
                elif KEEP.search(c.name) or KEEP.search(c.orig_name or ""):
                    if c.dest[0] not in seen:
                        work.append(c.dest[0])
                elif re.search(r"\bTry>?::branch$", c.orig_name or c.name):
                    pass
                else:
                    kinds.append(("escapes", "argument of %s" % c.name.split("::")[-1]))
            # stored into a field / aggregate
            for i, j, s in body.stmts():
                r = s["r"]
                if r["k"] == "Agg" and any(op_local(o) == h for o in r.get("o", [])):
                    kinds.append(("escapes", "stored in an aggregate"))
    if not kinds:
        return ("swallow", "value dropped unused")
    for k in ("swallow", "escapes", "propagate"):
        for (kk, d) in kinds:
            if kk == k:
                return (kk, d)
    return kinds[0]


# ---------------------------------------------------------------------------------------------------------------------
# rule template: a success return never hides the failure of a persistence step
# ---------------------------------------------------------------------------------------------------------------------
PERSIST = re.compile(r"^(save\w*|flush\w*|sync_\w+|fsync|fdatasync|write\w*|rename|append\w*|persist\w*|checkpoint\w*|commit\w*|store\w*|set_len|truncate\w*|"
                     r"put\w*|add_entry|update_entry|remove_entry|create|create_new|create_dir_all|hard_link|copy|set_permissions)$")
NOISE = re.compile(r"Result::<T, E>::|Try>?::branch$|from_residual$|fmt::|Formatter|write_fmt$|write_str$|into_future$|new_unchecked$|::poll$|"
                   r"\b(Mutex|RwLock)\b.*::(lock|try_lock|read|write|try_read|try_write)$|\bRwLock::<T>::(read|write)$|\bMutex::<T>::lock$")


def call_is_result(prog, body, c):
    from .lib import awaited
    ty = body.local_ty(c.dest[0]) if c.dest else ""
    if is_result_ty(ty):
        return True
    if body.coroutine:
        aw = awaited(body, c)
        if aw and is_result_ty(body.local_ty(aw[1])):
            return True
    return False


def persist_sites(prog, krate, scope_pat=None, callee_pat=PERSIST):
    """[(body, call, kind, detail)] for every fallible persistence call in the scope"""
    out = []
    for b in prog.bodies.values():
        if b.krate != krate or (scope_pat and not re.search(scope_pat, b.id)):
            continue
        for c in b.calls:
            if NOISE.search(c.name):
                continue
            short = c.name.split("::")[-1]
            if not callee_pat.search(short):
                continue
            if not call_is_result(prog, b, c):
                continue
            k, d = classify(b, c)
            out.append((b, c, k, d))
    return out


def rule_persist(ctx, rule, krate, scope_pat, allow, floor, what):
    """every fallible persistence call in scope: its Err must not be swallowed, except the frozen, reasoned sites in `allow`
    ({(caller stable id suffix, callee short name): (max count, reason)})"""
    ctx.rule(rule, "a success return never hides the failure of a persistence step (%s): the Err of every fallible save/flush/sync/"
                   "write/rename/append/put call is propagated, panics, or escapes to the caller; swallow sites are a frozen table with reasons" % what)
    sites = persist_sites(ctx.prog, krate, scope_pat)
    ctx.floor(rule, len(sites), floor, "fallible persistence call sites in %s" % what)
    used = {}
    for (b, c, k, d) in sites:
        ctx.saw(b)
        ctx.call_sites += 1
        short = c.name.split("::")[-1]
        sid = ctx._stable(b.id)
        if k != "swallow":
            ctx.ok(rule, [b.id, short, c.bb], "%s (%s)" % (k, d), c.loc(), nontrivial=(k == "propagate" and d != "?"),
                   sample={"caller": sid, "callee": c.name, "treatment": k, "how": d})
            continue
        ent = None
        for (cal, cee), v in allow.items():
            if sid.endswith(cal) and cee == short:
                ent = ((cal, cee), v)
        if ent:
            used[ent[0]] = used.get(ent[0], 0) + 1
            if used[ent[0]] <= ent[1][0]:
                ctx.ok(rule, [b.id, short, "allowed", c.bb], "swallowed by design: " + ent[1][1], c.loc(), nontrivial=False)
                continue
        ctx.bad(rule, [b.id, short, "swallowed"],
                "%s: the error of %s is swallowed (%s) and the function can still return success: the caller is told the data was stored "
                "while the persistence step failed" % (sid, c.name, d), c.loc())
