"""Checker self-test: runs the shared engines on the witness crate (selftest/src/lib.rs, analysed by the same driver in
the same extraction) and states which witnesses must be reported and which must stay silent. A missed positive or a reported
negative makes the check exit 2 (checker broken), never 0."""
import re


def body(ctx, item, ty=None):
    bs = [b for b in ctx.prog.bodies.values() if b.krate == "verif_selftest" and b.item == item and not b.root]
    if not bs:
        raise RuntimeError("selftest witness %s missing from the witness crate facts" % item)
    return bs[0]


def coroutine(ctx, item):
    bs = [b for b in ctx.prog.bodies.values() if b.krate == "verif_selftest" and b.item == item and b.coroutine]
    if not bs:
        raise RuntimeError("selftest async witness %s missing" % item)
    return bs[0]


def fam_lock(ctx):
    from .locks import held_analysis, LockSummaries, SYNC_FAMILIES
    rule = "ST.lock"
    LS = LockSummaries(ctx.prog, krates=["verif_selftest"])
    for item in ("reentrant_bad", "reentrant_ok"):
        b = body(ctx, item)
        at, births = held_analysis(b)
        hit = False
        for c in b.calls:
            held = at.get(c.bb)
            if not held:
                continue
            acq = LS.call_acquires(c)
            for h in held:
                for (lock, mode, fam), (site, chain) in acq.items():
                    if lock == h.lock and (mode == "excl" or h.mode == "excl"):
                        hit = True
        (ctx.bad if hit else ctx.ok)(rule, [item], "re-entrant acquisition" if hit else "no re-entrancy", b.loc())
    for item in ("across_await_bad", "across_await_ok"):
        b = coroutine(ctx, item)
        at, births = held_analysis(b)
        hit = any(h.family in SYNC_FAMILIES for i in b.live_blocks() if b.blocks[i]["t"]["k"] == "Yield" for h in at.get(i, ()))
        (ctx.bad if hit else ctx.ok)(rule, [item], "sync guard across await" if hit else "no guard across await", b.loc())
    # a second read() of a fair RwLock this task already read-holds (C11.R4 reentrant-read)
    from .c11 import FAIR_FAMILIES, nonatomic_replacements
    for item in ("reread_bad", "reread_ok"):
        b = body(ctx, item)
        at, births = held_analysis(b)
        hit = False
        for c in b.calls:
            for h in at.get(c.bb) or ():
                for (lock, mode, fam), (site, chain) in LS.call_acquires(c).items():
                    if lock == h.lock and mode != "excl" and h.mode != "excl" and (fam in FAIR_FAMILIES or h.family in FAIR_FAMILIES):
                        hit = True
        (ctx.bad if hit else ctx.ok)(rule, [item], "re-entrant read of a fair RwLock" if hit else "no re-entrant read", b.loc())
    # remove(k) then insert(k) on one concurrent map (C11.R10)
    for item in ("replace_two_steps_bad", "replace_one_step_ok"):
        b = body(ctx, item)
        hit = bool(nonatomic_replacements(b))
        (ctx.bad if hit else ctx.ok)(rule, [item], "overwrite in two map operations" if hit else "overwrite is one insert", b.loc())
    return {"must_report": ["ST.lock|reentrant_bad", "ST.lock|across_await_bad", "ST.lock|reread_bad", "ST.lock|replace_two_steps_bad"],
            "must_not_report": ["ST.lock|reentrant_ok", "ST.lock|across_await_ok", "ST.lock|reread_ok", "ST.lock|replace_one_step_ok"]}


def fam_gate(ctx):
    from .c05 import flows_to_consumer
    rule = "ST.gate"
    for item in ("discard_bad", "discard_ok", "discard_ok_branch"):
        b = body(ctx, item)
        c = b.calls_matching(r"Section::append$")[0]
        used = flows_to_consumer(b, c.dest[0])
        (ctx.ok if used else ctx.bad)(rule, [item], "result consumed" if used else "result discarded", c.loc())
    return {"must_report": ["ST.gate|discard_bad"], "must_not_report": ["ST.gate|discard_ok", "ST.gate|discard_ok_branch"]}


def fam_publish(ctx):
    from . import c06
    sub = type(ctx)(ctx.prog, ctx.prop, ctx.tier, selftest=True)
    res = {}
    for item in ("save_nosync_bad", "save_ok", "save_noflush_bad", "save_flush_ok", "save_sync_unchecked_bad"):
        b = body(ctx, item)
        create = b.calls_matching(c06.CREATE.pattern)[0]
        ren = b.calls_matching(c06.RENAME.pattern)[0]
        before = len(sub.violations)
        c06.analyse_writer(sub, "C06.R1", b, create, {ren.bb}, "rename")
        bad = len(sub.violations) > before
        (ctx.bad if bad else ctx.ok)("ST.publish", [item], "publish protocol violated" if bad else "publish protocol holds", b.loc())
    return {"must_report": ["ST.publish|save_nosync_bad", "ST.publish|save_noflush_bad", "ST.publish|save_sync_unchecked_bad"],
            "must_not_report": ["ST.publish|save_ok", "ST.publish|save_flush_ok"]}


def fam_taint(ctx):
    from . import c02
    items = ["parse_alloc_bad", "parse_alloc_clamped_ok", "parse_alloc_guarded_ok", "parse_alloc_narrow_ok", "parse_alloc_len_ok",
             "parse_alloc_after_loop_ok", "parse_alloc_before_loop_bad", "parse_alloc_after_idle_loop_bad"]
    ents = [body(ctx, i).id for i in items]
    cl = ctx.prog.closure_of(ents)
    sub = type(ctx)(ctx.prog, ctx.prop, ctx.tier, selftest=True)
    c02.r2_alloc(sub, ents, cl)
    reported = {v.key for v in sub.violations}
    for i in items:
        bid = body(ctx, i).id
        hit = any(bid in k for k in reported)
        (ctx.bad if hit else ctx.ok)("ST.taint", [i], "unbounded input-derived allocation" if hit else "bounded / not input-derived", body(ctx, i).loc())
    return {"must_report": ["ST.taint|parse_alloc_bad", "ST.taint|parse_alloc_before_loop_bad", "ST.taint|parse_alloc_after_idle_loop_bad"],
            "must_not_report": ["ST.taint|parse_alloc_clamped_ok", "ST.taint|parse_alloc_guarded_ok", "ST.taint|parse_alloc_narrow_ok", "ST.taint|parse_alloc_len_ok",
                                "ST.taint|parse_alloc_after_loop_ok"]}


def fam_panic(ctx):
    from . import panicreach as pr
    for i in ("parse_panic_bad", "parse_panic_ok", "parse_tryinto_ok"):
        b = body(ctx, i)
        cl = pr.reach(ctx.prog, [b.id])
        hit = False
        for bid in cl:
            bb = ctx.prog.bodies[bid]
            for c in pr.panic_sites(bb):
                if not pr.infallible_try_into(bb, c):
                    hit = True
        (ctx.bad if hit else ctx.ok)("ST.panic", [i], "explicit panic reachable" if hit else "no explicit panic reachable", b.loc())
    return {"must_report": ["ST.panic|parse_panic_bad"], "must_not_report": ["ST.panic|parse_panic_ok", "ST.panic|parse_tryinto_ok"]}


def fam_loop(ctx):
    from .c12 import every_iteration
    for i in ("clear_all_ok", "clear_short_circuit_bad"):
        b = body(ctx, i)
        nx = b.calls_matching(r"\bIterator>?::next$")[0]
        cl = b.calls_matching(r"\bVec::<T, A>::clear$")[0]
        ok = every_iteration(b, nx, cl.bb)
        (ctx.ok if ok else ctx.bad)("ST.loop", [i], "per-element op on every iteration" if ok else "an iteration path skips the per-element op", b.loc())
    return {"must_report": ["ST.loop|clear_short_circuit_bad"], "must_not_report": ["ST.loop|clear_all_ok"]}


def fam_slice(ctx):
    """provenance: the allocation size of parse_alloc_bad derives from from_le_bytes (through the header struct literal, field
    sensitively: `count`, not `small`); parse_alloc_len_ok's does not"""
    from .facts import op_local, Slice
    for i, want in (("parse_alloc_bad", True), ("parse_alloc_len_ok", False)):
        b = body(ctx, i)
        c = b.calls_matching(r"\bVec::<T>::with_capacity$")[0]
        sl = Slice(b, [op_local(c.args[0])], transparent=True)
        # follow into read_header through the call (interprocedural facts are the caller's business; here: field read present?)
        from_hdr = sl.has_field("count")
        (ctx.bad if from_hdr else ctx.ok)("ST.slice", [i], "size derives from the parsed header field" if from_hdr else "size does not derive from a parsed field", c.loc())
    return {"must_report": ["ST.slice|parse_alloc_bad"], "must_not_report": ["ST.slice|parse_alloc_len_ok"]}


def fam_readloop(ctx):
    from .lib import zero_read_leaves_loop
    for i in ("read_loop_eof_ok", "read_loop_total_bad"):
        b = body(ctx, i)
        c = b.calls_matching(r"BufRead>?::read_line$")[0]
        ok = zero_read_leaves_loop(b, c)
        (ctx.ok if ok else ctx.bad)("ST.readloop", [i], "Ok(0) leaves the loop" if ok else "no exit on this read's own Ok(0)", c.loc())
    from .lib import read_count_uses
    for i in ("short_read_used_ok", "short_read_ignored_bad"):
        b = body(ctx, i)
        c = b.calls_matching(r"\bRead>?::read$")[0]
        uses, counts = read_count_uses(b, c)
        ok = bool(uses - {"cmp"})
        (ctx.ok if ok else ctx.bad)("ST.readloop", [i], "the count bounds what is consumed" if ok else "the count is only compared", c.loc())
    return {"must_report": ["ST.readloop|read_loop_total_bad", "ST.readloop|short_read_ignored_bad"],
            "must_not_report": ["ST.readloop|read_loop_eof_ok", "ST.readloop|short_read_used_ok"]}


def fam_fold(ctx):
    from .c19 import lost_accumulation
    for i in ("fold_accumulate_ok", "fold_overwrite_bad"):
        b = body(ctx, i)
        hit = bool(lost_accumulation(b))
        (ctx.bad if hit else ctx.ok)("ST.fold", [i], "accumulator overwritten in the loop" if hit else "combination reads its accumulator", b.loc())
    return {"must_report": ["ST.fold|fold_overwrite_bad"], "must_not_report": ["ST.fold|fold_accumulate_ok"]}


def fam_bounds(ctx):
    from . import bounds, c02
    items = ["bounds_guarded_ok", "bounds_stale_guard_bad", "bounds_unguarded_bad", "bounds_callee_pre_bad", "bounds_callee_pre_ok"]
    ids = {body(ctx, i).id: i for i in items}
    helper = body(ctx, "key_at").id
    cl = set(ids) | {helper}
    res, req = bounds.analyse_closure(ctx.prog, cl, krate_prefix="verif_selftest")
    for bid, i in ids.items():
        hit = False
        for sk in res[bid].sinks:
            if getattr(sk, "delegated", None) or sk.proven:
                continue
            if any(c02.strict_input(t_, set()) for t_ in sk.taint):
                hit = True
        (ctx.bad if hit else ctx.ok)("ST.bounds", [i], "input-derived index not proven in bounds" if hit else "every input-derived index proven in bounds", body(ctx, i).loc())
    # fields behind `&mut self`: a write (here or in a callee that got the reborrow) makes the field another value
    fitems = ["bounds_field_write_bad", "bounds_field_write_ok", "bounds_field_callee_write_bad"]
    fids = {body(ctx, i).id: i for i in fitems}
    res2, _ = bounds.analyse_closure(ctx.prog, set(fids) | {body(ctx, "advance").id}, krate_prefix="verif_selftest")
    for bid, i in fids.items():
        hit = any(not sk.proven and sk.kind == "bounds" for sk in res2[bid].sinks)
        (ctx.bad if hit else ctx.ok)("ST.bounds", [i], "index by a field not proven in bounds" if hit else "index by a field proven in bounds", body(ctx, i).loc())
    # division by an input value, str offsets
    ditems = ["div_unguarded_bad", "div_guarded_ok", "str_prefix_bad", "str_find_ok", "str_find_closure_plus_one_bad", "str_get_ok"]
    dids = {body(ctx, i).id: i for i in ditems}
    res3, _ = bounds.analyse_closure(ctx.prog, set(dids), krate_prefix="verif_selftest")
    for bid, i in dids.items():
        kind = "divzero" if i.startswith("div_") else "charboundary"
        hit = any(not sk.proven and sk.kind == kind for sk in res3[bid].sinks)
        (ctx.bad if hit else ctx.ok)("ST.bounds", [i], "%s not proven" % kind if hit else "%s proven (or no such operation)" % kind, body(ctx, i).loc())
    return {"must_report": ["ST.bounds|bounds_stale_guard_bad", "ST.bounds|bounds_unguarded_bad", "ST.bounds|bounds_callee_pre_bad",
                            "ST.bounds|bounds_field_write_bad", "ST.bounds|bounds_field_callee_write_bad", "ST.bounds|div_unguarded_bad",
                            "ST.bounds|str_prefix_bad", "ST.bounds|str_find_closure_plus_one_bad"],
            "must_not_report": ["ST.bounds|bounds_guarded_ok", "ST.bounds|bounds_callee_pre_ok", "ST.bounds|bounds_field_write_ok", "ST.bounds|div_guarded_ok",
                                "ST.bounds|str_find_ok", "ST.bounds|str_get_ok"]}


def fam_errflow(ctx):
    from . import errflow
    sites = errflow.persist_sites(ctx.prog, "verif_selftest")
    by = {}
    for (b, c, k, d) in sites:
        by.setdefault(b.item, []).append(k)
    for i in ("persist_propagate_ok", "persist_swallow_bad", "persist_discard_bad"):
        ks = by.get(i, [])
        if not ks:
            raise RuntimeError("selftest: no persistence call site found in %s" % i)
        hit = "swallow" in ks
        (ctx.bad if hit else ctx.ok)("ST.errflow", [i], "persistence error swallowed" if hit else "persistence error propagated", body(ctx, i).loc())
    return {"must_report": ["ST.errflow|persist_swallow_bad", "ST.errflow|persist_discard_bad"], "must_not_report": ["ST.errflow|persist_propagate_ok"]}


def fam_recursion(ctx):
    from . import c02
    ids = {body(ctx, i).id: i for i in ("rec_unbounded_bad", "rec_param_ok", "rec_field_ok")}
    cl = {b.id for b in ctx.prog.bodies.values() if b.krate == "verif_selftest"}
    seen = {}
    for comp, bounded in c02.recursive_cycles(ctx.prog, cl, prefixes=("verif_selftest",)):
        for m in comp:
            if m in ids:
                seen[ids[m]] = bounded
    for i in ("rec_unbounded_bad", "rec_param_ok", "rec_field_ok"):
        if i not in seen:
            raise RuntimeError("selftest: recursion witness %s not found as a cycle" % i)
        (ctx.ok if seen[i] else ctx.bad)("ST.recursion", [i], "depth counter compared with a limit" if seen[i] else "no depth counter", body(ctx, i).loc())
    return {"must_report": ["ST.recursion|rec_unbounded_bad"], "must_not_report": ["ST.recursion|rec_param_ok", "ST.recursion|rec_field_ok"]}


def fam_dirty(ctx):
    from . import dirtyflag
    from .engine import Ctx
    sub = Ctx(ctx.prog, ctx.prop, ctx.tier, selftest=True)
    n = dirtyflag.rule_dirty(sub, "ST.dirty", ["verif_selftest"])
    if n < 4:
        raise RuntimeError("selftest: dirty-flag discovery found %d entry points in the witness crate, expected at least 4" % n)
    bad = {v.key.split("::")[-1] for v in sub.violations}
    for i in ("dirty_add_ok", "dirty_pop_ok", "dirty_touch_bad", "dirty_flush_then_add_bad"):
        b = body(ctx, i)
        (ctx.bad if i in bad else ctx.ok)("ST.dirty", [i], "unmarked mutation reported" if i in bad else "flag set on every mutating path", b.loc())
    return {"must_report": ["ST.dirty|dirty_touch_bad", "ST.dirty|dirty_flush_then_add_bad"], "must_not_report": ["ST.dirty|dirty_add_ok", "ST.dirty|dirty_pop_ok"]}


def fam_stale(ctx):
    from . import stale
    from .engine import Ctx
    sub = Ctx(ctx.prog, ctx.prop, ctx.tier, selftest=True)
    n = stale.rule_stale(sub, "ST.stale", "verif_selftest", r"src/")
    if n < 3:
        raise RuntimeError("selftest: E-stale examined %d methods in the witness crate, expected at least 3" % n)
    bad = {v.key.split("|")[1].split("::")[-1] for v in sub.violations}
    for i in ("stale_link_bad", "stale_known_ok", "stale_fresh_ok"):
        b = body(ctx, i)
        (ctx.bad if i in bad else ctx.ok)("ST.stale", [i], "stale snapshot written back" if i in bad else "silent", b.loc())
    return {"must_report": ["ST.stale|stale_link_bad"], "must_not_report": ["ST.stale|stale_known_ok", "ST.stale|stale_fresh_ok"]}


def fam_drop(ctx):
    from . import dropped
    from .engine import Ctx
    sub = Ctx(ctx.prog, ctx.prop, ctx.tier, selftest=True)
    n = dropped.rule_dropped(sub, "ST.drop", ["verif_selftest"], r"src/", allowed={})
    if n < 2:
        raise RuntimeError("selftest: E-drop found %d call sites of bool functions in the witness crate, expected at least 2" % n)
    bad = {v.key.split("|")[1].split("::")[-1] for v in sub.violations}
    for i in ("discard_bad", "discard_ok", "discard_ok_branch"):
        b = body(ctx, i)
        (ctx.bad if i in bad else ctx.ok)("ST.drop", [i], "dropped bool reported" if i in bad else "silent", b.loc())
    return {"must_report": ["ST.drop|discard_bad"], "must_not_report": ["ST.drop|discard_ok", "ST.drop|discard_ok_branch"]}


def fam_bitfield(ctx):
    from . import bitfield
    from .engine import Ctx
    sub = Ctx(ctx.prog, ctx.prop, ctx.tier, selftest=True)
    n = bitfield.rule_bitfields(sub, "ST.bits", ["verif_selftest"])
    if n < 3:
        raise RuntimeError("selftest: E-bitfield found %d masks in the witness crate, expected at least 3" % n)
    bad = {v.key.split("|")[1].split("::")[-1] for v in sub.violations}
    for i in ("pack_fields_ok", "pack_fields_bad", "unpack_fields_ok"):
        (ctx.bad if i in bad else ctx.ok)("ST.bits", [i], "mask is not 2^shift - 1" if i in bad else "silent", body(ctx, i).loc())
    return {"must_report": ["ST.bits|pack_fields_bad"], "must_not_report": ["ST.bits|pack_fields_ok", "ST.bits|unpack_fields_ok"]}


def fam_names(ctx):
    from . import siblingfield
    hits = {i: bool(siblingfield.mixups(ctx.prog, body(ctx, i))) for i in ("sibling_sizes_ok", "sibling_sizes_bad")}
    for i, h in hits.items():
        (ctx.bad if h else ctx.ok)("ST.names", [i], "sibling fields mixed up" if h else "silent", body(ctx, i).loc())
    return {"must_report": ["ST.names|sibling_sizes_bad"], "must_not_report": ["ST.names|sibling_sizes_ok"]}


FAMILIES = {"names": fam_names, "bitfield": fam_bitfield, "drop": fam_drop, "stale": fam_stale, "dirty": fam_dirty, "recursion": fam_recursion, "bounds": fam_bounds, "errflow": fam_errflow, "fold": fam_fold, "readloop": fam_readloop, "lock": fam_lock, "gate": fam_gate, "publish": fam_publish, "taint": fam_taint, "panic": fam_panic, "loop": fam_loop, "slice": fam_slice}


def for_families(names):
    def run(ctx):
        exp = {"must_report": [], "must_not_report": []}
        for n in names:
            e = FAMILIES[n](ctx)
            exp["must_report"] += e["must_report"]
            exp["must_not_report"] += e["must_not_report"]
        return exp
    return run
