"""E-bitfield - the fields of a packed word partition it.

A body that packs `(hi << S) | (lo & M)` or unpacks `w >> S` and `w & M` treats the word as two adjacent bit fields: the low field is S bits wide, so its
mask is 2^S - 1. A mask narrower than that drops the top bits of the low field on the way in or out (symmetrically in writer and reader, so a
same-process round trip still agrees); a wider one lets the fields overlap. By discovery: every body that applies a low mask of more than 8 bits AND
a constant shift of at least 8; each such mask must be 2^S - 1 for one of the body's shifts."""
from .facts import op_local, op_const


def lowmask(c):
    return c > 0xff and (c & (c + 1)) == 0


def rule_bitfields(ctx, rule, krates, floor=0):
    ctx.rule(rule, "in a body that both masks (low mask wider than 8 bits) and shifts by a constant >= 8, every mask is 2^S - 1 for one of the shifts")
    n = 0
    for b in sorted(ctx.prog.bodies.values(), key=lambda x: x.id):
        if b.krate not in krates or b.expn:
            continue
        masks, shifts = [], []
        for (i, j, st) in b.stmts():
            r = st["r"]
            if r["k"] != "Bin" or i not in b.live_blocks():
                continue
            for (ci, vi) in ((1, 0), (0, 1)):
                c = op_const(r["o"][ci])
                if c is None or op_local(r["o"][vi]) is None:
                    continue
                try:
                    c = int(c)
                except (TypeError, ValueError):
                    continue
                if r["op"] == "BitAnd" and lowmask(c):
                    masks.append((c, st.get("l", 0)))
                if ci == 1 and r["op"] in ("Shr", "Shl", "ShrUnchecked", "ShlUnchecked") and c >= 8:
                    shifts.append((c, st.get("l", 0)))
        if not masks or not shifts:
            continue
        ctx.saw(b)
        widths = {s for (s, _l) in shifts}
        for (m, line) in masks:
            n += 1
            ok = any(m == (1 << s) - 1 for s in widths)
            ctx.check(ok, rule, [b.id, "mask", hex(m)], "mask %s is 2^%d - 1" % (hex(m), m.bit_length()),
                      "%s masks a packed word with %s (%d bits) next to a shift by %s: the low field of that word is as wide as the shift, so the mask must be "
                      "2^S - 1 - this one %s, and the value read back differs from the value written for every field value at or above 2^%d" %
                      (ctx._stable(b.id), hex(m), m.bit_length(), sorted(widths), "drops the top bits of the low field" if all(m < (1 << s) - 1 for s in widths) else "overlaps the neighbouring field", m.bit_length()),
                      "%s:%d" % (b.file, line), sample={"in": b.id, "mask": hex(m), "shifts": sorted(widths)})
    if floor:
        ctx.floor(rule, n, floor, "masks next to shifts in one body")
    return n
