"""C18 - compaction never loses or overwrites live data (structural clauses)."""
import re
from .facts import op_local, Slice, place_fields, op_const
from .lib import must_pass, bool_switches, enum_switches, assigns_variant, copies_of
from .c05 import enum_switches_through
from .c12 import some_edge
from .cachebooks import recv_fields

CRATES = ["cascette_client_storage"]

EXPLANATION = (
    "Static rules over the MIR of storage/compaction.rs. R1: in extract_compact_segment validate_spans dominates every file mutation "
    "(compact_in_place, set_len, write) and its Err edge reaches none; the span slice that is walked is sorted by offset in place (by the "
    "body itself, or by a callee that receives it mutably and sorts its own parameter, not a copy). R2: validate_spans sorts before it "
    "scans and compares end(i) with offset(i+1) over a range bounded by len-1. R3: compact_in_place is reachable only through the true edge "
    "of `span.offset > write_pos` (forward chunked copy is safe only when source > destination), its source/destination arguments derive from "
    "span.offset / the write cursor, and the cursor advances by span.length on every iteration path. R4: in plan_archive_merge every planned "
    "move is reachable only through the true edge of the capacity comparison against segment_size, and all non-incremental assignments to the "
    "destination cursor agree in provenance. Resulting file contents and bytes-saved arithmetic are not decided.")

ASSUMPTIONS = ["resulting file = concatenation of live spans, bytes-saved arithmetic and non-overlap of planned moves in general are not decided"]

FILE = r"storage/compaction\.rs$"


def fn(ctx, rule, item):
    bs = [b for b in ctx.prog.bodies.values() if b.item == item and not b.root and re.search(FILE, b.file)]
    if not ctx.anchor(rule, bs, "compaction::%s" % item):
        return None
    return bs[0]


def user_var(b, name):
    for i, d in enumerate(b.locals):
        if d.get("n") == name:
            return i
    return None


def r1_validate_first(ctx):
    rule = "C18.R1"
    ctx.rule(rule, "overlap validation dominates every mutation; the walked slice is the slice that was sorted")
    b = fn(ctx, rule, "extract_compact_segment")
    if not b:
        return
    ctx.saw(b)
    val = b.calls_matching(r"compaction::validate_spans$")
    muts = b.calls_matching(r"CompactionFileMover::(compact_in_place|move_data)$|fs::File::set_len$|\bWrite>?::write(_all)?$")
    if not (ctx.anchor(rule, val, "validate_spans call") and ctx.anchor(rule, muts, "file mutations in extract_compact_segment")):
        return
    v = val[0]
    err_reach = set()
    for (ebb, m, other, via) in enum_switches_through(b, v.dest[0]):
        if 1 in m:
            err_reach = b.reachable([m[1]])
    for n, mc in enumerate(muts):
        ctx.check(b.dominates(v.bb, mc.bb) and mc.bb not in err_reach, rule, [b.id, "dominates", mc.name.split("::")[-1], n],
                  "validation precedes the mutation and a refusal skips it",
                  "extract_compact_segment can reach %s without a successful validate_spans: overlapping span sets are no longer refused with the file untouched" % mc.name.split("::")[-1],
                  mc.loc(), sample={"validate": v.loc(), "mutation": mc.loc()})
    # sortedness of the walked slice
    spans_param = 2  # (file, spans, mover)
    own_sort = [c for c in b.calls_matching(r"slice::<impl \[T\]>::sort\w*$") if spans_param in Slice(b, [op_local(c.args[0])]).locals]
    ok = bool(own_sort)
    why = "sorted in extract_compact_segment itself"
    if not ok:
        # callee receives the slice mutably and sorts its parameter in place
        tgt = [ctx.prog.bodies[t] for t in ctx.prog.call_targets(v)]
        if tgt:
            vb = tgt[0]
            ctx.saw(vb)
            pty = vb.local_ty(1)
            sorts = vb.calls_matching(r"slice::<impl \[T\]>::sort\w*$")
            in_place = False
            for sc in sorts:
                sl = Slice(vb, [op_local(sc.args[0])], transparent=re.compile(r"\bDeref(Mut)?>?::deref(_mut)?$"))
                copies = [x for x in Slice(vb, [op_local(sc.args[0])], transparent=True).calls if re.search(r"::to_vec$|\bClone>?::clone$|::to_owned$|\bFrom<.*>>?::from$|::collect$", x.name)]
                if 1 in sl.locals and not copies:
                    in_place = True
            passes_same = spans_param in Slice(b, [op_local(v.args[0])]).locals
            ok = pty.startswith("&mut ") and in_place and passes_same
            why = "validate_spans(%s) sorts its parameter in place=%s" % (pty, in_place)
    ctx.check(ok, rule, [b.id, "walks-sorted-slice"], "the slice walked with the running write cursor is sorted by offset (%s)" % why,
              "extract_compact_segment walks `spans` with a running write position assuming ascending offsets, but nothing sorts that slice any more "
              "(%s): with unsorted non-overlapping input a later span is moved on top of a live earlier one, which is then skipped - live data is lost silently" % why,
              v.loc(), sample={"sorted_by": why})


def r2_validate_shape(ctx):
    rule = "C18.R2"
    ctx.rule(rule, "validate_spans: sort, then compare end(i) with offset(i+1) for all adjacent pairs")
    b = fn(ctx, rule, "validate_spans")
    if not b:
        return
    ctx.saw(b)
    sorts = b.calls_matching(r"slice::<impl \[T\]>::sort\w*$")
    ends = b.calls_matching(r"DataSpan::end$")
    if not (ctx.anchor(rule, sorts, "sort in validate_spans") and ctx.anchor(rule, ends, "DataSpan::end in validate_spans")):
        return
    s = sorts[0]
    # the overlap comparison: Gt/Ge/Lt/Le with one side from end() and the other from field offset
    cmps = []
    for i, j, st in b.stmts():
        r = st["r"]
        if r["k"] == "Bin" and r["op"] in ("Gt", "Ge", "Lt", "Le"):
            a, c = r["o"]
            sa = Slice(b, [op_local(a)]) if op_local(a) is not None else None
            sc = Slice(b, [op_local(c)]) if op_local(c) is not None else None
            a_end = bool(sa) and any(e in sa.calls for e in ends)
            c_end = bool(sc) and any(e in sc.calls for e in ends)
            a_off = (a["k"] in ("cp", "mv") and "offset" in place_fields(a["p"])) or (bool(sa) and sa.has_field("offset") and not a_end)
            c_off = (c["k"] in ("cp", "mv") and "offset" in place_fields(c["p"])) or (bool(sc) and sc.has_field("offset") and not c_end)
            if (a_end and c_off) or (c_end and a_off):
                cmps.append((i, j, st, a_end))
    if not ctx.anchor(rule, cmps, "comparison of end(i) with offset(i+1)"):
        return
    (ci, cj, cst, end_left) = cmps[0]
    op = cst["r"]["op"]
    # overlap iff end > next.offset  (Gt with end on the left, Lt with end on the right); Ge/Le would refuse adjacent spans
    strict = (op == "Gt" and end_left) or (op == "Lt" and not end_left)
    errb = set(assigns_variant(b, "Err"))
    sw = bool_switches(b, cst["p"][0])
    refuses = any(b.reachable([tt]) & errb for (sbb, tt, ft) in sw)
    ctx.check(b.dominates(s.bb, ci) and strict and refuses, rule, [b.id, "sort-then-scan"], "sort dominates the scan; overlap iff end(i) > offset(i+1) -> Err",
              "validate_spans no longer sorts before scanning, or its overlap test is not `end(i) > offset(i+1)` leading to Err (op=%s, end-on-left=%s, refuses=%s)" % (op, end_left, refuses),
              "%s:%d" % (b.file, cst["l"]), sample={"sort": s.loc(), "cmp_op": op})
    # the comparison is evaluated on every iteration: a conjunct in front of it (`spans[i+1].length > 0 && ..`) lets a pair pass
    # unexamined, and since only adjacent pairs are compared, the pair it hides can be the only witness of an overlap
    from .c12 import every_iteration
    nxs = [c for c in b.calls if re.search(r"\bIterator>?::next$", c.orig_name or c.name) and ci in b.reachable(b.succ[c.bb]) and c.bb in b.reachable(b.succ[ci])]
    if ctx.anchor(rule, nxs, "loop around the adjacent-pair comparison"):
        ctx.check(every_iteration(b, nxs[0], ci), rule, [b.id, "every-pair-compared"], "every iteration reaches the end/offset comparison",
                  "validate_spans skips the end(i) > offset(i+1) comparison on some iteration path (a guard in front of it): the skipped pair is "
                  "never examined, and with only adjacent pairs compared an overlap straddling it is accepted", "%s:%d" % (b.file, cst["l"]))
    # loop over 0..len-1
    rng = [st for i, j, st in b.stmts() if st["r"]["k"] == "Agg" and st["r"].get("variant") == "Range"]
    ok = False
    for st in rng:
        hi = st["r"]["o"][1]
        if op_local(hi) is not None:
            sl = Slice(b, [op_local(hi)], transparent=None)
            minus1 = any(o[0] in ("SubWithOverflow", "Sub") and any(op_const(x) == 1 for x in o[1]) for o in sl.ops)
            from_len = any(re.search(r"::len$", c.name) for c in sl.calls)
            lo = op_const(st["r"]["o"][0])
            if minus1 and from_len and lo == 0:
                ok = True
    ctx.check(ok, rule, [b.id, "all-pairs"], "scan covers all adjacent pairs (0..len-1)",
              "validate_spans does not scan all adjacent pairs (range is not 0..len()-1): an overlap at the uncovered position is accepted", b.loc())


def r3_copy_direction(ctx):
    rule = "C18.R3"
    ctx.rule(rule, "in-place move only when source offset > write cursor; cursor advances by span.length on every iteration")
    b = fn(ctx, rule, "extract_compact_segment")
    if not b:
        return
    mv = b.calls_matching(r"CompactionFileMover::compact_in_place$")
    if not ctx.anchor(rule, mv, "compact_in_place call"):
        return
    wp = user_var(b, "write_pos")
    for n, c in enumerate(mv):
        # controlling comparison
        good = False
        for i, j, st in b.stmts():
            r = st["r"]
            if r["k"] == "Bin" and r["op"] in ("Gt", "Lt"):
                a, d = r["o"]
                la, ld = op_local(a), op_local(d)
                a_off = (a["k"] in ("cp", "mv") and "offset" in place_fields(a["p"])) or (la is not None and Slice(b, [la]).has_field("offset"))
                d_off = (d["k"] in ("cp", "mv") and "offset" in place_fields(d["p"])) or (ld is not None and Slice(b, [ld]).has_field("offset"))
                a_wp = la is not None and wp is not None and wp in Slice(b, [la]).locals
                d_wp = ld is not None and wp is not None and wp in Slice(b, [ld]).locals
                src_gt_dst = (r["op"] == "Gt" and a_off and d_wp) or (r["op"] == "Lt" and a_wp and d_off)
                if not src_gt_dst:
                    continue
                for (sbb, tt, ft) in bool_switches(b, st["p"][0]):
                    if c.bb in b.reachable([tt], avoid={sbb}) and c.bb not in b.reachable([ft], avoid={sbb}):
                        good = True
        ctx.check(good, rule, [b.id, "guarded", n], "compact_in_place only under span.offset > write_pos",
                  "extract_compact_segment calls compact_in_place without the guard `span.offset > write_pos`: the chunked forward copy overwrites its own "
                  "source when the destination is not strictly below it", c.loc())
        # argument provenance: (self, file, src, dst, len)
        if len(c.args) >= 5 and wp is not None:
            s_src = Slice(b, [op_local(c.args[2])]) if op_local(c.args[2]) is not None else None
            s_dst = Slice(b, [op_local(c.args[3])]) if op_local(c.args[3]) is not None else None
            s_len = Slice(b, [op_local(c.args[4])]) if op_local(c.args[4]) is not None else None
            okp = bool(s_src) and s_src.has_field("offset") and bool(s_dst) and wp in s_dst.locals and bool(s_len) and s_len.has_field("length")
            ctx.check(okp, rule, [b.id, "args", n], "source=span.offset, destination=write cursor, length=span.length",
                      "extract_compact_segment passes compact_in_place arguments that do not derive from (span.offset, write_pos, span.length) in that order", c.loc())
    # cursor advance on every iteration
    nexts = b.calls_matching(r"\bIterator>?::next$")
    if ctx.anchor(rule, nexts, "loop over spans") and ctx.anchor(rule, wp is not None, "write cursor variable"):
        nx = nexts[0]
        adv = set()
        for (bb, idx, kind, payload) in b.defs.get(wp, []):
            if kind == "assign":
                sl = Slice(b, [op_local(o) for o in payload["r"].get("o", []) if op_local(o) is not None], transparent=None)
                if any(o[0] in ("AddWithOverflow", "Add") for o in sl.ops) and sl.has_field("length") and wp in sl.locals:
                    adv.add(bb)
        se = some_edge(b, nx)
        ok = bool(adv) and se is not None and nx.bb not in b.reachable([se], avoid=adv)
        ctx.check(ok, rule, [b.id, "cursor-advances"], "write cursor += span.length on every iteration path",
                  "extract_compact_segment has an iteration path that does not advance the write cursor by span.length (e.g. only when a gap was moved): the "
                  "next span is copied onto live data", nx.loc(), sample={"advance_blocks": sorted(adv)})


def r4_planner(ctx):
    rule = "C18.R4"
    ctx.rule(rule, "every planned move passed the capacity test; the destination cursor is initialised consistently")
    b = fn(ctx, rule, "plan_archive_merge")
    if not b:
        return
    ctx.saw(b)
    pushes = [c for c in b.calls_matching(r"\bVec::<T, A>::push$") if "moves" in recv_fields(b, c)]
    if not ctx.anchor(rule, pushes, "plan.moves.push in plan_archive_merge"):
        return
    seg_size = user_var(b, "segment_size")
    cur = user_var(b, "dest_used")
    caps = []
    for i, j, st in b.stmts():
        r = st["r"]
        if r["k"] == "Bin" and r["op"] in ("Le", "Lt", "Ge", "Gt"):
            sl = Slice(b, [op_local(o) for o in r["o"] if op_local(o) is not None])
            if seg_size in sl.locals and (cur is None or cur in sl.locals):
                fits_when_true = r["op"] in ("Le", "Lt") and seg_size in (Slice(b, [op_local(r["o"][1])]).locals if op_local(r["o"][1]) is not None else ())
                fits_when_true = fits_when_true or (r["op"] in ("Ge", "Gt") and seg_size in (Slice(b, [op_local(r["o"][0])]).locals if op_local(r["o"][0]) is not None else ()))
                caps.append((i, st, fits_when_true))
    if not caps and cur is not None:
        # the cursor IS compared - with something that is not the segment size the caller gave
        other = []
        for i, j, st in b.stmts():
            r = st["r"]
            if r["k"] == "Bin" and r["op"] in ("Le", "Lt", "Ge", "Gt"):
                sl = Slice(b, [op_local(o) for o in r["o"] if op_local(o) is not None])
                if cur in sl.locals and (seg_size is None or seg_size not in sl.locals):
                    other.append(st)
        if other:
            ctx.bad(rule, [b.id, "capacity-not-the-argument"],
                    "plan_archive_merge tests the destination cursor against a bound that does not derive from its `segment_size` argument (a constant or another "
                    "value, line %s): for any segment size other than that bound the plan fills a destination beyond its size" % other[0].get("l", "?"),
                    "%s:%s" % (b.file, other[0].get("l", 0)))
            return
    if not ctx.anchor(rule, caps, "capacity comparison against segment_size in plan_archive_merge"):
        return
    for n, p in enumerate(pushes):
        good = False
        for (ci, st, fits_true) in caps:
            for (sbb, tt, ft) in bool_switches(b, st["p"][0]):
                fit, nofit = (tt, ft) if fits_true else (ft, tt)
                if p.bb in b.reachable([fit], avoid={sbb}) and p.bb not in b.reachable([nofit], avoid={sbb}):
                    good = True
        ctx.check(good, rule, [b.id, "move-fits", n], "a move is planned only on the `fits` edge of the capacity test",
                  "plan_archive_merge can push a move without (re-)testing `dest_used + source_used <= segment_size` for the destination it uses: after rolling "
                  "over to the next destination the move is planned unchecked and can end beyond the segment size", p.loc())
        # dest_offset of the move derives from the cursor
    # cursor initialisation consistency (contradiction rule)
    if ctx.anchor(rule, cur is not None, "destination cursor variable (dest_used)"):
        kinds = {}
        for (bb, idx, kind, payload) in b.defs.get(cur, []):
            if kind != "assign":
                kinds.setdefault("call", []).append(payload.line)
                continue
            r = payload["r"]
            roots = [op_local(o) for o in r.get("o", []) if op_local(o) is not None]
            sl = Slice(b, roots, transparent=re.compile(r"\bIndex<.*>>?::index$|\bDeref>?::deref$"))
            if cur in sl.locals:
                continue  # incremental update
            c = op_const(r["o"][0]) if r["k"] == "Use" and r.get("o") else None
            if c is not None:
                kinds.setdefault("const %d" % c, []).append(payload["l"])
            elif sl.has_call(r"\bIndex<.*>>?::index$") or any(re.search(r"^\d+$", str(f[-1])) for f in sl.fields):
                kinds.setdefault("sources[dest].used", []).append(payload["l"])
            else:
                kinds.setdefault("other", []).append(payload["l"])
        ctx.check(len(kinds) <= 1, rule, [b.id, "cursor-init"], "all (re)initialisations of the destination cursor agree",
                  "plan_archive_merge initialises the destination cursor inconsistently (%s): the first destination starts at 0 although it already holds its "
                  "own `used` bytes (later destinations start at their used size), so the first moves are planned onto bytes the destination segment already uses" %
                  {k: v for k, v in kinds.items()}, b.loc(), sample={"initialisations": kinds})


def r5_saved_from_file(ctx):
    """'reports the bytes saved truthfully' and 'the file is exactly the live bytes': once the spans were validated, every success return of
    extract_compact_segment reports a value computed from the file's length (and the truncation decision is taken from it) - a constant Ok(0)
    behind the validation ("nothing to move") leaves a dead tail in place and reports nothing saved"""
    rule = "C18.R5"
    ctx.rule(rule, "after validate_spans every Ok(n) of extract_compact_segment derives n from the file's length")
    b = fn(ctx, rule, "extract_compact_segment")
    if not b:
        return
    ctx.saw(b)
    vs = b.calls_matching(r"compaction::validate_spans$")
    if not ctx.anchor(rule, vs, "validate_spans call in extract_compact_segment"):
        return
    after = b.reachable(b.succ[vs[0].bb])
    n = 0
    for (i, j, st) in assigns_variant(b, "Ok", adt_pat=r"result::Result", with_stmt=True):
        if i not in after or i not in b.live_blocks():
            continue
        o = st["r"]["o"][0] if st["r"].get("o") else None
        n += 1
        l = op_local(o) if o is not None else None
        from_len = False
        if l is not None:
            sl = Slice(b, [l], transparent=True)
            from_len = any(re.search(r"fs::Metadata::len$|\bSeek>?::(seek|stream_position)$", c.name + " " + (c.orig_name or "")) for c in sl.calls)
        ctx.check(from_len, rule, [b.id, "saved-from-file-length"], "the reported saving derives from the file's length",
                  "extract_compact_segment returns Ok(%s) after the spans were validated without looking at the file's length: a file whose live spans are already "
                  "contiguous but which has dead bytes behind the last span keeps them, and 0 bytes are reported as saved" % (op_const(o) if o is not None and o["k"] == "c" else "a value that does not depend on it"),
                  "%s:%s" % (b.file, st.get("l", 0)), sample={"ok_line": st.get("l", 0)})
    ctx.floor(rule, n, 1, "Ok returns of extract_compact_segment behind the validation")


def run(ctx):
    # E-drop (rules/dropped.py): no bool result of a function of these modules is thrown away by a caller anywhere in the workspace
    from . import dropped
    dropped.rule_dropped(ctx, "C18.R6", [k for k in ["cascette_formats", "cascette_client_storage", "cascette_cache", "cascette_protocol", "cascette_ribbit"] if k in (CRATES or [])] or CRATES, r"client-storage/src/storage/(compaction|segment)", floor=0)
    r5_saved_from_file(ctx)
    r1_validate_first(ctx)
    r2_validate_shape(ctx)
    r3_copy_direction(ctx)
    r4_planner(ctx)


from .selftest import for_families as _ff  # noqa: E402
selftest = _ff(['slice', 'gate', 'drop'])
