"""C03 - content resolution (structural clauses: sibling agreement of the root header-layout predicates and of the
archive-index page geometry)."""
import re
from .facts import op_local, Slice, place_fields, op_const
from .lib import copies_of

CRATES = ["cascette_formats", "cascette_crypto", "cascette_client_storage"]

EXPLANATION = (
    "Static sibling cross-checks over the MIR of cascette_formats. R1: RootVersion::detect and RootHeader::read each decide 'extended vs "
    "classic header' from the first two u32 values after the magic; the comparison atoms (variable role, operator, constant / other "
    "variable; Range::contains and matches! ranges included) evaluated on those two values before any further input is read are "
    "extracted from both bodies and must be equal after normalisation - a file accepted as one layout by the detector must be read with "
    "the same layout by the reader. R2: every ArchiveIndex lookup/validation routine that maps a table-of-contents page onto the flat "
    "entry slice takes the records-per-page figure from the footer-derived records_per_block(), never from a constant (siblings must agree "
    "on the page geometry the parser used). Binary-search boundaries, TOC prefix comparison, batch = single agreement and the resolver "
    "chain are value-level and not decided.")

ASSUMPTIONS = ["only the two sibling-agreement clauses are decided; lookup correctness itself is value-level"]


def value_vars(b):
    """the first two u32 user variables that are filled from input (from_{le,be}_bytes or a u32-returning reader closure)"""
    cands = []
    for l, d in enumerate(b.locals):
        if not d.get("u") or b.local_ty(l) != "u32" or d.get("n") in ("val", "residual"):
            continue
        defs = b.defs.get(l, [])
        if not defs:
            continue
        src = False
        for (bb, idx, kind, payload) in defs:
            sl = Slice(b, [l], transparent=re.compile(r"\bTry>?::branch$|\bFn(Mut|Once)?<.*>>?::call(_mut|_once)?$"))
            if sl.has_call(r"from_(le|be)_bytes$") or any(re.search(r"\bFn(Mut|Once)?<.*>>?::call", c.name) or re.search(r"\{closure#\d+\}$", c.name) for c in sl.calls):
                src = True
        if src:
            first = min((payload["l"] if kind == "assign" else payload.line) for (bb, idx, kind, payload) in defs)
            cands.append((first, l))
    cands.sort()
    return [l for (_, l) in cands[:2]]


def later_reads(b, v2):
    """blocks of input reads that happen after v2 has been read"""
    out = set()
    v2_defs = {bb for (bb, idx, kind, payload) in b.defs.get(v2, [])}
    for c in b.calls:
        if re.search(r"\bRead>?::read_exact$|RootHeaderInfo::read$|\bRead>?::read$|\bBinRead>?::read", c.name) or re.search(r"\{closure#\d+\}$", c.name):
            if any(c.bb in b.reachable(b.succ[d]) for d in v2_defs) and not any(d in b.reachable([c.bb]) and d != c.bb for d in v2_defs if False):
                # strictly after every definition of v2
                if all(c.bb in b.reachable(b.succ[d]) and d not in b.reachable(b.succ[c.bb]) for d in v2_defs):
                    out.add(c.bb)
    return out


FLIP = {"Lt": "Gt", "Le": "Ge", "Gt": "Lt", "Ge": "Le", "Eq": "Eq", "Ne": "Ne"}


def atoms(b):
    vs = value_vars(b)
    if len(vs) < 2:
        return None, vs
    v1, v2 = vs
    cls = {v1: set(copies_of(b, v1)), v2: set(copies_of(b, v2))}
    # references to the variables (`&value1` handed to contains)
    refs = {v1: set(), v2: set()}
    for i, j, s in b.stmts():
        if s["r"]["k"] == "Ref" and len(s["r"]["p"]) == 1:
            for v in (v1, v2):
                if s["r"]["p"][0] in cls[v]:
                    refs[v].add(s["p"][0])
    stop = later_reads(b, v2)
    blocked = set()
    for sb in stop:
        blocked |= b.reachable(b.succ[sb])

    def role(op):
        l = op_local(op)
        if l is None:
            return None
        for name, v in (("v1", v1), ("v2", v2)):
            if l in cls[v]:
                return name
            if op["k"] in ("cp", "mv") and len(op["p"]) == 2 and op["p"][1] == "*" and l in refs[v]:
                return name
        return None

    out = set()
    for i, j, s in b.stmts():
        if i in blocked or i not in b.live_blocks():
            continue
        r = s["r"]
        if r["k"] == "Bin" and r["op"] in FLIP:
            a, c = r["o"]
            ra, rc = role(a), role(c)
            if ra and (op_const(c) is not None or rc):
                out.add((ra, r["op"], rc or op_const(c)))
            elif rc and op_const(a) is not None:
                out.add((rc, FLIP[r["op"]], op_const(a)))
    for c in b.calls:
        if c.bb in blocked or c.bb not in b.live_blocks():
            continue
        if re.search(r"\bRange(Inclusive)?::<Idx>::contains$|\bRangeBounds<.*>>?::contains$", c.name) and len(c.args) == 2:
            item = None
            for v, nm in ((v1, "v1"), (v2, "v2")):
                l = op_local(c.args[1])
                if l in refs[v] or l in cls[v] or (l is not None and (Slice(b, [l], transparent=None).locals & (cls[v] | refs[v]))):
                    item = nm
            if not item:
                continue
            rs = Slice(b, [op_local(c.args[0])], transparent=None)
            consts = []
            if op_local(c.args[0]) is not None:
                for (bb_, idx_, st) in rs.stmts:
                    r = st["r"]
                    if r["k"] == "Agg" and r.get("variant", "").startswith("Range"):
                        consts = [op_const(o) for o in r["o"]]
                        incl = "Inclusive" in r.get("variant", "") or "Inclusive" in r.get("adt", "")
                for o in rs.consts:
                    if "promoted" in o:
                        for pc in b.promoted_consts(o["promoted"]):
                            pass
            if not consts or any(x is None for x in consts):
                # promoted constant range: read it from the promoted body
                for o in rs.consts:
                    if "promoted" in o and o["promoted"] < len(b.promoted):
                        for blk in b.promoted[o["promoted"]]["blocks"]:
                            for st in blk["s"]:
                                r = st["r"]
                                if r["k"] == "Agg" and r.get("variant", "").startswith("Range"):
                                    consts = [op_const(x) for x in r["o"]]
                                    incl = "Inclusive" in r.get("adt", "")
            if consts and len(consts) >= 2 and all(x is not None for x in consts[:2]):
                incl = "Inclusive" in c.name
                out.add((item, "Ge", consts[0]))
                out.add((item, "Le" if incl else "Lt", consts[1]))
    return out, vs


def normalise(at):
    """integer-normal form: Le c -> Lt c+1, Gt c -> Ge c+1 for constants"""
    out = set()
    for (v, op, rhs) in at:
        if isinstance(rhs, int):
            if op == "Le":
                op, rhs = "Lt", rhs + 1
            elif op == "Gt":
                op, rhs = "Ge", rhs + 1
        out.add((v, op, rhs))
    return out


def r1_layout_predicates(ctx):
    rule = "C03.R1"
    ctx.rule(rule, "RootVersion::detect and RootHeader::read use the same header-layout predicate")
    prog = ctx.prog
    det = [b for b in prog.bodies.values() if b.krate == "cascette_formats" and re.search(r"root/version\.rs$", b.file) and b.item == "detect"]
    rd = [b for b in prog.bodies.values() if b.krate == "cascette_formats" and re.search(r"root/header\.rs$", b.file) and b.item == "read" and (b.self_ty or "").endswith("RootHeader") and not b.root]
    if not (ctx.anchor(rule, det, "RootVersion::detect") and ctx.anchor(rule, rd, "RootHeader::read")):
        return
    da = None
    for b in det:
        a, vs = atoms(b)
        if a:
            da = (b, a)
            ctx.saw(b)
    ra, rvs = atoms(rd[0])
    ctx.saw(rd[0])
    if not (ctx.anchor(rule, da, "comparisons on the first two u32 values in RootVersion::detect") and ctx.anchor(rule, ra, "comparisons on the first two u32 values in RootHeader::read")):
        return
    d_n, r_n = normalise(da[1]), normalise(ra)
    # atoms that are implied trivially: `v2 >= 0` for unsigned
    only_d = sorted(d_n - r_n, key=str)
    only_r = sorted(r_n - d_n, key=str)
    ctx.check(not only_d and not only_r, rule, ["root", "layout-predicate"], "detector and reader agree",
              "the two root header-layout heuristics differ: RootVersion::detect tests %s, RootHeader::read tests %s (only in detect: %s; only in read: %s). A V2 "
              "manifest whose first two fields fall in the gap (16..99 total files and a named-file count the two predicates classify differently) is detected as "
              "one layout and read with the other: no inserted FileDataID resolves after build -> parse" % (sorted(d_n, key=str), sorted(r_n, key=str), only_d, only_r),
              rd[0].loc(), sample={"detect": sorted(map(str, d_n)), "read": sorted(map(str, r_n))})


def r2_page_geometry(ctx):
    rule = "C03.R2"
    ctx.rule(rule, "archive-index routines take the records-per-page figure from the footer, never from a constant")
    prog = ctx.prog
    bodies = [b for b in prog.bodies.values() if b.krate == "cascette_formats" and re.search(r"archive/index\.rs$", b.file) and (b.self_ty or "").endswith("::ArchiveIndex")]
    n = 0
    for b in sorted(bodies, key=lambda x: x.id):
        # multiplications / divisions that turn a page number into an entry index: page * N, where the product indexes self.entries
        for i, j, s in b.stmts():
            r = s["r"]
            if r["k"] != "Bin" or r["op"] not in ("Mul", "MulWithOverflow"):
                continue
            # does the product flow into an index/range of `entries`?
            tgt = s["p"][0]
            flows = False
            for c in b.calls:
                if re.search(r"\bIndex<.*>>?::index$|::get$|slice::<impl \[T\]>::(get|binary_search\w*|partition_point)$", c.name) and c.args:
                    for a in c.args[1:]:
                        l = op_local(a)
                        if l is not None and tgt in Slice(b, [l], transparent=None).locals:
                            fs = set()
                            if op_local(c.args[0]) is not None:
                                for f in Slice(b, [op_local(c.args[0])]).fields:
                                    fs |= set(f)
                            if "entries" in fs:
                                flows = True
            if not flows:
                continue
            n += 1
            ctx.saw(b)
            factor_ok = False
            why = []
            for o in r["o"]:
                l = op_local(o)
                if l is None:
                    if op_const(o) is not None and op_const(o) > 1:
                        why.append("constant %d" % op_const(o))
                    continue
                sl = Slice(b, [l], transparent=None)
                if sl.has_call(r"records_per_block$|records_per_page$") or sl.has_field("page_size_kb") or sl.has_field("footer"):
                    factor_ok = True
                for cst in sl.consts:
                    if cst.get("uneval") and re.search(r"MAX_ENTRIES_PER_CHUNK|ENTRIES_PER", cst.get("uneval", "") + cst.get("s", "")):
                        why.append("constant " + cst.get("uneval", "").split("::")[-1])
                v = [x for x in sl.int_consts() if x > 16]
                if v and not sl.calls:
                    why.append("constant %s" % v)
            ctx.check(factor_ok and not why, rule, [b.id, "page-geometry", s["l"] - b.lines[0]], "page -> entry mapping uses the footer-derived records per page",
                      "%s maps a table-of-contents page onto the entry slice with %s instead of the footer-derived records_per_block(): for key sizes / offset widths "
                      "other than the default the lookup searches the wrong window (inserted keys are not found, or the slice panics)" % (b.id, why or "a value not derived from the footer"),
                      "%s:%d" % (b.file, s["l"]), sample={"in": b.id})
    ctx.floor(rule, n, 1, "page-to-entry index computations in ArchiveIndex")


def r3_merge_advances(ctx):
    """k-way merge of archive indices into an archive group: every entry popped from the heap is replaced by the next entry of the
    archive it came from - also when the popped entry itself is a duplicate that is not written. A path through the loop body that
    skips the advance silently drops the rest of that archive: keys that were indexed resolve to nothing."""
    from .c12 import every_iteration
    from .lib import gate_of
    rule = "C03.R3"
    ctx.rule(rule, "archive_group::build_merged: the push of the popped source's successor (or its bounds test) lies on every iteration path of the pop loop")
    bs = [b for b in ctx.prog.bodies.values() if b.krate == "cascette_formats" and b.item == "build_merged" and not b.root and re.search(r"archive/archive_group\.rs$", b.file or "")]
    if not ctx.anchor(rule, bs, "archive_group::build_merged"):
        return
    b = bs[0]
    ctx.saw(b)
    pops = b.calls_matching(r"BinaryHeap::<T(, A)?>::pop$")
    if not ctx.anchor(rule, pops, "heap.pop() loop in build_merged"):
        return
    pop = pops[0]
    loop_blocks = {x for x in b.reachable(b.succ[pop.bb]) if pop.bb in b.reachable(b.succ[x])}
    pushes = [c for c in b.calls_matching(r"BinaryHeap::<T(, A)?>::push$") if c.bb in loop_blocks]
    if not ctx.anchor(rule, pushes, "heap.push() of the successor inside the pop loop"):
        return
    ok = any(every_iteration(b, pop, p.bb) or every_iteration(b, pop, gate_of(b, loop_blocks, p.bb)) for p in pushes)
    ctx.check(ok, rule, [b.id, "source-advanced-every-pop"], "every popped entry is replaced by its source's next entry",
              "build_merged has a path through the merge loop (an early `continue`, e.g. for a duplicate key) that does not push the next entry of the archive the "
              "popped entry came from: everything behind that entry in that archive is dropped from the group index - indexed keys resolve to nothing",
              pushes[0].loc(), sample={"pop": pop.loc(), "push": [p.loc() for p in pushes]})


def r4_one_id_per_delta(ctx):
    """root blocks store FileDataIDs as a delta list next to parallel arrays (content keys, name hashes) that are zipped with the
    decoded ids by position: the decoder used by the block parsers yields exactly one id per delta. A decoder that skips a delta
    (say on arithmetic overflow) shifts every later record onto another file's key."""
    from .c12 import every_iteration
    rule = "C03.R4"
    ctx.rule(rule, "every FileDataId-decoding loop reachable from the root block parsers pushes one id on every iteration path")
    ents = [b.id for b in ctx.prog.bodies.values() if b.krate == "cascette_formats" and not b.root and re.search(r"root/block\.rs$", b.file or "")
            and re.match(r"parse_v\d\w*block|parse_v1_block|parse_v2_block", b.item or "")]
    if not ctx.anchor(rule, ents, "root block parsers (parse_v1_block / parse_v2_block)"):
        return
    cl = ctx.prog.closure_of(ents)
    n = 0
    for bid in sorted(cl):
        b = ctx.prog.bodies.get(bid)
        if b is None or b.krate != "cascette_formats":
            continue
        pushes = [c for c in b.calls_matching(r"\bVec::<T, A>::push$") if len(c.args) > 1 and op_local(c.args[1]) is not None and
                  re.search(r"\bFileDataId$", b.local_ty(op_local(c.args[1])) or "")]
        nxs = [c for c in b.calls if re.search(r"\bIterator>?::next$", c.orig_name or c.name)]
        for p_ in pushes:
            loops = [nx for nx in nxs if p_.bb in b.reachable(b.succ[nx.bb]) and nx.bb in b.reachable(b.succ[p_.bb])]
            if not loops:
                continue
            n += 1
            ctx.saw(b)
            ctx.check(every_iteration(b, loops[0], p_.bb), rule, [b.id, "one-id-per-delta"], "the decoder pushes an id for every delta",
                      "%s (used by the root block parsers) can finish an iteration over the delta list without pushing an id: the id list comes out shorter than "
                      "the parallel content-key / name-hash arrays it is zipped with, so records shift - inserted FileDataIDs resolve to nothing or to another "
                      "file's content key" % ctx._stable(b.id), p_.loc())
    ctx.floor(rule, n, 1, "FileDataId decoding loops reachable from the root block parsers")


def r5_clear_only_caches(ctx, krate="cascette_client_storage", file_pat=r"src/resolver\.rs$", floor=2):
    """'clearing the caches' must not change what resolves. A map field of the resolver is a CACHE when some body looks it up and, on the miss path,
    fills it (get .. insert in one body): a cleared cache refills itself. A map that is only ever filled by a loader is primary state - clearing it
    makes every key of the loaded manifest resolve to nothing until the manifest is loaded again."""
    rule = "C03.R5"
    ctx.rule(rule, "a method of the resolver that clears map fields clears only fields that some body refills on a miss (get + insert in one body)")
    from .cachebooks import recv_fields
    MAPGET = re.compile(r"\b(DashMap|HashMap|BTreeMap)\b.*::(get|get_mut|contains_key)$")
    MAPINS = re.compile(r"\b(DashMap|HashMap|BTreeMap)\b.*::(insert|entry)$")
    MAPCLR = re.compile(r"\b(DashMap|HashMap|BTreeMap)\b.*::clear$")
    bodies = [b for b in ctx.prog.bodies.values() if b.krate == krate and re.search(file_pat, b.file or "")]
    refill = set()
    for b in bodies:
        gets, ins = set(), set()
        for c in b.calls:
            if c.bb not in b.live_blocks() or not c.args:
                continue
            fs = {f for f in recv_fields(b, c)}
            if MAPGET.search(c.name):
                gets |= fs
            elif MAPINS.search(c.name):
                ins |= fs
        refill |= gets & ins
    n = 0
    for b in sorted(bodies, key=lambda x: x.id):
        clears = [(c, recv_fields(b, c)) for c in b.calls if c.bb in b.live_blocks() and c.args and MAPCLR.search(c.name)]
        if len(clears) < 2:
            continue        # a method that empties several maps at once: the 'clear caches' role
        ctx.saw(b)
        for (c, fs) in clears:
            for f in sorted(fs):
                if str(f).startswith("upvar:"):
                    continue
                n += 1
                ctx.check(f in refill, rule, [b.id, "clears", f], "`%s` is refilled on a miss by a lookup path" % f,
                          "%s clears `%s`, which no lookup refills on a miss (it is only filled by a loader): after the call every key of the loaded manifest "
                          "resolves to nothing although the manifest is still loaded - clearing caches changes lookup results" % (ctx._stable(b.id), f), c.loc(),
                          sample={"method": b.id, "field": f, "refillable_fields": sorted(str(x) for x in refill)})
    ctx.floor(rule, n, floor, "map fields cleared by the resolver's cache-clearing method")


def run(ctx):
    r5_clear_only_caches(ctx)
    r4_one_id_per_delta(ctx)
    r3_merge_advances(ctx)
    r1_layout_predicates(ctx)
    r2_page_geometry(ctx)


from .selftest import for_families as _ff  # noqa: E402
selftest = _ff(['slice'])
