"""C14 - retries are bounded, ordered and respect backoff limits (structural clauses of RetryPolicy::execute)."""
import re
from .facts import op_local, Slice, place_fields, op_const, op_fconst
from .lib import (bool_switches, enum_switches, assigns_variant, must_pass, result_local, awaited, copies_of)
from .c05 import enum_switches_through

CRATES = ["cascette_protocol"]

EXPLANATION = (
    "Static rules over the MIR of RetryPolicy::execute's coroutine body (cascette-protocol), its natural loop around the user closure. "
    "R1 attempt bound: the loop counter is the integer local compared with self.max_attempts; from its initial constant, its unique +1 "
    "increment on every back edge and the exit comparison (operator, operand order, exit polarity) the closed form of invocations is "
    "derived and required to be <= max_attempts + 1. R2: every value assigned to the backoff variable - including the initial one - has a "
    "min/clamp with self.max_backoff in its slice. R3: every float->Duration conversion that can panic (from_secs_f64/f32, mul_f64/f32, "
    "div_f64/f32) on a policy-derived value is clamped above AND below (f64::min/max also absorb NaN). R4: the back edge is reachable only "
    "through should_retry()==true; the Retry-After hint reaches sleep() without passing the backoff value and the hint accessor does not "
    "filter hints by value; jitter is added, never subtracted, from a range with constant bounds within [0, 0.3]. R5: every closure run under "
    "the policy maps 429 to RateLimited carrying parse_retry_after(), 5xx to a retryable variant and other statuses to HttpStatus. "
    "Wall-clock delays are not decided.")

ASSUMPTIONS = ["actual wall-clock delays and Duration add overflow for absurd hints are not decided"]


def r_execute(ctx):
    prog = ctx.prog
    bs = [b for b in prog.find(self_ty=r"\bRetryPolicy\b", item="execute", closure=True) if b.coroutine]
    if not ctx.anchor("C14.R1", bs, "RetryPolicy::execute (async body)"):
        return
    b = bs[0]
    ctx.saw(b)
    ctx.rule("C14.R1", "invocations <= max_attempts + 1 (counter init, unique +1 per back edge, exit comparison)")
    ctx.rule("C14.R2", "every backoff value (incl. the initial one) is capped by max_backoff")
    ctx.rule("C14.R3", "no panicking float->Duration conversion on an unclamped policy value")
    ctx.rule("C14.R4", "retry only after should_retry(); Retry-After takes precedence; jitter in [0,0.3], added")
    # private helpers of the same file that execute() calls (a maintainer may extract the jitter / the backoff growth into functions): the
    # conversion, clamp and range rules look into them as well
    helpers = []
    work_ = [b]
    while work_:
        x_ = work_.pop()
        for c_ in x_.calls:
            hb_ = prog.bodies.get(c_.id) if c_.local else None
            if hb_ is not None and hb_.file == b.file and not hb_.coroutine and hb_ not in helpers and hb_ is not b and len(helpers) < 12:
                helpers.append(hb_)
                work_.append(hb_)
    fcalls = b.calls_matching(r"\bFnMut<.*>>?::call_mut$|\bFnOnce<.*>>?::call_once$|\bFn<.*>>?::call$")
    if not ctx.anchor("C14.R1", fcalls, "invocation of the user closure in execute"):
        return
    f = fcalls[0]
    rl, land = result_local(b, f)
    ok_e = err_e = None
    for (sbb, m, other, via) in enum_switches(b, rl, through_try=False):
        if 0 in m and 1 in m:
            ok_e, err_e = m[0], m[1]
    if not ctx.anchor("C14.R1", err_e is not None, "match on the closure's result"):
        return
    okret = set(assigns_variant(b, "Ok"))
    # success returns at once
    ctx.check(f.bb not in b.reachable([ok_e]) and bool(b.reachable([ok_e]) & okret), "C14.R1", [b.id, "ok-returns"], "first success is returned",
              "execute() can call the operation again after it succeeded", f.loc())
    # ---- R1: counter ----------------------------------------------------------------------------------------
    cmp = None
    for i, j, s in b.stmts():
        r = s["r"]
        if r["k"] == "Bin" and r["op"] in ("Ge", "Gt", "Lt", "Le", "Eq", "Ne"):
            sides = []
            for o in r["o"]:
                l = op_local(o)
                isf = False
                if l is not None:
                    sl = Slice(b, [l])
                    isf = sl.has_field("max_attempts") or ("max_attempts" in place_fields(o["p"]))
                sides.append(isf)
            if sides.count(True) == 1:
                cmp = (i, j, s, sides.index(True))
    if not ctx.anchor("C14.R1", cmp, "comparison of the attempt counter with self.max_attempts"):
        return
    (ci, cj, cs, max_side) = cmp
    k_op = cs["r"]["o"][1 - max_side]
    K = set(copies_of(b, op_local(k_op))) if op_local(k_op) is not None else set()
    # user variable among them
    kvars = [l for l in K if b.locals[l].get("u")] or list(K)
    # the counter variable: follow copies backwards too (`_x = copy attempt`)
    back = set(K)
    changed = True
    while changed:
        changed = False
        for i, j, s in b.stmts():
            if s["p"][0] in back and len(s["p"]) == 1 and s["r"]["k"] == "Use":
                o = s["r"]["o"][0]
                if o["k"] in ("cp", "mv") and len(o["p"]) == 1 and o["p"][0] not in back:
                    back.add(o["p"][0])
                    changed = True
    uvars = [l for l in back if b.locals[l].get("u")]
    if not ctx.anchor("C14.R1", uvars, "attempt counter variable"):
        return
    kv = uvars[0]
    inits, incs, others = [], [], []
    for (bb, idx, kind, payload) in b.defs.get(kv, []):
        if kind != "assign":
            others.append((bb, "call"))
            continue
        r = payload["r"]
        if r["k"] == "Use" and op_const(r["o"][0]) is not None:
            inits.append((bb, op_const(r["o"][0])))
        elif r["k"] == "Use" and op_local(r["o"][0]) is not None:
            # result of AddWithOverflow(k, 1)
            sl = Slice(b, [op_local(r["o"][0])], transparent=None)
            adds = [o for o in sl.ops if o[0] in ("AddWithOverflow", "Add", "AddUnchecked")]
            if adds and any(op_const(x) == 1 for x in adds[0][1]) and kv in sl.locals:
                incs.append(bb)
            else:
                others.append((bb, "assign"))
        elif r["k"] == "Bin" and r["op"] in ("Add", "AddUnchecked") and any(op_const(x) == 1 for x in r["o"]):
            incs.append(bb)
        else:
            others.append((bb, r["k"]))
    sw = bool_switches(b, cs["p"][0])
    op = cs["r"]["op"]
    exit_when_true = None
    for (sbb, tt, ft) in sw:
        t_loops = f.bb in b.reachable([tt])
        f_loops = f.bb in b.reachable([ft])
        if t_loops != f_loops:
            exit_when_true = not t_loops
    # normalise to a predicate on K (left) vs max (right)
    if max_side == 0:
        op = {"Ge": "Le", "Gt": "Lt", "Lt": "Gt", "Le": "Ge", "Eq": "Eq", "Ne": "Ne"}[op]
    exit_pred = op if exit_when_true else {"Ge": "Lt", "Gt": "Le", "Lt": "Ge", "Le": "Gt", "Eq": "Ne", "Ne": "Eq"}.get(op)
    c0 = inits[0][1] if inits else None
    good_exit = exit_pred in ("Ge", "Eq") and exit_when_true is not None
    extra = {"Ge": 1, "Eq": 1, "Gt": 2}.get(exit_pred)
    ctx.check(good_exit and c0 is not None and c0 >= 0 and len(inits) == 1 and not others, "C14.R1", [b.id, "bound"],
              "exit when attempt >= max_attempts, counter starts at %s" % c0,
              "execute(): the loop exits when `attempt %s max_attempts` with the counter starting at %s (other writes: %s): the operation is invoked up to "
              "max_attempts + %s times instead of at most max_attempts + 1" % (exit_pred, c0, others, (extra if extra is not None else "?") if c0 in (0, None) else "?"),
              "%s:%d" % (b.file, cs["l"]), sample={"counter": b.local_name(kv), "init": c0, "exit_predicate": "attempt %s max_attempts" % exit_pred,
                                                  "invocations": "max_attempts + 1" if good_exit and c0 == 0 else "?"})
    # every back edge passes the increment and the comparison
    incb = set(incs)
    ctx.check(bool(incb) and must_pass(b, err_e, {f.bb}, incb), "C14.R1", [b.id, "increment-on-every-retry"], "every retry path increments the counter once",
              "execute() has a path from a failed attempt back to the next attempt that does not increment the attempt counter: unbounded retries", f.loc(),
              sample={"increment_blocks": sorted(incb)})
    ctx.check(must_pass(b, err_e, {f.bb}, {ci}), "C14.R1", [b.id, "bound-checked-on-every-retry"], "every retry path evaluates the bound",
              "execute() can retry without comparing the attempt counter with max_attempts", f.loc())
    # ---- R4a: should_retry gating ---------------------------------------------------------------------------
    sr = b.calls_matching(r"ProtocolError::should_retry$")
    if ctx.anchor("C14.R4", sr, "should_retry() in execute"):
        s0 = sr[0]
        gated = must_pass(b, err_e, {f.bb}, {s0.bb})
        nonretry_stops = all(f.bb not in b.reachable([ft]) for (sbb, tt, ft) in bool_switches(b, s0.dest[0])) and bool(bool_switches(b, s0.dest[0]))
        ctx.check(gated and nonretry_stops, "C14.R4", [b.id, "retry-gate"], "retry only when should_retry() is true",
                  "execute() retries without consulting should_retry(), or retries after a non-retryable error", s0.loc())
    # ---- sleep / delay --------------------------------------------------------------------------------------
    sl_calls = b.calls_matching(r"retry::sleep$|tokio::time::sleep::sleep$")
    if not ctx.anchor("C14.R2", sl_calls, "sleep(delay) in execute"):
        return
    sp = sl_calls[0]
    d_local = op_local(sp.args[0])
    dsl = Slice(b, [d_local], transparent=True)
    # the backoff variable: in the delay's slice and initialised from self.initial_backoff
    bvar = None
    for l in sorted(dsl.locals):
        if not b.locals[l].get("u"):
            continue
        for (bb, idx, kind, payload) in b.defs.get(l, []):
            if direct_field(b, kind, payload, "initial_backoff"):
                bvar = l
    if ctx.anchor("C14.R2", bvar is not None, "backoff variable (initialised from self.initial_backoff, flows into sleep)"):
        for n, (bb, idx, kind, payload) in enumerate(b.defs.get(bvar, [])):
            srcsl = def_slice(b, kind, payload)
            capped = any(re.search(r"::(min|clamp)$", c.name) for c in srcsl.calls) and srcsl.has_field("max_backoff")
            if not capped:
                # the value comes out of a helper: its return value is capped there
                from .lib import return_holders
                for hc in srcsl.calls:
                    hb_ = prog.bodies.get(hc.id) if hc.local else None
                    if hb_ in helpers:
                        rs_ = Slice(hb_, list(return_holders(hb_)), transparent=True)
                        if any(re.search(r"::(min|clamp)$", c.name) for c in rs_.calls) and rs_.has_field("max_backoff"):
                            capped = True
            line = payload["l"] if kind == "assign" else payload.line
            which = "initial" if srcsl.has_field("initial_backoff") and bvar not in srcsl.locals else "update"
            ctx.check(capped, "C14.R2", [b.id, "backoff-capped", which], "backoff value is capped by max_backoff",
                      "execute(): the %s backoff value is not capped by self.max_backoff: with initial_backoff > max_backoff the first waits exceed the "
                      "configured maximum" % which if which == "initial" else
                      "execute(): a backoff update is not capped by self.max_backoff: delays grow without bound", "%s:%d" % (b.file, line),
                      sample={"assignment": which, "line": line})
    # ---- R3: panicking conversions --------------------------------------------------------------------------
    conv = [(b, c) for c in b.calls_matching(r"\bDuration::(from_secs_f64|from_secs_f32|mul_f64|mul_f32|div_f64|div_f32)$")]
    for hb_ in helpers:
        conv += [(hb_, c) for c in hb_.calls_matching(r"\bDuration::(from_secs_f64|from_secs_f32|mul_f64|mul_f32|div_f64|div_f32)$")]
    # the fallible conversions cannot panic: they count as conversions that are safe by construction (fix cfcb90c uses try_from_secs_f64)
    safe_conv = [c for hb_ in [b] + helpers for c in hb_.calls_matching(r"\bDuration::(try_from_secs_f64|try_from_secs_f32)$")]
    for c in safe_conv:
        ctx.ok("C14.R3", [b.id, c.name.split("::")[-1], "fallible"], "fallible conversion (returns Err instead of panicking)", c.loc(), sample={"conversion": c.loc()})
    b_exec = b
    for n, (b, c) in enumerate(conv):
        meth = c.name.split("::")[-1]
        if meth.startswith("from_secs"):
            a = Slice(b, [op_local(c.args[0])], transparent=True) if op_local(c.args[0]) is not None else None
            policy = bool(a) and (a.has_field("multiplier") or a.has_field("max_backoff") or a.has_field("initial_backoff"))
            upper, lower = clamp_sides(b, c.args[0])
            ctx.check((not policy) or (upper and lower), "C14.R3", [b.id, meth, "clamped"], "argument is clamped above and below",
                      "execute(): Duration::%s receives a policy-derived float that is %s: a %s CASCETTE_BACKOFF_MULTIPLIER makes it panic "
                      "('cannot convert float seconds to Duration')" % (meth, "not clamped from below" if upper and not lower else ("not clamped from above" if lower and not upper else "not clamped"),
                                                                       "negative" if upper and not lower else "huge/NaN"), c.loc(),
                      sample={"conversion": c.loc(), "upper_clamp": upper, "lower_clamp": lower})
        else:
            a = Slice(b, [op_local(x) for x in c.args if op_local(x) is not None], transparent=True)
            policy = a.has_field("multiplier")
            ctx.check(not policy, "C14.R3", [b.id, meth, "policy-factor"], "no Duration::%s with a policy-derived factor" % meth,
                      "execute(): Duration::%s multiplies by the configured multiplier before any clamp: NaN, infinite, huge or negative multipliers panic "
                      "inside the conversion, before `.min(max_backoff)` can apply" % meth, c.loc())
    b = b_exec
    ctx.floor("C14.R3", len(conv) + len(safe_conv), 1, "float->Duration conversions in execute (and the private helpers it calls)")
    # ---- R4b: Retry-After precedence and jitter -------------------------------------------------------------
    hint = b.calls_matching(r"ProtocolError::retry_after_hint$")
    if ctx.anchor("C14.R4", hint, "retry_after_hint() in execute"):
        h = hint[0]
        in_delay = h in dsl.calls or h.dest[0] in dsl.locals
        # on the Some edge the delay must not read the backoff variable before sleep
        some_ok = True
        for (sbb, m, other, via) in enum_switches(b, h.dest[0], through_try=False):
            if 1 in m and 0 in m:
                some_only = b.reachable([m[1]], avoid={sp.bb}) - b.reachable([m[0]], avoid={sp.bb})
                for i, j, s in b.stmts():
                    if i in some_only and bvar is not None and any(op_local(o) == bvar for o in s["r"].get("o", [])):
                        some_ok = False
                # the hint must be consulted before sleeping on every retry path
        passes = must_pass(b, err_e, {sp.bb}, {h.bb})
        ctx.check(in_delay and some_ok and passes, "C14.R4", [b.id, "hint-precedence"], "Retry-After hint, when present, is the delay",
                  "execute() ignores the server's Retry-After hint or mixes the exponential backoff into it", h.loc(),
                  sample={"hint_call": h.loc(), "flows_to_sleep": in_delay})
    rr = [(b, c) for c in b.calls_matching(r"random_range$|gen_range$")]
    for hb_ in helpers:
        rr += [(hb_, c) for c in hb_.calls_matching(r"random_range$|gen_range$")]
    if ctx.anchor("C14.R4", rr, "jitter random_range in execute (or a private helper it calls)"):
        for (b, c) in rr:
            lo = hi = None
            for a in c.args[1:]:
                if op_local(a) is None:
                    continue
                s2 = Slice(b, [op_local(a)], transparent=None)
                for (bb_, idx_, st) in s2.stmts:
                    r = st["r"]
                    if r["k"] == "Agg" and r.get("variant", "").startswith("Range") and len(r["o"]) == 2:
                        lo, hi = op_fconst(r["o"][0]), op_fconst(r["o"][1])
            if lo is not None and hi is not None:
                ctx.check(0.0 <= lo < hi <= 0.3 + 1e-12, "C14.R4", [b.id, "jitter-range"], "jitter factor range within [0, 0.3] and not empty",
                          "execute(): jitter factor range is %s..%s (not a non-empty constant range within [0, 0.3]): the wait can exceed max_backoff + 30%%, "
                          "become negative, or sampling panics on an empty range" % (lo, hi), c.loc(), sample={"range": [lo, hi]})
            else:
                # a computed range (`0..max_jitter`): whether it stays within 30%% is arithmetic (not decided); that it is never EMPTY is
                # decidable in shape - random_range panics on an empty range, and the policy values that make the delay tiny are reachable
                incl = any(re.search(r"RangeInclusive::<Idx>::new$", x.name) for a in c.args[1:] if op_local(a) is not None
                           for x in Slice(b, [op_local(a)], transparent=True).calls)
                ends = []
                for a in c.args[1:]:
                    if op_local(a) is None:
                        continue
                    for (bb_, idx_, st) in Slice(b, [op_local(a)], transparent=None).stmts:
                        r = st["r"]
                        if r["k"] == "Agg" and r.get("variant", "") == "Range" and len(r["o"]) == 2 and op_local(r["o"][1]) is not None:
                            ends.append(op_local(r["o"][1]))
                guarded = incl or (bool(ends) and all(nonzero_guarded(b, e, c.bb) for e in ends))
                ctx.info("C14.R4: the jitter range of execute() is computed, not constant; that it adds at most 30% is not decided")
                ctx.check(guarded, "C14.R3", [b.id, "jitter-range-not-empty"], "the computed jitter range cannot be empty where it is sampled",
                          "execute() samples its jitter from a computed exclusive range `lo..hi` whose upper end is not established to be above the lower one on "
                          "the path to the call: for a delay that rounds to zero (zero backoff, zero multiplier, Retry-After: 0) the range is empty and "
                          "random_range panics ('cannot sample empty range') instead of retrying", c.loc(), sample={"range_end_locals": ends})
        b = b_exec
        subs = [c for c in b.calls if not c.expn and re.search(r"\bSub(Assign)?<.*>>?::sub(_assign)?$|Duration::(saturating_sub|checked_sub)$", c.name) and
                any(op_local(a) in dsl.locals for a in c.args)]
        ctx.check(not subs, "C14.R4", [b.id, "jitter-added"], "jitter is added to the delay",
                  "execute() subtracts from the delay", subs[0].loc() if subs else sp.loc())


def nonzero_guarded(b, l, call_bb):
    """the value in local `l` (or a copy) is compared with the constant 0 (`> 0`, `!= 0`, `== 0`, `< 1` ...) and the call block is only reachable through
    the edge on which it is non-zero"""
    from .lib import bool_switches
    from .facts import op_const
    cls = Slice(b, [l], transparent=None).locals | {l}
    for (i, j, st) in b.stmts():
        r = st["r"]
        if r["k"] != "Bin" or r["op"] not in ("Gt", "Ne", "Eq", "Lt", "Ge", "Le") or len(st["p"]) != 1:
            continue
        sides = r["o"]
        for k in (0, 1):
            v = op_local(sides[k])
            c = op_const(sides[1 - k])
            if v is None or c is None or str(c) not in ("0", "0.0", "1"):
                continue
            if v not in cls and not (Slice(b, [v], transparent=None).locals & cls):
                continue
            op = r["op"] if k == 0 else {"Gt": "Lt", "Lt": "Gt", "Ge": "Le", "Le": "Ge", "Ne": "Ne", "Eq": "Eq"}[r["op"]]
            zero = str(c) in ("0", "0.0")
            # edges on which v is known non-zero
            for (sbb, tt, ft) in bool_switches(b, st["p"][0]):
                nz = tt if ((op in ("Gt", "Ne") and zero) or (op == "Ge" and str(c) == "1")) else ft if ((op in ("Eq", "Le") and zero) or (op == "Lt" and str(c) == "1")) else None
                if nz is not None and b.dominates(nz, call_bb) and not (set(b.pred[nz]) - {sbb}):
                    return True
    return False


def direct_field(b, kind, payload, field, depth=2):
    """the definition reads `field` directly (or through at most `depth` single-assignment temporaries / a min/clamp call)"""
    ops = []
    if kind == "assign":
        r = payload["r"]
        ops = list(r.get("o", []))
        if "p" in r and field in place_fields(r["p"]):
            return True
    else:
        if not re.search(r"::(min|max|clamp)$|\bClone>?::clone$", payload.name):
            return False
        ops = list(payload.args)
    for o in ops:
        if o["k"] in ("cp", "mv"):
            if field in place_fields(o["p"]):
                return True
            if depth > 0 and len(o["p"]) == 1 and not b.locals[o["p"][0]].get("u"):
                for (bb2, i2, k2, p2) in b.defs.get(o["p"][0], []):
                    if direct_field(b, k2, p2, field, depth - 1):
                        return True
    return False


def def_slice(b, kind, payload):
    if kind == "assign":
        r = payload["r"]
        roots = [op_local(o) for o in r.get("o", []) if op_local(o) is not None]
        if "p" in r:
            roots.append(r["p"][0])
        sl = Slice(b, roots, transparent=True)
        for o in r.get("o", []):
            if o["k"] in ("cp", "mv"):
                fs = place_fields(o["p"])
                if fs:
                    sl.fields.add(tuple(fs))
        if "p" in r:
            fs = place_fields(r["p"])
            if fs:
                sl.fields.add(tuple(fs))
        return sl
    c = payload
    sl = Slice(b, [op_local(a) for a in c.args if op_local(a) is not None], transparent=True)
    sl.calls.append(c)
    for a in c.args:
        if a["k"] in ("cp", "mv"):
            fs = place_fields(a["p"])
            if fs:
                sl.fields.add(tuple(fs))
    return sl


def clamp_sides(b, op):
    l = op_local(op)
    if l is None:
        return True, True
    sl = Slice(b, [l], transparent=True)
    upper = any(re.search(r"f(64|32)>?::(min|clamp)$|\bOrd>?::(min|clamp)$", c.name) for c in sl.calls)
    lower = any(re.search(r"f(64|32)>?::(max|clamp|abs)$|\bOrd>?::(max|clamp)$", c.name) for c in sl.calls)
    return upper, lower


def r_hint_accessor(ctx):
    rule = "C14.R4"
    bs = ctx.prog.find(self_ty=r"\bProtocolError\b", item="retry_after_hint", closure=False)
    if not ctx.anchor(rule, bs, "ProtocolError::retry_after_hint"):
        return
    b = bs[0]
    ctx.saw(b)
    # no computation on the hint payload: the accessor is a projection of RateLimited.retry_after
    bad = []
    der = set()
    for i, j, s in b.stmts():
        r = s["r"]
        srcs = [o for o in r.get("o", []) if o["k"] in ("cp", "mv")]
        if any("retry_after" in place_fields(o["p"]) or o["p"][0] in der for o in srcs) or ("p" in r and ("retry_after" in place_fields(r["p"]) or r["p"][0] in der)):
            if r["k"] == "Bin":
                bad.append("%s:%d comparison/arithmetic" % (b.file, s["l"]))
            der.add(s["p"][0])
    for c in b.calls:
        if c.expn:
            continue
        if any(op_local(a) in der or (a["k"] in ("cp", "mv") and "retry_after" in place_fields(a["p"])) for a in c.args):
            if not re.search(r"\bClone>?::clone$|\bOption::<T>::(copied|cloned|as_ref)$|\bDeref>?::deref$", c.name):
                bad.append("%s call %s" % (c.loc(), c.name.split("::")[-1]))
    reads = any("retry_after" in place_fields(o["p"]) for i, j, s in b.stmts() for o in s["r"].get("o", []) if o["k"] in ("cp", "mv")) or \
        any("retry_after" in place_fields(s["r"]["p"]) for i, j, s in b.stmts() if "p" in s["r"])
    ctx.check(reads and not bad, rule, [b.id, "pure-projection"], "hint accessor returns the stored hint unfiltered",
              "retry_after_hint() inspects the hint's value (%s): some hints the server sent (e.g. Retry-After: 0) are reported as absent and the caller "
              "waits the exponential backoff instead" % bad, b.loc(), sample={"accessor": b.id})


def r5_status_mapping(ctx):
    rule = "C14.R5"
    ctx.rule(rule, "closures run under the policy map 429 -> RateLimited(parse_retry_after), 5xx -> retryable, rest -> HttpStatus")
    prog = ctx.prog
    callers = [c for c in prog.all_calls(r"RetryPolicy::execute$", krates=["cascette_protocol"])]
    ctx.floor(rule, len(callers), 1, "callers of RetryPolicy::execute")
    for c in callers:
        # the closure passed: nested bodies of the caller that build ProtocolError variants
        fam = prog.family(c.body)
        variants = {}
        pra = False
        for fb in fam:
            for i, j, s in fb.stmts():
                r = s["r"]
                if r["k"] == "Agg" and r.get("ak") == "adt" and r["adt"].endswith("error::ProtocolError"):
                    variants.setdefault(r["variant"], []).append((fb, i, j, s))
            if fb.calls_matching(r"cdn::parse_retry_after$"):
                pra = True
        if not variants:
            continue
        ctx.saw(c.body)
        ok_rl = False
        for (fb, i, j, s) in variants.get("RateLimited", []):
            ops = s["r"]["o"]
            if ops and op_local(ops[0]) is not None:
                sl = Slice(fb, [op_local(ops[0])], transparent=True)
                if sl.has_call(r"cdn::parse_retry_after$"):
                    ok_rl = True
        ctx.check("RateLimited" in variants and ok_rl, rule, [c.body.id, "429-hint"], "429 becomes RateLimited carrying the parsed Retry-After",
                  "%s: a 429 answer is not mapped to RateLimited{retry_after: parse_retry_after(..)}: the server's hint is dropped" % c.body.id, c.loc(),
                  sample={"variants_built": sorted(variants)})
        ctx.check("ServerError" in variants or "ServiceUnavailable" in variants, rule, [c.body.id, "5xx-retryable"], "5xx becomes a retryable variant",
                  "%s no longer maps server errors to a retryable variant" % c.body.id, c.loc())
        # the always-retryable variant is built only where the status was tested to be 5xx (a catch-all `else` would also make 3xx and
        # unknown classes retryable: a final 304 would be retried max_attempts times)
        for (fb, i, j, st) in variants.get("ServerError", []):
            tests = [x for x in fb.calls if re.search(r"StatusCode::is_server_error$", x.name)]
            guarded = False
            for x in tests:
                rl, _ = result_local(fb, x)
                for (sbb, tt, ft) in bool_switches(fb, rl):
                    if fb.dominates(tt, i) and tt != ft:
                        guarded = True
            # or an explicit numeric class test 500..=599 on the status
            ctx.check(guarded, rule, [c.body.id, "server-error-only-on-5xx"], "ServerError is built on the is_server_error() edge",
                      "%s builds ProtocolError::ServerError (retryable for every status) on a path that is not the true edge of is_server_error(): statuses "
                      "outside 5xx (a final 3xx, 1xx) become retryable, so the operation is repeated instead of stopping at the first non-retryable error" %
                      ctx._stable(c.body.id), "%s:%d" % (fb.file, st["l"]))
        ctx.check("HttpStatus" in variants, rule, [c.body.id, "rest-http-status"], "other statuses become HttpStatus (non-retryable for 4xx)",
                  "%s no longer maps remaining statuses to HttpStatus" % c.body.id, c.loc())


def r6_hint_source(ctx):
    """the hint is the server's Retry-After header and nothing else: any other header consulted by parse_retry_after (a reset
    timestamp, a rate-limit window) is fed to Duration::from_secs as if it were a delay"""
    rule = "C14.R6"
    ctx.rule(rule, "parse_retry_after consults only the Retry-After header")
    bs = [b for b in ctx.prog.bodies.values() if b.krate == "cascette_protocol" and b.item == "parse_retry_after" and not b.root]
    if not ctx.anchor(rule, bs, "cdn::parse_retry_after"):
        return
    n = 0
    for fb in ctx.prog.family(bs[0]):
        ctx.saw(fb)
        for c in fb.calls:
            if not re.search(r"HeaderMap::<T>::(get|get_all|contains_key)$|HeaderValue|headers::\w+$", c.name) or not re.search(r"::(get|get_all|contains_key)$", c.name):
                continue
            if len(c.args) < 2:
                continue
            n += 1
            names = []
            l = op_local(c.args[1])
            consts = Slice(fb, [l], transparent=True).consts if l is not None else [c.args[1]]
            for o in consts:
                if o.get("k") != "c":
                    continue
                v = o.get("uneval") or o.get("s") or ""
                names.append(str(v))
            ok = bool(names) and all(re.search(r"RETRY_AFTER$", x) or x.strip('"').lower() == "retry-after" for x in names)
            ctx.check(ok, rule, [fb.id, "header", ",".join(sorted(names))[:40]], "header lookup is Retry-After",
                      "%s reads the retry hint from header %s: the property's hint is the server's Retry-After; another header's number (for example an epoch "
                      "reset time) becomes a wait of that many seconds" % (ctx._stable(fb.id), names), c.loc(), sample={"header_consts": names})
    ctx.floor(rule, n, 1, "header lookups in parse_retry_after")


def run(ctx):
    r6_hint_source(ctx)
    r_execute(ctx)
    r_hint_accessor(ctx)
    r5_status_mapping(ctx)


from .selftest import for_families as _ff  # noqa: E402
selftest = _ff(['slice', 'gate'])
