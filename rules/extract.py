"""Fact extraction: runs the rustc_private driver over /repo's *current working tree* (and over the
selftest witness crate) and caches the result under /verif/.cache/facts/<content hash>."""
import fcntl, hashlib, os, shutil, subprocess, sys, time, glob

VERIF = os.path.dirname(os.path.dirname(os.path.abspath(__file__)))
REPO = os.environ.get("VERIF_REPO", "/repo")
# root of the source tree the current rule run is about (the battery points it at its scratch copy for AST-level rules)
SRC_ROOT = [None]


def src_root():
    return SRC_ROOT[0] or REPO

CACHE = os.environ.get("VERIF_CACHE", os.path.join(VERIF, ".cache"))
DRIVER_DIR = os.path.join(VERIF, "driver")
DRIVER_BIN = os.path.join(DRIVER_DIR, "target", "release", "cascette-facts")
SELFTEST_DIR = os.path.join(VERIF, "selftest")
LIB_CRATES = ["cascette_cache", "cascette_client_storage", "cascette_crypto",
              "cascette_formats", "cascette_protocol", "cascette_ribbit"]


def _sha_files(paths, h):
    for p in sorted(paths):
        h.update(p.encode())
        h.update(b"\0")
        try:
            with open(p, "rb") as f:
                h.update(f.read())
        except OSError:
            h.update(b"<unreadable>")
        h.update(b"\0")


def repo_files(repo=None):
    repo = repo or REPO
    out = []
    for root, dirs, files in os.walk(repo):
        dirs[:] = [d for d in dirs if d not in ("target", ".git", "node_modules")]
        for f in files:
            if f.endswith(".rs") or f in ("Cargo.toml", "Cargo.lock", "build.rs"):
                out.append(os.path.join(root, f))
    return out


def tree_hash(repo=None):
    h = hashlib.sha256()
    _sha_files(repo_files(repo), h)
    # the extractor and the selftest witnesses are part of the key
    extra = [os.path.join(DRIVER_DIR, "src", "main.rs")]
    extra += glob.glob(os.path.join(SELFTEST_DIR, "src", "*.rs"))
    extra += [os.path.join(SELFTEST_DIR, "Cargo.toml")]
    _sha_files([p for p in extra if os.path.exists(p)], h)
    return h.hexdigest()[:24]


def sysroot():
    return subprocess.check_output(["rustc", "+nightly", "--print", "sysroot"], text=True, cwd=VERIF).strip()


def build_driver(log):
    src = os.path.join(DRIVER_DIR, "src", "main.rs")
    if os.path.exists(DRIVER_BIN) and os.path.getmtime(DRIVER_BIN) >= os.path.getmtime(src):
        return
    env = dict(os.environ, CARGO_NET_OFFLINE="true")
    r = subprocess.run(["cargo", "+nightly", "build", "--release", "--offline"], cwd=DRIVER_DIR, env=env,
                       stdout=subprocess.PIPE, stderr=subprocess.STDOUT, text=True)
    log.write(r.stdout)
    if r.returncode != 0:
        sys.stderr.write(r.stdout[-4000:])
        raise SystemExit("checker error: cannot build the fact extractor (driver/)")


def _cargo_check(cwd, facts_tmp, target_dir, extra_args, log, what):
    env = dict(os.environ)
    env.update({
        "LD_LIBRARY_PATH": os.path.join(sysroot(), "lib") + ":" + env.get("LD_LIBRARY_PATH", ""),
        "RUSTFLAGS": "-Zmir-opt-level=0 -Awarnings",
        "RUSTC_WORKSPACE_WRAPPER": DRIVER_BIN,
        "VERIF_FACTS_DIR": facts_tmp,
        "CARGO_TARGET_DIR": target_dir,
        "CARGO_NET_OFFLINE": "true",
        "CARGO_INCREMENTAL": "0",
    })
    env.pop("RUSTC_WRAPPER", None)
    cmd = ["cargo", "+nightly", "check", "--offline"] + extra_args
    r = subprocess.run(cmd, cwd=cwd, env=env, stdout=subprocess.PIPE, stderr=subprocess.STDOUT, text=True)
    log.write("$ (cd %s && %s)\n" % (cwd, " ".join(cmd)))
    log.write(r.stdout)
    if r.returncode != 0:
        sys.stderr.write(r.stdout[-6000:])
        raise SystemExit("checker error: %s does not compile under the extractor (cargo check failed)" % what)


def _drop_fingerprints(target_dir, prefixes):
    fp = os.path.join(target_dir, "debug", ".fingerprint")
    if os.path.isdir(fp):
        for d in os.listdir(fp):
            if any(d.startswith(p) for p in prefixes):
                shutil.rmtree(os.path.join(fp, d), ignore_errors=True)


def ensure_facts(repo=None, scope="lib", verbose=True):
    """returns (facts_dir, hash, seconds spent extracting or 0.0 on cache hit)"""
    repo = repo or REPO
    os.makedirs(os.path.join(CACHE, "facts"), exist_ok=True)
    h = tree_hash(repo)
    if scope != "lib":
        h = h + "-" + scope
    if repo != "/repo":
        h = h + "-" + hashlib.sha256(repo.encode()).hexdigest()[:8]
    facts = os.path.join(CACHE, "facts", h)
    marker = os.path.join(facts, ".complete")
    if os.path.exists(marker):
        return facts, h, 0.0
    lockf = open(os.path.join(CACHE, "extract.lock"), "w")
    fcntl.flock(lockf, fcntl.LOCK_EX)
    try:
        if os.path.exists(marker):
            return facts, h, 0.0
        t0 = time.time()
        if verbose:
            print("[extract] facts for tree %s (scope %s) ..." % (h, scope), flush=True)
        tmp = facts + ".tmp%d" % os.getpid()
        shutil.rmtree(tmp, ignore_errors=True)
        os.makedirs(tmp)
        with open(os.path.join(tmp, "extract.log"), "w") as log:
            build_driver(log)
            # one shared target dir: dependencies stay warm, members are forced through the wrapper
            tgt = os.path.join(CACHE, "target-" + ("repo" if repo == "/repo" else hashlib.sha256(repo.encode()).hexdigest()[:8]))
            _drop_fingerprints(tgt, ["cascette-", "cascette_"])
            args = ["--workspace", "--lib", "--bins"]
            if scope == "all":
                args = ["--workspace", "--lib", "--bins", "--examples"]
            _cargo_check(repo, tmp, tgt, args, log, "the repository")
            if os.path.isdir(SELFTEST_DIR):
                stgt = os.path.join(CACHE, "target-selftest")
                _drop_fingerprints(stgt, ["verif-selftest", "verif_selftest"])
                _cargo_check(SELFTEST_DIR, tmp, stgt, ["--lib"], log, "the selftest witness crate")
        have = set(os.path.basename(f).split(".")[0] for f in glob.glob(os.path.join(tmp, "*.jsonl")))
        missing = [c for c in LIB_CRATES if c not in have]
        if os.path.isdir(SELFTEST_DIR) and "verif_selftest" not in have:
            missing.append("verif_selftest")
        if missing:
            raise SystemExit("checker error: no fact file for %s (cargo skipped the wrapper?)" % missing)
        open(os.path.join(tmp, ".complete"), "w").write(h)
        shutil.rmtree(facts, ignore_errors=True)
        os.rename(tmp, facts)
        # prune: keep the 4 most recent fact dirs
        dirs = [d for d in glob.glob(os.path.join(CACHE, "facts", "*")) if os.path.isdir(d)]
        dirs.sort(key=os.path.getmtime, reverse=True)
        for d in dirs[4:]:
            shutil.rmtree(d, ignore_errors=True)
        dt = time.time() - t0
        if verbose:
            print("[extract] done in %.1fs" % dt, flush=True)
        return facts, h, dt
    finally:
        fcntl.flock(lockf, fcntl.LOCK_UN)
        lockf.close()


if __name__ == "__main__":
    f, h, dt = ensure_facts(sys.argv[1] if len(sys.argv) > 1 else None)
    print(f, h, dt)
