"""E-drop - no `bool` result of a workspace function is thrown away.

`Result` is `#[must_use]` and the compiler speaks up; a `bool` that means "it worked" / "there was room" / "the key was there" is not, and a caller that
drops it reports success (or carries on) after an operation that told it otherwise. By discovery over all call sites of all workspace functions that
return `bool`; today's droppers are a frozen table with one line of reason each, any other dropped result is a violation."""
import re
from .facts import uses_of_local
from .lib import result_local

# (callee item, caller item): reason - confirmed by reading, each is a best-effort side action whose failure the caller cannot act on
ALLOWED = {
    ("remove", "evict_lru"): "zerocopy pool: the entry was chosen from the map a moment ago; a concurrent removal is the wanted state",
    ("remove", "compact"): "zerocopy pool: same, compaction drops what it finds",
    ("update_entry_status", "handle_truncated_read"): "marks the entry non-resident on a truncated read; the read error is returned either way",
    ("push", "insert_entry"): "ResidencyPage::push into the page created on the line above (cannot be full) - C05.R1's discharge idiom",
    ("touch", "read"): "LRU touch is recency bookkeeping on a successful read; a tracker without capacity does not fail the read",
    ("touch", "write"): "same on a successful write",
}


def really_used(b, l, depth=0):
    for (ubb, uidx, kind) in uses_of_local(b, l):
        if kind == "drop" or ubb not in b.live_blocks():
            continue
        if kind == "assign" and uidx < len(b.blocks[ubb]["s"]):
            st = b.blocks[ubb]["s"][uidx]
            if st["r"]["k"] == "Use" and len(st["p"]) == 1 and st["r"]["o"][0].get("p") == [l] and depth < 4:
                if really_used(b, st["p"][0], depth + 1):
                    return True
                continue
        return True
    return False


def rule_dropped(ctx, rule, krates, callee_file_pat, floor=0, allowed=None):
    allowed = ALLOWED if allowed is None else allowed
    ctx.rule(rule, "no bool result of a workspace function (callee in %s) is dropped by its caller - except the frozen, reasoned table of best-effort side actions" % callee_file_pat)
    prog = ctx.prog
    n = 0
    for b in sorted(prog.bodies.values(), key=lambda x: x.id):
        if b.krate not in krates or b.expn:
            continue
        for c in b.calls:
            if c.bb not in b.live_blocks() or not c.local or c.expn or c.id not in prog.bodies:
                continue
            cb = prog.bodies[c.id]
            if cb.coroutine or (cb.local_ty(0) or "") != "bool" or not re.search(callee_file_pat, cb.file or ""):
                continue
            n += 1
            ctx.call_sites += 1
            rl, _ = result_local(b, c)
            used = really_used(b, rl) if rl is not None else True
            if used:
                ctx.ok(rule, [b.id, "uses", cb.item], "result consumed", c.loc(), nontrivial=False)
                continue
            root = prog.bodies.get(b.root) if b.root else b
            caller_item = (root.item if root is not None else b.item) or "?"
            why = allowed.get((cb.item, caller_item))
            ctx.saw(b)
            if why:
                ctx.ok(rule, [b.id, "drops", cb.item, "allowed"], "dropped by design: " + why, c.loc(), sample={"caller": b.id, "callee": c.id, "reason": why})
            else:
                ctx.bad(rule, [b.id, "drops", cb.item],
                        "%s calls %s() and throws its bool result away: the callee uses it to say that nothing happened (no room, no such key, not evicted), and "
                        "this caller carries on - and reports success - as if it had" % (ctx._stable(b.id), cb.item), c.loc())
    if floor:
        ctx.floor(rule, n, floor, "call sites of bool-returning workspace functions")
    return n
