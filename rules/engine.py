"""Check framework: obligations, violations, floors/anchors (fail closed), known findings, evidence."""
import json, os, re, sys, time, hashlib, collections, importlib, traceback

from . import extract
from .facts import Program

VERIF = extract.VERIF
KNOWN = os.path.join(VERIF, "known_findings.json")


class Violation:
    def __init__(self, rule, key, msg, loc=None, detail=None):
        self.rule = rule
        self.key = key
        self.msg = msg
        self.loc = loc
        self.detail = detail or {}

    def to_json(self):
        return {"rule": self.rule, "key": self.key, "what": self.msg, "where": self.loc, "detail": self.detail}


class Ctx:
    """Collects the outcome of rule evaluation over one Program."""

    def __init__(self, prog, prop, tier="quick", selftest=False):
        self.prog = prog
        self.prop = prop
        self.tier = tier
        self.selftest = selftest
        self.violations = []
        self.obligations = 0
        self.discharged = 0
        self.nontrivial = set()
        self.samples = []
        self.infos = []
        self.rules_run = collections.OrderedDict()
        self.bodies_analysed = set()
        self.call_sites = 0
        self._keys = collections.Counter()
        self._impl_map = None
        self.assumptions = []

    # --- recording --------------------------------------------------------
    def rule(self, rid, text):
        self.rules_run.setdefault(rid, {"text": text, "instances": 0, "violations": 0})

    def _stable(self, text):
        """replace rustc's positional `{impl#N}` disambiguators by the impl's self type (and trait), so that keys do not
        change when an unrelated impl block is added to the module"""
        if "{impl#" not in text:
            return text
        if self._impl_map is None:
            m = {}
            for im in self.prog.impls:
                st = re.sub(r"<.*$", "", (im.get("self_ty") or "?")).split("::")[-1]
                tr = (im.get("trait") or "").split("::")[-1]
                mod = im["id"].rsplit("::", 1)[0]
                m[im["id"]] = "%s::<%s%s>" % (mod, st, (" as " + tr) if tr else "")
            self._impl_map = m
        def rep(mo):
            return self._impl_map.get(mo.group(0), mo.group(0))
        return re.sub(r"[A-Za-z_][A-Za-z0-9_]*(?:::[A-Za-z_][A-Za-z0-9_]*)*::\{impl#\d+\}", rep, text)

    def _mk_key(self, rule, parts):
        base = self._stable("|".join([rule] + [str(p) for p in parts]))
        n = self._keys[base]
        self._keys[base] += 1
        return base if n == 0 else "%s|#%d" % (base, n)

    def ok(self, rule, parts, what, loc=None, sample=None, nontrivial=True):
        """an obligation that holds"""
        self.obligations += 1
        self.discharged += 1
        self.rules_run.setdefault(rule, {"text": "", "instances": 0, "violations": 0})["instances"] += 1
        key = self._mk_key(rule, parts)
        if nontrivial:
            self.nontrivial.add(key)
        if sample is not None and sum(1 for s in self.samples if s.get("rule") == rule) < 3:
            self.samples.append({"rule": rule, "instance": key, "where": loc, "holds": True, "evidence": sample})
        return key

    def bad(self, rule, parts, what, loc=None, detail=None):
        """an obligation that fails -> violation"""
        self.obligations += 1
        r = self.rules_run.setdefault(rule, {"text": "", "instances": 0, "violations": 0})
        r["instances"] += 1
        r["violations"] += 1
        key = self._mk_key(rule, parts)
        self.nontrivial.add(key)
        v = Violation(rule, key, what, loc, detail)
        self.violations.append(v)
        if sum(1 for s in self.samples if s.get("rule") == rule and not s.get("holds")) < 2:
            self.samples.append({"rule": rule, "instance": key, "where": loc, "holds": False, "evidence": what})
        return v

    def check(self, cond, rule, parts, what_ok, what_bad, loc=None, sample=None, detail=None):
        if cond:
            return self.ok(rule, parts, what_ok, loc, sample if sample is not None else what_ok)
        return self.bad(rule, parts, what_bad, loc, detail)

    def info(self, text):
        self.infos.append(text)

    def assume(self, text):
        if text not in self.assumptions:
            self.assumptions.append(text)

    def floor(self, rule, count, floor, what):
        """fail closed when a discovery rule finds fewer instances than were confirmed by hand"""
        if self.selftest:
            return
        if count < floor:
            self.bad(rule, ["floor", what], "anchor-missing: found %d instance(s) of %s, expected at least %d "
                     "(confirmed by hand on the pinned tree); the rule would pass vacuously" % (count, what, floor))

    def anchor(self, rule, obj, what):
        """fail closed when a named anchor cannot be found; returns obj"""
        if not obj:
            self.bad(rule, ["anchor", what], "anchor-missing: cannot find %s in the current tree" % what)
        return obj

    def saw(self, body):
        self.bodies_analysed.add(body.id if hasattr(body, "id") else body)


def load_known():
    if not os.path.exists(KNOWN):
        return {"findings": [], "fixed": []}
    with open(KNOWN) as f:
        return json.load(f)


def run_battery(prop, mod, base_keys):
    """apply every kept seeded change of this property (seeded/<prop>-mN/patch.diff, detected_by_check == yes) to a scratch copy
    of /repo, re-extract, re-run the property's rules: the run must report a violation key that the unchanged tree does not"""
    import glob, shutil, subprocess, tempfile
    # a seed belongs to the battery of the property it was written against, unless its meta names the check that catches it
    # (`battery_property`: a change seeded against one property whose breakage is decided by another property's rule)
    seeds = []
    for sd in sorted(glob.glob(os.path.join(VERIF, "seeded", "C*-*"))):
        try:
            meta = json.load(open(os.path.join(sd, "meta.json")))
        except (OSError, ValueError):
            continue
        if meta.get("battery_property", meta.get("property")) == prop:
            seeds.append(sd)
    out = {"mutants_run": 0, "reported": [], "missed": [], "skipped": []}
    if not seeds:
        return out
    scratch_root = os.path.join(tempfile.gettempdir(), "verif-scratch")
    scratch = os.path.join(scratch_root, "repo")
    # one battery at a time: the scratch copy (and its warm cargo target dir) is shared by all properties
    import fcntl
    os.makedirs(extract.CACHE, exist_ok=True)
    block = open(os.path.join(extract.CACHE, "battery.lock"), "w")
    fcntl.flock(block, fcntl.LOCK_EX)
    try:
        for sd in seeds:
            meta = json.load(open(os.path.join(sd, "meta.json")))
            name = os.path.basename(sd)
            if meta.get("detected_by_check") != "yes":
                out["skipped"].append({"seed": name, "why": "recorded as not detectable by this check (see meta.json)"})
                continue
            shutil.rmtree(scratch, ignore_errors=True)
            os.makedirs(scratch_root, exist_ok=True)
            subprocess.run(["rsync", "-a", "--delete", "--exclude", "target", "--exclude", ".git", extract.REPO + "/", scratch + "/"], check=True)
            # patch_current.diff = the same change rebased by hand onto a tree that a later `fix:` commit moved under it
            pf = os.path.join(sd, "patch_current.diff")
            if not os.path.exists(pf):
                pf = os.path.join(sd, "patch.diff")
            r = subprocess.run(["patch", "-p1", "--fuzz=3", "-s", "-i", pf], cwd=scratch, stdout=subprocess.PIPE, stderr=subprocess.STDOUT, text=True)
            if r.returncode != 0 and pf.endswith("patch_current.diff"):
                subprocess.run(["rsync", "-a", "--delete", "--exclude", "target", "--exclude", ".git", extract.REPO + "/", scratch + "/"], check=True)
                r = subprocess.run(["patch", "-p1", "--fuzz=3", "-s", "-i", os.path.join(sd, "patch.diff")], cwd=scratch, stdout=subprocess.PIPE, stderr=subprocess.STDOUT, text=True)
            if r.returncode != 0:
                out["skipped"].append({"seed": name, "why": "patch no longer applies to the current tree: " + r.stdout.strip()[-160:]})
                continue
            try:
                facts_dir, fhash, ext_s = extract.ensure_facts(scratch, verbose=False)
            except SystemExit as e:
                out["skipped"].append({"seed": name, "why": "mutant does not compile on the current tree: %s" % e})
                continue
            mprog = Program(facts_dir, crates=getattr(mod, "CRATES", None))
            mctx = Ctx(mprog, prop, "quick")
            extract.SRC_ROOT[0] = scratch
            try:
                mod.run(mctx)
            finally:
                extract.SRC_ROOT[0] = None
            new = sorted({v.key for v in mctx.violations} - set(base_keys))
            out["mutants_run"] += 1
            if new:
                out["reported"].append({"seed": name, "new_violation_keys": new[:4]})
                print("battery: %s reported (%s)" % (name, new[0]))
            else:
                out["missed"].append(name)
                print("battery: %s NOT reported" % name)
            shutil.rmtree(facts_dir, ignore_errors=True)
    finally:
        shutil.rmtree(scratch_root, ignore_errors=True)
        # the scratch copy's cargo target dir
        import hashlib as _h
        tgt = os.path.join(extract.CACHE, "target-" + _h.sha256(scratch.encode()).hexdigest()[:8])
        shutil.rmtree(tgt, ignore_errors=True)
        fcntl.flock(block, fcntl.LOCK_UN)
        block.close()
    return out


def run_benign(prop, mod, base_keys):
    """the benign battery (DESIGN 10.8): every behaviour-preserving refactoring under benign/ that touches a crate this property analyses is applied
    to a scratch copy of /repo; the property's rules must report NO violation key that the unchanged tree does not"""
    import glob, shutil, subprocess, tempfile, fcntl
    out = {"refactorings_run": 0, "quiet": [], "alarms": [], "skipped": []}
    patches = sorted(glob.glob(os.path.join(VERIF, "benign", "rf*.diff")))
    if not patches:
        return out
    crates = set(getattr(mod, "CRATES", None) or [])
    scratch_root = os.path.join(tempfile.gettempdir(), "verif-scratch")
    scratch = os.path.join(scratch_root, "repo")
    os.makedirs(extract.CACHE, exist_ok=True)
    block = open(os.path.join(extract.CACHE, "battery.lock"), "w")
    fcntl.flock(block, fcntl.LOCK_EX)
    try:
        for pf in patches:
            name = os.path.basename(pf)[:-5]
            touched = set(re.findall(r"^\+\+\+ b/crates/([A-Za-z0-9_-]+)/", open(pf).read(), flags=re.M))
            if crates and not ({t.replace("-", "_") for t in touched} & crates):
                out["skipped"].append({"refactoring": name, "why": "touches %s, which this property does not analyse" % sorted(touched)})
                continue
            shutil.rmtree(scratch, ignore_errors=True)
            os.makedirs(scratch_root, exist_ok=True)
            subprocess.run(["rsync", "-a", "--delete", "--exclude", "target", "--exclude", ".git", extract.REPO + "/", scratch + "/"], check=True)
            r = subprocess.run(["patch", "-p1", "--fuzz=3", "-s", "-i", pf], cwd=scratch, stdout=subprocess.PIPE, stderr=subprocess.STDOUT, text=True)
            if r.returncode != 0:
                out["skipped"].append({"refactoring": name, "why": "patch no longer applies to the current tree"})
                continue
            try:
                facts_dir, fhash, ext_s = extract.ensure_facts(scratch, verbose=False)
            except SystemExit as e:
                out["skipped"].append({"refactoring": name, "why": "does not compile on the current tree: %s" % e})
                continue
            mprog = Program(facts_dir, crates=getattr(mod, "CRATES", None))
            mctx = Ctx(mprog, prop, "quick")
            extract.SRC_ROOT[0] = scratch
            try:
                mod.run(mctx)
            finally:
                extract.SRC_ROOT[0] = None
            new = sorted({v.key for v in mctx.violations} - set(base_keys))
            out["refactorings_run"] += 1
            if new:
                out["alarms"].append({"refactoring": name, "new_violation_keys": new[:4]})
                print("benign: %s ALARM (%s)" % (name, new[0]))
            else:
                out["quiet"].append(name)
                print("benign: %s quiet" % name)
            shutil.rmtree(facts_dir, ignore_errors=True)
    finally:
        shutil.rmtree(scratch_root, ignore_errors=True)
        import hashlib as _h
        shutil.rmtree(os.path.join(extract.CACHE, "target-" + _h.sha256(scratch.encode()).hexdigest()[:8]), ignore_errors=True)
        fcntl.flock(block, fcntl.LOCK_UN)
        block.close()
    return out


def run_property(prop, module_name, argv):
    import argparse
    ap = argparse.ArgumentParser()
    ap.add_argument("--tier", default=os.environ.get("VERIF_TIER", "quick"))
    ap.add_argument("--replay", default=None)
    ap.add_argument("--repo", default=None)
    ap.add_argument("--no-selftest", action="store_true")
    ap.add_argument("--list", action="store_true", help="print every obligation key")
    args = ap.parse_args(argv)
    tier = "thorough" if args.tier == "thorough" else "quick"
    seed = int(os.environ.get("VERIF_SEED", "0") or 0)
    t0 = time.time()
    mod = importlib.import_module("rules." + module_name)
    if args.repo:
        extract.SRC_ROOT[0] = args.repo
    facts_dir, fhash, ext_s = extract.ensure_facts(args.repo)
    prog = Program(facts_dir, crates=getattr(mod, "CRATES", None))
    # ---- checker self-test on the witness crate (same extractor, same run) -------------------
    st_result = {"cases": 0, "ok": True, "detail": []}
    if hasattr(mod, "selftest") and not args.no_selftest:
        sprog = Program(facts_dir, crates=["verif_selftest"], include_selftest=True)
        sctx = Ctx(sprog, prop, tier, selftest=True)
        try:
            expected = mod.selftest(sctx)
        except Exception:
            traceback.print_exc()
            print("CHECKER-BROKEN property=%s selftest raised" % prop)
            sys.exit(2)
        got = collections.Counter()
        for v in sctx.violations:
            got[v.key] += 1
        exp_pos = set(expected.get("must_report", []))
        exp_neg = set(expected.get("must_not_report", []))
        reported = set(got)
        missing = [k for k in exp_pos if not any(r.startswith(k) for r in reported)]
        spurious = [r for r in reported if any(r.startswith(k) for k in exp_neg)]
        unexpected = [r for r in reported if not any(r.startswith(k) for k in exp_pos)]
        st_result["cases"] = len(exp_pos) + len(exp_neg)
        st_result["positives"] = len(exp_pos)
        st_result["negatives"] = len(exp_neg)
        if missing or spurious or unexpected:
            st_result["ok"] = False
            print("CHECKER-BROKEN property=%s selftest: missed=%s spurious=%s unexpected=%s" % (prop, missing, spurious, unexpected))
            sys.exit(2)
    # ---- the real tree ------------------------------------------------------------------------
    ctx = Ctx(prog, prop, tier)
    try:
        mod.run(ctx)
    except Exception:
        traceback.print_exc()
        print("CHECKER-ERROR property=%s rule evaluation raised (treated as failure, fail closed)" % prop)
        sys.exit(2)
    known = load_known()
    known_keys = {k["key"]: k for k in known.get("findings", []) if k.get("property") == prop}
    new = []
    seen_known = set()
    for v in ctx.violations:
        if v.key in known_keys:
            seen_known.add(v.key)
            print("KNOWN-FINDING: property=%s %s :: %s" % (prop, v.key, known_keys[v.key].get("what", v.msg)))
        else:
            new.append(v)
    for uf in known.get("unruled", []):
        if uf.get("property") == prop:
            print("KNOWN-FINDING: property=%s (no rule derives this; confirmed by %s) %s" % (prop, uf.get("confirmed_by", "?"), uf.get("what", "")))
    for k in known_keys:
        if k not in seen_known:
            print("STALE-KNOWN-FINDING: property=%s %s (no longer derived; informational)" % (prop, k))
    rc = 0
    replay_dir = os.path.join(extract.CACHE, "replay")
    os.makedirs(replay_dir, exist_ok=True)
    for v in new:
        rid = hashlib.sha256(v.key.encode()).hexdigest()[:12]
        path = os.path.join(replay_dir, "%s-%s.json" % (prop, rid))
        with open(path, "w") as f:
            json.dump({"property": prop, "violation": v.to_json(), "fact_hash": fhash}, f, indent=1)
        print("  rule %s: %s\n    at %s\n    key %s" % (v.rule, v.msg, v.loc, v.key))
        print("VIOLATION property=%s replay=%s" % (prop, path))
        rc = 1
    # ---- thorough tier: seeded-mutant battery (measures the checker, not the repo) -------------------------------
    battery = None
    if tier == "thorough" and not args.repo:
        battery = run_battery(prop, mod, {v.key for v in ctx.violations})
        if battery["missed"]:
            print("CHECKER-BROKEN property=%s thorough: seeded mutant(s) not reported: %s" % (prop, battery["missed"]))
            sys.exit(2)
        benign = run_benign(prop, mod, {v.key for v in ctx.violations})
        battery["benign"] = benign
        if benign["alarms"]:
            print("CHECKER-BROKEN property=%s thorough: alarm on behaviour-preserving refactoring(s): %s" % (prop, [a["refactoring"] for a in benign["alarms"]]))
            sys.exit(2)
    if args.replay:
        with open(args.replay) as f:
            want = json.load(f)["violation"]["key"]
        hit = [v for v in ctx.violations if v.key == want]
        print("REPLAY %s: %s" % (want, "still derived" if hit else "no longer derived"))
        for v in hit:
            print(json.dumps(v.to_json(), indent=1))
    if args.list:
        for k in sorted(ctx.nontrivial):
            print("OBLIGATION", k)
    for i in ctx.infos:
        print("info:", i)
    wall = time.time() - t0
    # ---- evidence -----------------------------------------------------------------------------
    expl = getattr(mod, "EXPLANATION", "")
    rules_txt = "; ".join("%s: %s [%d instance(s), %d violation(s)]" % (r, d["text"], d["instances"], d["violations"])
                          for r, d in ctx.rules_run.items())
    ev = {
        "property_id": prop,
        "tier": tier,
        "seed": seed,
        "level": "other",
        "coverage": {
            "explanation": (expl + " Rules evaluated on this run: " + rules_txt).strip(),
            "obligations": ctx.obligations,
            "discharged": ctx.discharged,
            "evaluations": ctx.obligations + st_result["cases"],
            "distinct_nontrivial": len(ctx.nontrivial),
            "rule": "one case = one rule instance discovered in /repo's MIR (call site, function, path or table "
                    "entry); distinct by violation key (rule, function def-path, construct, ordinal); non-trivial = "
                    "the evaluation inspected at least one CFG path, call chain, slice or table entry",
            "samples": ctx.samples[:12],
            "checker_cmd": "./check %s --tier %s" % (prop, tier),
            "trusted_base": ["rustc nightly MIR construction and callee resolution (mir_promoted)",
                             "driver/src/main.rs fact extractor", "rules/facts.py CFG/dominator/slice helpers",
                             "modelled-externals tables in rules/"],
            "exhaustive": True,
            "functions_analysed": len(ctx.bodies_analysed),
            "bodies_in_program": len(prog.bodies),
            "call_sites": ctx.call_sites,
            "rules": ctx.rules_run,
            "selftest": st_result,
            "known_findings": sorted(seen_known),
            "new_violations": [v.key for v in new],
            "fact_hash": fhash,
            "extract_seconds": round(ext_s, 1),
            "info": ctx.infos[:40],
            "mutant_battery": battery,
            "disagreements_checked": (battery or {}).get("mutants_run", 0),
        },
        "assumptions": ctx.assumptions + getattr(mod, "ASSUMPTIONS", []),
        "wall_s": round(wall, 2),
        "violations": len(new),
    }
    # tools/try_seed.sh runs the check on a deliberately broken /repo: its evidence must not replace the real one
    evdir = os.environ.get("VERIF_EVIDENCE_DIR") or os.path.join(VERIF, "evidence")
    os.makedirs(evdir, exist_ok=True)
    with open(os.path.join(evdir, "%s.json" % prop), "w") as f:
        json.dump(ev, f, indent=1)
    print("%s: %d obligation(s), %d discharged, %d known finding(s), %d new violation(s), %d bodies analysed, "
          "selftest %d case(s), %.1fs" % (prop, ctx.obligations, ctx.discharged, len(seen_known), len(new),
                                          len(ctx.bodies_analysed), st_result["cases"], wall))
    sys.exit(rc)
