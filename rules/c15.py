"""C15 - what the Ribbit server emits, the Ribbit client reads back as the database says (structural clauses)."""
import json, os, re, subprocess
from .facts import op_local, Slice, place_fields, op_const
from .lib import bool_switches, enum_switches, must_pass, assigns_variant, result_local, awaited
from .c05 import enum_switches_through
from . import panicreach as pr
from . import extract

CRATES = ["cascette_ribbit", "cascette_formats", "cascette_crypto"]

EXPLANATION = (
    "Static rules over the MIR of cascette-ribbit plus a syn AST pass over responses/bpsv.rs for format! templates. R1 (E-reach): no "
    "explicit panic API (unwrap/expect/panic!/unreachable!/assert!) is reachable in the call-graph closure of the server entry points "
    "(accept loop, connection handler, v1/v2 command handlers, axum handlers, BpsvResponse constructors, MIME wrapper, database load). "
    "R2: every socket read is the future argument of tokio::time::timeout AND reads through a size bound (take(N) / bounded buffer). "
    "R3: the accept loop hands every connection to tokio::spawn, never awaits the handler inline, and no error edge inside the loop leaves "
    "it. R4 schema agreement (AST + MIR): each BpsvResponse constructor's header literal and row templates have the same number of "
    "'|'-separated columns; every column typed HEX:n / DEC:n is fed by an integer or by a BuildRecord field that BuildRecord::validate "
    "passes to a character-class check; every string field formatted into a row is checked for '|' and line breaks. R5: the newest build is "
    "selected by build_time (descending comparator over build_time, latest_build takes the first). R6: request-line arity tests are "
    "equalities. End-to-end field equality is not decided.")

ASSUMPTIONS = ["end-to-end field equality, build_time string ordering vs real time and multi-client liveness are not decided"]

ENTRY_ITEMS = ("start_server", "handle_connection", "handle_command", "handle_v1_command", "handle_v2_command", "handle_summary", "wrap_in_mime",
               "from_file", "latest_build", "handle_versions", "handle_cdns", "handle_bgdl", "handle_summary")
ASTX = os.path.join(extract.VERIF, "astx", "target", "release", "astx")


def r1_no_panic(ctx):
    rule = "C15.R1"
    ctx.rule(rule, "no explicit panic API reachable from the server entry points")
    prog = ctx.prog
    ents = [b.id for b in prog.bodies.values() if b.krate == "cascette_ribbit" and (b.item in ENTRY_ITEMS or (b.self_ty or "").endswith("BpsvResponse") or
                                                                                    re.search(r"/http/handlers\.rs$", b.file))]
    ctx.floor(rule, len(ents), 20, "server entry bodies")
    cl = pr.reach(prog, ents)
    n = 0
    for bid in sorted(cl):
        b = prog.bodies[bid]
        ctx.saw(b)
        for c in pr.panic_sites(b):
            n += 1
            if pr.infallible_try_into(b, c):
                ctx.ok(rule, [bid, pr.kind_of(c), "infallible"], "constant-width try_into cannot fail", c.loc())
                continue
            ctx.bad(rule, [bid, pr.kind_of(c)], "%s is reachable from a server entry point via %s: a request or database content that triggers it "
                    "crashes the connection task (or the server)" % (c.name, " -> ".join(prog.chain(cl, bid)[-4:])), c.loc())
    ctx.ok(rule, ["closure"], "closure scanned", None, sample={"entries": len(ents), "bodies_in_closure": len(cl), "panic_sites_in_closure": n})
    ctx.call_sites += sum(len(prog.bodies[b].calls) for b in cl)
    # implicit panics: every slice / array / Vec index and range in the same closure is proven in bounds by E-bounds (rules/bounds.py). In a
    # request handler everything is request- or database-derived, so an unproven site is reported whatever its index derives from.
    from . import bounds
    wcl = {b for b in cl if prog.bodies[b].krate.startswith("cascette_")}
    res, req = bounds.analyse_closure(prog, wcl)
    tot = 0
    for bid in sorted(res):
        for sk in res[bid].sinks:
            if sk.kind == "overflow" or getattr(sk, "delegated", None):
                continue
            tot += 1
            ctx.check(sk.proven, rule, [bid, "index-in-bounds", sk.kind], "index / range proven in bounds",
                      "%s: %s at %s is not proven in bounds (%s): a request or database content that makes it false panics the connection task" %
                      (ctx._stable(bid), sk.what, sk.loc, "; ".join(repr(g) + " <= 0" for g, d in zip(sk.goals, sk.detail) if d is None)[:160] or "length unknown"), sk.loc)
    ctx.floor(rule, tot, 6, "index / range sites in the server closure")


# adaptors that hand a field through unchanged (borrow, clone, default for an absent optional, Display)
VERBATIM_OK = {"as_deref", "as_ref", "as_str", "unwrap_or", "unwrap_or_default", "clone", "to_string", "to_owned", "borrow", "deref", "display"}
TIMEOUT = re.compile(r"tokio::time::timeout::timeout$|tokio::time::timeout$|timeout_at$")
SOCK_READ = re.compile(r"AsyncBufReadExt>?::(read_line|read_until)$|AsyncReadExt>?::(read_to_end|read_to_string|read_buf|read|read_exact)$")


def r2_bounded_reads(ctx):
    rule = "C15.R2"
    ctx.rule(rule, "every socket read is under a timeout and a size bound")
    n = 0
    for b in sorted(ctx.prog.bodies.values(), key=lambda x: x.id):
        if b.krate != "cascette_ribbit":
            continue
        for c in b.calls:
            if c.bb not in b.live_blocks() or not SOCK_READ.search(c.name):
                continue
            n += 1
            ctx.saw(b)
            ctx.call_sites += 1
            # (a) the future flows into tokio::time::timeout
            from .lib import forward_calls
            fw = forward_calls(b, c.dest[0], through=re.compile(r"\bIntoFuture>?::into_future$"))
            under_timeout = any(TIMEOUT.search(x.name) for x in fw)
            if not under_timeout and b.parent and b.parent in ctx.prog.bodies:
                # the read sits in an `async { .. }` block: covered when that block is the future handed to timeout() by the parent
                pb = ctx.prog.bodies[b.parent]
                for i, j, st in pb.stmts():
                    r = st["r"]
                    if r["k"] == "Agg" and r.get("ak") in ("coroutine", "closure", "coroutine_closure") and r.get("body") == b.id and len(st["p"]) == 1:
                        fw2 = forward_calls(pb, st["p"][0], through=re.compile(r"\bIntoFuture>?::into_future$"))
                        if any(TIMEOUT.search(x.name) for x in fw2):
                            under_timeout = True
            # (c) a count-returning read inside a loop tests ITS OWN count for zero and that edge leaves the loop: after EOF (or once
            # a take() limit is used up) the read returns Ok(0) immediately and for ever - without the exit the loop spins without
            # yielding, so not even the surrounding timeout can fire
            if re.search(r"::(read_line|read_until|read|read_buf)$", c.name) and c.bb in b.reachable(b.succ[c.bb]):
                from .lib import zero_read_leaves_loop
                exits = zero_read_leaves_loop(b, c)
                ctx.check(exits, rule, [b.id, "eof-leaves-loop", c.name.split("::")[-1]], "a zero-length read leaves the read loop",
                          "%s calls %s in a loop that does not leave on that call's own Ok(0): at end of input (or once the take() limit is exhausted) the read "
                          "returns Ok(0) immediately every time, the loop never yields, the timeout around it cannot fire and the worker thread is lost" %
                          (ctx._stable(b.id), c.name.split("::")[-1]), c.loc())
            ctx.check(under_timeout, rule, [b.id, "timeout", c.name.split("::")[-1]], "read is the future argument of timeout()",
                      "%s reads from the socket without a timeout: a client that never sends wedges the task forever" % b.id, c.loc(), sample={"read": c.loc()})
            # (b) size bound: the reader chain contains take(N), or the read is read_exact / read into a fixed buffer
            sl = Slice(b, [op_local(c.args[0])], transparent=True) if c.args and op_local(c.args[0]) is not None else None
            bounded = bool(sl) and (sl.has_call(r"AsyncReadExt>?::take$|\bRead>?::take$") or any("Take<" in b.local_ty(l) for l in sl.locals))
            fixed = re.search(r"::(read_exact|read|read_buf)$", c.name) is not None
            ctx.check(bounded or fixed, rule, [b.id, "size-bound", c.name.split("::")[-1]], "read goes through take(N) / a fixed buffer",
                      "%s reads a request line with %s into a growable String with no size bound: a never-terminated line makes the server buffer whatever the "
                      "client sends until the timeout fires (memory grows without bound per connection)" % (b.id, c.name.split("::")[-1]), c.loc())
    ctx.floor(rule, n, 1, "socket reads in cascette-ribbit")


# (splitting the command line into tokens and trimming the line ending select the product token, they do not rewrite it)
LOSSY_REQ = re.compile(r"str>?::(to_lowercase|to_uppercase|to_ascii_lowercase|to_ascii_uppercase|replace\w*)$|\[u8\]>::to_ascii_(lower|upper)case$|"
                       r"String::(truncate|retain|make_ascii_lowercase|make_ascii_uppercase)$|make_ascii_(lower|upper)case$")


def r7_product_verbatim(ctx):
    """the product a client names is the product that is looked up: the database and its validator treat product codes as exact strings
    (TCP v1/v2 pass them through), so a transport that normalises the name answers with another product's record - or with an error for a
    product that exists"""
    rule = "C15.R7"
    ctx.rule(rule, "the product argument of every database lookup (latest_build / builds_for / get_product ...) in the handlers is the request's product "
                   "string, unmodified (no case folding, trimming, replacing)")
    n = 0
    for b in ctx.prog.bodies.values():
        if b.krate != "cascette_ribbit" or not re.search(r"/(http|tcp)/", b.file or ""):
            continue
        for c in b.calls:
            if c.bb not in b.live_blocks() or not re.search(r"database::\w+::(latest_build|builds_for_product|get_builds|has_product|product_exists|builds)$|BuildDatabase::\w+$", c.name):
                continue
            if len(c.args) < 2 or op_local(c.args[1]) is None:
                continue
            n += 1
            ctx.saw(b)
            sl = Slice(b, [op_local(c.args[1])], transparent=True)
            lossy = [x for x in sl.calls if LOSSY_REQ.search(x.name) or LOSSY_REQ.search(x.orig_name or "")]
            ctx.check(not lossy, rule, [b.id, "product-verbatim", c.name.split("::")[-1]], "the looked-up product is the requested one",
                      "%s rewrites the requested product with %s before the database lookup: product codes are exact strings in the database and over the other "
                      "transports, so this transport returns a different product's record (or 404 for a product that exists)" %
                      (ctx._stable(b.id), lossy[0].name.split("::")[-1] if lossy else ""), c.loc())
    ctx.floor(rule, n, 4, "database lookups in the ribbit handlers")


def r3_isolation(ctx):
    rule = "C15.R3"
    ctx.rule(rule, "one spawned task per connection; handler never awaited inline; no error edge leaves the accept loop")
    bs = [b for b in ctx.prog.bodies.values() if b.krate == "cascette_ribbit" and b.item == "start_server" and b.coroutine and re.search(r"/tcp/mod\.rs$", b.file) and b.parent and not ctx.prog.bodies[b.parent].root]
    bs = [b for b in bs if b.calls_matching(r"TcpListener::accept$")]
    if not ctx.anchor(rule, bs, "tcp::start_server accept loop"):
        return
    b = bs[0]
    ctx.saw(b)
    acc = b.calls_matching(r"TcpListener::accept$")[0]
    sp = b.calls_matching(r"tokio::task::spawn::spawn$|tokio::spawn$")
    inline = b.calls_matching(r"tcp::handle_connection$")
    in_loop = bool(sp) and sp[0].bb in b.reachable(b.succ[acc.bb]) and acc.bb in b.reachable(b.succ[sp[0].bb])
    # the accept loop itself awaits nothing but accept(): any other await point between the accepted connection and the spawn (waiting for the
    # client to become readable, a handshake, a read) parks the loop on ONE client, outside the handler's timeout
    if sp:
        rl_acc, land = result_local(b, acc)
        between = b.reachable([land], avoid={sp[0].bb}) & {i for i in b.live_blocks() if sp[0].bb in b.reachable([i])}
        own = set()
        aw = awaited(b, acc)
        # yields that belong to awaiting accept() itself: those from which accept's landing block is reachable without passing the spawn
        yields = [i for i in between if b.blocks[i]["t"]["k"] == "Yield" and i not in b.reachable(b.succ[acc.bb], avoid={land}) ]
        ctx.check(not yields, rule, [b.id, "no-await-between-accept-and-spawn"], "nothing is awaited between accept() and spawn",
                  "tcp::start_server awaits something on the accepted connection before handing it to a task (an await point between accept() and tokio::spawn): "
                  "a client that connects and stays silent parks the accept loop - no other client is accepted or answered until it goes away",
                  "%s:%d" % (b.file, b.blocks[yields[0]]["t"].get("l", 0)) if yields else acc.loc())
    ctx.check(in_loop and not inline, rule, [b.id, "spawn-per-connection"], "each accepted connection is handed to tokio::spawn",
              "tcp::start_server handles a connection inline in the accept loop (or never spawns): one slow client blocks every other client", acc.loc(),
              sample={"accept": acc.loc(), "spawn": sp[0].loc() if sp else None})
    # the spawned task calls the handler
    spawned = [x for x in ctx.prog.family(b) if x.parent == b.id and x.calls_matching(r"tcp::handle_connection$")]
    ctx.check(bool(spawned), rule, [b.id, "task-runs-handler"], "the spawned task runs handle_connection", "the spawned task does not run handle_connection", acc.loc())
    for t in spawned:
        ctx.saw(t)
        h = t.calls_matching(r"tcp::handle_connection$")[0]
        rl, _ = result_local(t, h)
        # the handler's Err must not propagate out of the task as a panic
        ctx.check(not pr.panic_sites(t), rule, [t.id, "err-logged"], "handler errors are logged, not unwrapped",
                  "the connection task unwraps the handler's result: one bad request panics the task", h.loc())
    # error edges inside the loop that leave it
    rets = set(b.return_blocks())
    rl, land = result_local(b, acc)
    leaves = False
    for (sbb, m, other, via) in enum_switches_through(b, rl):
        if 1 in m and (b.reachable([m[1]], avoid={acc.bb}) & rets):
            leaves = True
    ctx.check(not leaves, rule, [b.id, "accept-error-stays"], "an accept() error does not end the accept loop",
              "tcp::start_server propagates an accept() error out of the accept loop with `?`: a transient failure (EMFILE when many clients hold connections "
              "open, ECONNABORTED) terminates the TCP server for everyone instead of being logged and retried", acc.loc())


def astx_records(files):
    if not os.path.exists(ASTX):
        env = dict(os.environ, CARGO_NET_OFFLINE="true")
        subprocess.run(["cargo", "build", "--release", "--offline"], cwd=os.path.join(extract.VERIF, "astx"), env=env,
                       stdout=subprocess.PIPE, stderr=subprocess.STDOUT)
    out = subprocess.run([ASTX] + files, stdout=subprocess.PIPE, stderr=subprocess.PIPE, text=True)
    if out.returncode != 0:
        raise RuntimeError("astx failed: " + out.stderr[-500:])
    return [json.loads(l) for l in out.stdout.splitlines() if l.strip()]


def template_columns(t):
    return t.split("|")


PLACEHOLDER = re.compile(r"\{([^{}]*)\}")


def r4_schema(ctx):
    rule = "C15.R4"
    ctx.rule(rule, "header/row column arity agrees; typed columns are fed by validated fields; row strings cannot contain separators")
    prog = ctx.prog
    src = os.path.join(extract.src_root(), "crates", "cascette-ribbit", "src", "responses", "bpsv.rs")
    if not ctx.anchor(rule, os.path.exists(src), "responses/bpsv.rs"):
        return
    recs = astx_records([src])
    # validated fields from MIR: BuildRecord::validate
    vb = [b for b in prog.find(self_ty=r"\bBuildRecord\b", item="validate", closure=False)]
    if not ctx.anchor(rule, vb, "BuildRecord::validate"):
        return
    v = vb[0]
    ctx.saw(v)
    hex_ok, nonempty, sep_ok = set(), set(), set()
    for c in v.calls:
        if re.search(r"BuildRecord::validate_hash$", c.name):
            for a in c.args[1:]:
                if op_local(a) is not None:
                    for f in Slice(v, [op_local(a)], transparent=True).fields:
                        hex_ok |= {x for x in f if not x.isdigit()}
        if re.search(r"::is_empty$", c.name):
            for a in c.args:
                if op_local(a) is not None:
                    for f in Slice(v, [op_local(a)], transparent=True).fields:
                        nonempty |= set(f)
        if re.search(r"str>?::contains$|::find$|::chars$|::bytes$", c.name):
            # a character test on a field: record which constants it looks for
            consts = [o for a in c.args[1:] for o in ([a] if a["k"] == "c" else [])]
            for a in c.args[:1]:
                if op_local(a) is not None:
                    for f in Slice(v, [op_local(a)], transparent=True).fields:
                        if any(str(o.get("v", "")) in ("124", "10") or o.get("s", "") in ("'|'", "'\\n'") for o in consts):
                            sep_ok |= set(f)
    hex_ok -= {"id"}
    # the hash validator really is a hex-class check
    vh = [b for b in prog.find(self_ty=r"\bBuildRecord\b", item="validate_hash")]
    is_hex = any(fb.calls_matching(r"is_ascii_hexdigit$") for b in vh for fb in prog.family(b))
    ctx.check(is_hex, rule, ["validate_hash", "hex-class"], "validate_hash tests every character for hex class", "validate_hash no longer tests is_ascii_hexdigit", vh[0].loc() if vh else None,
              sample={"hex_validated_fields": sorted(hex_ok)})
    adt = next((a for a in prog.adts.values() if a["name"].endswith("database::BuildRecord")), None)
    field_ty = {f["n"]: f["ty"] for f in adt["variants"][0]["fields"]} if adt else {}
    by_fn = {}
    for r in recs:
        if r.get("impl") == "BpsvResponse":
            by_fn.setdefault(r["fn"], []).append(r)
    n_fns = 0
    for fn, rs in sorted(by_fn.items()):
        headers = [r for r in rs if r["rec"] == "str" and "!" in r["value"] and "|" in r["value"] and re.search(r"!(STRING|HEX|DEC):\d+", r["value"])]
        rows = [r for r in rs if r["rec"] == "macro" and r["name"] == "format" and "|" in r.get("template", "")]
        if not headers or not rows:
            continue
        n_fns += 1
        lets = {r["name"]: r["init"] for r in rs if r["rec"] == "let"}
        hdr = headers[0]
        cols = hdr["value"].split("|")
        for row in rows:
            tcols = template_columns(row["template"])
            loc = "crates/cascette-ribbit/src/responses/bpsv.rs:%d" % row["line"]
            ctx.check(len(tcols) == len(cols), rule, ["BpsvResponse::" + fn, "arity"], "row has as many columns as the header (%d)" % len(cols),
                      "BpsvResponse::%s: the header declares %d columns but a row template has %d: the project's own BPSV parser rejects (or mis-assigns) every row" % (fn, len(cols), len(tcols)),
                      loc, sample={"header": hdr["value"], "row_template": row["template"]})
            if len(tcols) != len(cols):
                continue
            # resolve each column's expression
            pos = 0
            args = row.get("args", [])
            for ci, (col, cell) in enumerate(zip(cols, tcols)):
                m = re.match(r"^([A-Za-z]+)!(STRING|HEX|DEC):(\d+)$", col)
                if not m:
                    ctx.bad(rule, ["BpsvResponse::" + fn, "header-syntax", ci], "BpsvResponse::%s: malformed header column %r" % (fn, col), loc)
                    continue
                cname, cty = m.group(1), m.group(2)
                phs = PLACEHOLDER.findall(cell)
                exprs = []
                for ph in phs:
                    nm = ph.split(":")[0]
                    if nm == "":
                        exprs.append(args[pos] if pos < len(args) else "?")
                        pos += 1
                    elif nm.isdigit():
                        exprs.append(args[int(nm)] if int(nm) < len(args) else "?")
                    else:
                        exprs.append(lets.get(nm, nm))
                fields = []
                for e in exprs:
                    fm = re.search(r"\b(?:build|self)\s*\.\s*([a-z_0-9]+)", e)
                    f = fm.group(1) if fm else None
                    cm = re.search(r"\bcdn_config\s*\.\s*([a-z_0-9]+)", e)
                    if cm:
                        # CdnConfig fields: only those resolve_for_build fills from the BuildRecord are database-derived
                        f = cdn_from_build(prog).get(cm.group(1))
                        if f is None:
                            ctx.info("BpsvResponse::%s column %s is fed by server configuration (CdnConfig.%s), outside the property's quantifier" % (fn, cname, cm.group(1)))
                    fields.append(f)
                for e, f in zip(exprs, fields):
                    key = ["BpsvResponse::" + fn, cname]
                    if f is not None:
                        # the cell is the field itself: only borrowing / defaulting adaptors between the field and the template
                        meths = re.findall(r"\.\s*([a-z_0-9]+)\s*(?:::<[^>]*>)?\s*\(", e)
                        odd = [m_ for m_ in meths if m_ not in VERBATIM_OK]
                        sliced = bool(re.search(r"\[[^\]]*\.\.[^\]]*\]", e))
                        ctx.check(not odd and not sliced, rule, key + ["verbatim", f], "the cell is the record field, unmodified",
                                  "BpsvResponse::%s feeds column %s with `%s`: the value passes %s, so what the client receives is a function of the database field "
                                  "and not the field (a filter / transformation that drops or rewrites values the database holds)" % (fn, cname, e[:120], (odd or ["a sub-slice"])[0]),
                                  loc, sample={"column": col, "expr": e[:160], "methods": meths})
                    if f is None:
                        # loop variables over literal arrays / integer parameters
                        ctx.ok(rule, key + ["non-field"], "column fed by a literal/integer expression", loc, nontrivial=False)
                        continue
                    fty = field_ty.get(f, "")
                    if cty == "HEX":
                        ok = f in hex_ok
                        ctx.check(ok, rule, key + ["HEX", f], "HEX column fed by a hex-validated field",
                                  "BpsvResponse::%s formats BuildRecord.%s into the HEX column %s, but BuildRecord::validate never checks %s for hex characters/length: "
                                  "a database the validator accepts produces a response the project's own typed BPSV parser rejects" % (fn, f, cname, f), loc,
                                  sample={"column": col, "field": f})
                    elif cty == "DEC":
                        ok = bool(re.match(r"^(u|i)(8|16|32|64|size)$", fty))
                        ctx.check(ok, rule, key + ["DEC", f], "DEC column fed by an integer field",
                                  "BpsvResponse::%s formats BuildRecord.%s (%s, only checked for non-emptiness) into the DEC column %s: any non-numeric build string the "
                                  "validator lets through makes the client's numeric parse of the row fail" % (fn, f, fty.split("::")[-1], cname), loc,
                                  sample={"column": col, "field": f})
                    else:
                        ok = f in sep_ok or f in hex_ok
                        ctx.check(ok, rule, key + ["STRING", f], "STRING column fed by a field checked for '|' and line breaks",
                                  "BpsvResponse::%s formats BuildRecord.%s into the STRING column %s, but validation does not exclude '|' or newlines in it: such a value "
                                  "shifts the row's columns / splits the row for the client" % (fn, f, cname), loc, sample={"column": col, "field": f})
    ctx.floor(rule, n_fns, 2, "BpsvResponse constructors with a header and row templates")


_CDN = {}


def cdn_from_build(prog):
    """CdnConfig field -> BuildRecord field it is taken from in CdnConfig::resolve_for_build"""
    if _CDN:
        return _CDN
    bs = [b for b in prog.find(self_ty=r"\bCdnConfig\b", item="resolve_for_build", closure=False)]
    if not bs:
        return _CDN
    b = bs[0]
    for i, j, s in b.stmts():
        r = s["r"]
        if r["k"] == "Agg" and r.get("ak") == "adt" and r["adt"].endswith("config::CdnConfig"):
            for fname, o in zip(r["fields"], r["o"]):
                if op_local(o) is None:
                    continue
                sl = Slice(b, [op_local(o)], transparent=True)
                # fields read through parameter 1 (build)
                for p in sl.places:
                    if p[0] == 1 or 1 in Slice(b, [p[0]]).locals:
                        fs = [x for x in place_fields(p) if not x.isdigit()]
                        if fs and fs[0] in ("cdn_path",):
                            _CDN[fname] = fs[0]
    return _CDN


def r5_newest(ctx):
    rule = "C15.R5"
    ctx.rule(rule, "newest build = descending build_time; latest_build takes the first")
    prog = ctx.prog
    fb = [b for b in prog.find(self_ty=r"\bBuildDatabase\b", item="from_file")]
    if not ctx.anchor(rule, fb, "BuildDatabase::from_file"):
        return
    fam = prog.family(fb[0])
    sorts = [(b, c) for b in fam for c in b.calls_matching(r"slice::<impl \[T\]>::sort\w*$")]
    if not ctx.anchor(rule, sorts, "sort of each product's builds in from_file"):
        return
    b, c = sorts[0]
    ctx.saw(b)
    # the comparator / key closure
    clos = [x for x in fam if x.parent and x.id != b.id and any(op_local(a) is not None and x.id in [s["r"].get("body") for i, j, s in b.stmts() if s["r"]["k"] == "Agg" and s["p"][0] == op_local(a)] for a in c.args)]
    if not clos:
        clos = [x for x in fam if x.parent == b.id or (x.root and x.id != b.id)]
        clos = [x for x in clos if x.calls_matching(r"\bOrd>?::cmp$|::cmp$") or True]
    reads = set()
    desc = None
    for x in clos:
        for i, j, s in x.stmts():
            r = s["r"]
            for o in r.get("o", []):
                if o["k"] in ("cp", "mv"):
                    reads |= {f for f in place_fields(o["p"]) if not f.isdigit()}
            if "p" in r:
                reads |= {f for f in place_fields(r["p"]) if not f.isdigit()}
        for cc in x.calls:
            for a in cc.args:
                if a["k"] in ("cp", "mv"):
                    reads |= {f for f in place_fields(a["p"]) if not f.isdigit()}
            if re.search(r"\bOrd>?::cmp$|::cmp$", cc.name) and len(cc.args) == 2:
                l0 = Slice(x, [op_local(cc.args[0])]).locals if op_local(cc.args[0]) is not None else set()
                l1 = Slice(x, [op_local(cc.args[1])]).locals if op_local(cc.args[1]) is not None else set()
                # closure args: _1 = env, _2 = a, _3 = b
                if 3 in l0 and 2 in l1:
                    desc = True
                elif 2 in l0 and 3 in l1:
                    desc = False
    key_fields = {f for f in reads if f in ("build_time", "id", "build", "version", "product")}
    ctx.check(key_fields == {"build_time"} and desc is True, rule, [b.id, "order"], "builds sorted by build_time, newest first",
              "BuildDatabase::from_file orders a product's builds by %s (%s) instead of descending build_time: when id/insert order disagrees with the timestamps "
              "(a back-filled older build) every transport serves the wrong record as the newest build" % (sorted(key_fields) or "?", "descending" if desc else "ascending/unknown"),
              c.loc(), sample={"sort": c.loc(), "key_fields": sorted(key_fields), "descending": desc})
    lb = [x for x in prog.find(self_ty=r"\bBuildDatabase\b", item="latest_build")]
    if ctx.anchor(rule, lb, "BuildDatabase::latest_build"):
        fam2 = prog.family(lb[0])
        first = any(x.calls_matching(r"slice::<impl \[T\]>::first$") for x in fam2)
        ctx.check(first, rule, [lb[0].id, "first"], "latest_build returns the first (newest) element",
                  "latest_build no longer returns the first element of the newest-first list", lb[0].loc())


def r6_arity(ctx):
    rule = "C15.R6"
    ctx.rule(rule, "request-line arity tests are equalities (wrong arity is refused)")
    n = 0
    for item in ("handle_v1_command", "handle_v2_command"):
        bs = [b for b in ctx.prog.bodies.values() if b.krate == "cascette_ribbit" and b.item == item and not b.root]
        if not ctx.anchor(rule, bs, "tcp::%s" % item):
            continue
        b = bs[0]
        ctx.saw(b)
        errb = set(assigns_variant(b, "Err"))
        for i, j, s in b.stmts():
            r = s["r"]
            if r["k"] == "Bin" and r["op"] in ("Ne", "Eq", "Lt", "Le", "Gt", "Ge") and any(op_const(o) is not None and op_const(o) > 1 for o in r["o"]):
                sl = Slice(b, [op_local(o) for o in r["o"] if op_local(o) is not None], transparent=None)
                if not any(re.search(r"\bVec::<T, A>::len$", c.name) for c in sl.calls):
                    continue
                n += 1
                ctx.check(r["op"] in ("Ne", "Eq"), rule, [b.id, "arity"], "arity test is an (in)equality with the exact segment count",
                          "%s tests the number of '/'-separated segments with `%s` instead of an exact comparison: request lines with extra segments "
                          "(e.g. v2/products/wow/versions/extra) are answered with data instead of an error" % (item, r["op"]), "%s:%d" % (b.file, s["l"]),
                          sample={"op": r["op"]})
    ctx.floor(rule, n, 2, "arity tests in the TCP command handlers")


NORMALISE = re.compile(r"core::str::<impl str>::(trim\w*|to_lowercase|to_uppercase|to_ascii_lowercase|to_ascii_uppercase|replace\w*|strip_\w+|split\w*|chars)$|\bString::(to_lowercase|to_uppercase)$")


def normalised_checks(b):
    """calls that normalise a string (trim / case / replace / strip) inside a validator: what is then checked is not what is stored and emitted"""
    return [c for c in b.calls if c.bb in b.live_blocks() and not c.expn and re.search(r"::(trim\w*|to_lowercase|to_uppercase|to_ascii_lowercase|to_ascii_uppercase|replace\w*|strip_\w+)$", c.name)]


def r8_validate_what_is_emitted(ctx, krate="cascette_ribbit", floor=2):
    """the validators of the build database decide about the strings that the response builders later print verbatim (R4): a validator that trims,
    re-cases or strips its input before testing it accepts strings whose emitted form the client's typed parser rejects"""
    rule = "C15.R8"
    ctx.rule(rule, "validate* functions of the build database test the stored string itself (no trim / case folding / replace / strip before the test)")
    n = 0
    for b in sorted(ctx.prog.bodies.values(), key=lambda x: x.id):
        root = ctx.prog.bodies.get(b.root) if b.root else b
        if b.krate != krate or root is None or not re.match(r"validate", root.item or "") or not re.search(r"database\.rs$|config\.rs$", b.file or "") and krate == "cascette_ribbit":
            continue
        n += 1
        ctx.saw(b)
        bad = normalised_checks(b)
        ctx.check(not bad, rule, [b.id, "tests-stored-string"], "no normalisation before the test",
                  "%s normalises its input with %s before testing it, but the record keeps the original string and the response builders print it verbatim: a value "
                  "that only passes after normalisation (padded with whitespace, other case) is accepted at load time and then rejected by the client's typed "
                  "BPSV parser" % (ctx._stable(b.id), bad[0].name.split("::")[-1] if bad else "?"), bad[0].loc() if bad else b.loc())
    ctx.floor(rule, n, floor, "validate* bodies of the build database / server configuration")


def run(ctx):
    r8_validate_what_is_emitted(ctx)
    r1_no_panic(ctx)
    r2_bounded_reads(ctx)
    r3_isolation(ctx)
    r7_product_verbatim(ctx)
    r4_schema(ctx)
    r5_newest(ctx)
    r6_arity(ctx)


from .selftest import for_families as _ff  # noqa: E402
selftest = _ff(['panic', 'gate', 'readloop'])
